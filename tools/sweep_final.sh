#!/bin/bash
# final sweeps on a snapshot: quick tier at three more seeds, then the thorough tier of every check except the three that take more than ten minutes
export VERIF_REPO=${VP_RUN_REPO:-/repo}
for s in 201 202 203; do for p in $(seq -w 1 20); do VERIF_SEED=$s ./check C$p > out_${s}_C$p.log 2>&1; rc=$?; echo "seed=$s C$p rc=$rc"; [ $rc -ne 0 ] && grep -E "VIOLATION|INCONCLUSIVE" out_${s}_C$p.log | head -5; done; done
for p in 01 02 03 04 05 06 07 08 10 11 12 13 14 16 17 18 19; do t0=$(date +%s); ./check C$p --tier thorough > thorough_C$p.log 2>&1; rc=$?; echo "thorough C$p rc=$rc $(( $(date +%s)-t0 ))s"; [ $rc -ne 0 ] && grep -E "VIOLATION|INCONCLUSIVE" thorough_C$p.log | head -5; done
true
