#!/bin/bash
# Runs the quick check of the broken property against every seeded change; writes /verif/seeded/MATRIX.txt
cd "$(dirname "$0")/.."
out=seeded/MATRIX${2:-}.txt; : > $out.tmp
for d in seeded/${1:-C*-*}/; do
  id=$(basename $d); prop=${id%%-*}
  line=$(tools/run_mutant.sh $d/patch.diff $prop 2>&1 | grep -v "^#\|^pkg/" | tail -1 | cut -c1-300)
  echo "$id $line" | tee -a $out.tmp
done
mv $out.tmp $out
