#!/usr/bin/env python3
"""Regenerates the validation tables in DESIGN.md (between the MATRIX markers) from
seeded/MATRIX.txt and mutants/MATRIX.txt, and the detected_by field of every seeded/<id>/meta.json."""
import json, re, os
root = '/verif'
def parse(path):
    rows = []
    for l in open(path):
        m = re.search(r'(\S+?)(?:\.diff)? (C\d\d) exit=(\d+) violations=(\d+) :: ?(.*)', l)
        if m:
            rows.append(dict(name=m.group(1), prop=m.group(2), exit=int(m.group(3)), n=int(m.group(4)), first=m.group(5).strip()))
        elif 'BUILD-FAIL' in l or 'does not apply' in l:
            rows.append(dict(name=l.split()[0], prop='', exit=-1, n=0, first=l.strip()))
    return rows
def clause(first):
    m = re.search(r'clause=(\S+)', first)
    return m.group(1) if m else ''
out = []
seeded = []
for l in open(f'{root}/seeded/MATRIX.txt'):
    sid = l.split()[0]
    r = parse_line = None
    m = re.search(r'(C\d\d) exit=(\d+) violations=(\d+) :: ?(.*)', l)
    if m:
        seeded.append(dict(id=sid, prop=m.group(1), exit=int(m.group(2)), n=int(m.group(3)), first=m.group(4).strip()))
def neutral(sid):
    return json.load(open(f'{root}/seeded/{sid}/meta.json')).get('neutralised_by')
caught = sum(1 for s in seeded if s['exit'] == 1 and not neutral(s['id']))
live = sum(1 for s in seeded if not neutral(s['id']))
out.append(f'**Seeded changes (independent sub-agents): {caught} of {live} caught by the quick check of the broken property** ({len(seeded) - live} further change(s) no longer break their property on the repaired tree and are listed as neutralised).\n')
stale = [l.split()[0] for l in open(f'{root}/seeded/MATRIX.txt') if 'PATCH-DOES-NOT-APPLY' in l or 'BUILD-FAIL' in l]
if stale:
    out.append(f'{len(stale)} changes of earlier rounds ({", ".join(stale)}) were written against a commit before the repairs of D20 / D21 and no longer apply to (or build on) the repaired tree, which rewrote the functions they change; each was caught when it was installed (history of `seeded/MATRIX.txt`) and is left out of the table.\n')
out.append('| seeded change | what it does (see notes.md) | check | result | first violated clause |')
out.append('|---|---|---|---|---|')
for s in seeded:
    mp = f'{root}/seeded/{s["id"]}/meta.json'
    meta = json.load(open(mp))
    notes = open(f'{root}/seeded/{s["id"]}/notes.md').read()
    title = ''
    for line in notes.splitlines():
        t = line.strip('# ').strip()
        if t and not t.lower().startswith(('notes', 'seeded', 'property')):
            title = t; break
    title = meta.get('summary') or title
    res = 'caught' if s['exit'] == 1 else ('MISSED' if s['exit'] == 0 else f'exit {s["exit"]}')
    if s['exit'] == 0:
        if meta.get('caught_by_other_check'):
            res = 'not by its own check; caught by ' + meta['caught_by_other_check']['check'] + ' (' + meta['caught_by_other_check']['clause'] + ')'
        elif meta.get('not_judged'):
            res = 'MISSED (deliberately not judged, see meta.json)'
        elif meta.get('out_of_reach') or meta.get('out_of_budget'):
            res = 'MISSED (out of reach, see meta.json)' 
    if meta.get('neutralised_by'):
        res = 'neutralised by fix ' + meta['neutralised_by'] + ' (no longer a break)'
    out.append(f'| {s["id"]} | {title[:110].replace("|", "/")} | {s["prop"]} | {res} | {clause(s["first"])} |')
    meta['detected_by'] = [s['prop']] if s['exit'] == 1 else []
    meta['latest_run_of_own_check'] = {'exit': s['exit'], 'violation_lines': s['n'], 'first_violation': s['first'][:300]}
    json.dump(meta, open(mp, 'w'), indent=1)
own = parse(f'{root}/mutants/MATRIX.txt')
c2 = sum(1 for r in own if r['exit'] == 1)
out.append(f'\n**Own mutants: {c2} of {len(own)} (mutant, check) pairs caught.**\n')
out.append('| mutant | check | result | first violated clause |')
out.append('|---|---|---|---|')
for r in own:
    res = 'caught' if r['exit'] == 1 else ('MISSED' if r['exit'] == 0 else r['first'][:60])
    out.append(f'| {r["name"]} | {r["prop"]} | {res} | {clause(r["first"])} |')
d = open(f'{root}/DESIGN.md').read()
block = '<!-- MATRIX-BEGIN -->\n' + '\n'.join(out) + '\n<!-- MATRIX-END -->'
if 'MATRIX-PLACEHOLDER' in d:
    d = d.replace('MATRIX-PLACEHOLDER', block)
else:
    d = re.sub(r'<!-- MATRIX-BEGIN -->.*?<!-- MATRIX-END -->', lambda m: block, d, flags=re.S)
open(f'{root}/DESIGN.md', 'w').write(d)
print('seeded caught', caught, 'of', live, '; own caught', c2, 'of', len(own))
