export VERIF_REPO=$VP_RUN_REPO
for s in 101 102 103 104 105 106; do for p in $(seq -w 1 20); do VERIF_SEED=$s ./check C$p > out_$s_C$p.log 2>&1; rc=$?; echo "seed=$s C$p rc=$rc"; [ $rc -ne 0 ] && grep -E "VIOLATION|INCONCLUSIVE" out_$s_C$p.log | head -5; done; done
