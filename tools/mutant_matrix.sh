#!/bin/bash
# Runs every mutant in /verif/mutants against the check of the property named by its prefix
# (cNN_* -> CNN; revert_Dx via the table below). Output: one line per mutant.
cd "$(dirname "$0")/.."
declare -A REV=( [D1]="C09" [D2]="C08" [D3]="C05 C11" [D4]="C16" [D5]="C07" [D7]="C04" [D8]="C04" [D17]="C04" [D10]="C10" [D12]="C09" [D13a]="C12" [D13b]="C07" [D15]="C14" [D16]="C07" [D18]="C19" [D19]="C19" [D20]="C19" [D21]="C01 C04" )
for f in mutants/${1:-*}.diff; do
  n=$(basename $f .diff)
  if [[ $n == revert_* ]]; then props=${REV[${n#revert_}]}; else p=${n%%_*}; props="C${p#c}"; fi
  tools/run_mutant.sh $f $props 2>&1 | grep -v "^#\|^pkg/" | cut -c1-330
done
