#!/bin/bash
# usage: tools/run_mutant.sh <patch.diff> <Cxx> [<Cyy> ...]
# Applies the patch to /repo, runs the quick checks, reverts. Prints one line per check.
set -u
cd "$(dirname "$0")/.."
patch="$(readlink -f "$1")"; shift
if ! git -C /repo diff --quiet; then echo "/repo has uncommitted changes, refusing"; exit 3; fi
if ! git -C /repo apply --check "$patch" 2>/dev/null; then echo "patch does not apply: $patch"; exit 3; fi
git -C /repo apply "$patch"
trap 'git -C /repo checkout -- . ; git -C /repo clean -fdq' EXIT
( cd /repo && GOFLAGS=-mod=mod GOPROXY=off go build ./... ) || { echo "BUILD-FAIL $(basename $patch)"; exit 2; }
for p in "$@"; do
  out=$(VERIF_NO_EVIDENCE=1 ./check "$p" --tier quick 2>&1); rc=$?
  v=$(echo "$out" | grep -c '^VIOLATION')
  first=$(echo "$out" | grep -m1 '^VIOLATION' | sed 's/replay=[^ ]* //' | cut -c1-260)
  echo "$(basename $patch) $p exit=$rc violations=$v :: $first"
done
