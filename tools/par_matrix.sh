#!/bin/bash
# usage: tools/par_matrix.sh <jobs-file> <workers> <out-file>
# jobs-file: one job per line:  <label> <patch.diff> <Cxx> [<Cyy> ...]   ("ALL" = all 20 checks)
# Each worker owns a copy of /verif and a scratch worktree of /repo HEAD under /tmp/par/<k>; the patch is applied
# there (never to /repo), the quick checks run with VERIF_REPO pointing at it, everything is removed at the end.
set -u
jobs="$(readlink -f "$1")"; n="$2"; out="$(readlink -f -m "$3")"
export GOFLAGS=-mod=mod GOPROXY=off
root=${PAR_ROOT:-/tmp/par}; rm -rf $root; mkdir -p $root; : > "$out"
worker() {
  local k=$1 d=$root/$1
  mkdir -p $d
  rsync -a --exclude .git --exclude .build --exclude work --exclude replays --exclude seeded --exclude mutants /verif/ $d/verif/
  git -C /repo worktree add -q --detach $d/repo ${PAR_BASE:-HEAD} || return
  local i=0
  while read -r label patch checks; do
    i=$((i+1)); [ $(( (i-1) % n )) -eq $k ] || continue
    [ "$checks" = ALL ] && checks="C01 C02 C03 C04 C05 C06 C07 C08 C09 C10 C11 C12 C13 C14 C15 C16 C17 C18 C19 C20"
    git -C $d/repo reset -q --hard ${PAR_BASE:-HEAD} ; git -C $d/repo clean -fdq
    if ! git -C $d/repo apply "$patch" 2>/dev/null && ! git -C $d/repo apply -3 "$patch" 2>/dev/null; then echo "$label - PATCH-DOES-NOT-APPLY" >> "$out"; continue; fi
    if ! ( cd $d/repo && go build ./... ) 2>/dev/null; then echo "$label - BUILD-FAIL" >> "$out"; continue; fi
    for p in $checks; do
      o=$( cd $d/verif && VERIF_REPO=$d/repo VERIF_NO_EVIDENCE=1 ./check $p --tier quick 2>&1 ); rc=$?
      v=$(echo "$o" | grep -c '^VIOLATION')
      first=$(echo "$o" | grep -m1 -E '^(VIOLATION|INCONCLUSIVE)' | sed 's/replay=[^ ]* //' | cut -c1-300)
      echo "$label $p exit=$rc violations=$v :: $first" >> "$out"
    done
  done < "$jobs"
  git -C /repo worktree remove --force $d/repo
}
for k in $(seq 0 $((n-1))); do worker $k & done
wait
git -C /repo worktree prune; rm -rf $root
sort -o "$out" "$out"
