#!/bin/bash
# background thorough sweep on a repository snapshot: tools/sweep_thorough.sh [seed]
export VERIF_REPO=${VP_RUN_REPO:-/repo}
s=${1:-}
for p in $(seq -w 1 20); do t0=$(date +%s); VERIF_SEED=$s ./check C$p --tier thorough > thorough_C$p.log 2>&1; rc=$?; echo "thorough seed=$s C$p rc=$rc $(( $(date +%s)-t0 ))s"; [ $rc -ne 0 ] && grep -E "VIOLATION|INCONCLUSIVE" thorough_C$p.log | head -5; done
