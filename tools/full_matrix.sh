#!/bin/bash
# Runs the quick check of the broken property against every seeded change and every own mutant, in parallel on scratch
# worktrees (tools/par_matrix.sh), and rewrites seeded/MATRIX.txt, mutants/MATRIX.txt and the tables in DESIGN.md.
# usage: tools/full_matrix.sh [workers]
cd "$(dirname "$0")/.."
declare -A REV=( [D1]="C09" [D2]="C08" [D3]="C05 C11" [D4]="C16" [D5]="C07" [D6]="C04" [D7]="C04" [D8]="C04" [D17]="C04" [D10]="C10" [D11]="C07" [D12]="C09" [D13a]="C12" [D13b]="C07" [D14]="C07" [D15]="C14" [D16]="C07" [D18]="C19" [D19]="C19" [D20]="C19" [D21]="C01 C04" )
jobs=$(mktemp)
for d in seeded/C*-*/; do id=$(basename $d); echo "$id $PWD/$d/patch.diff ${id%%-*}"; done > $jobs
for f in mutants/*.diff; do
  n=$(basename $f .diff)
  if [[ $n == revert_* ]]; then props=${REV[${n#revert_}]}; else p=${n%%_*}; props="C${p#c}"; fi
  echo "$n.diff $PWD/$f $props"
done >> $jobs
out=$(mktemp)
tools/par_matrix.sh $jobs ${1:-7} $out
grep -E '^C[0-9]+-[0-9]+ ' $out | sed -E 's/^(C[0-9]+-[0-9]+) /\1 patch.diff /' | sort -V > seeded/MATRIX.txt
grep -vE '^C[0-9]+-[0-9]+ ' $out | sort > mutants/MATRIX.txt
rm -f $jobs $out
python3 tools/update_matrix_docs.py
grep -c "exit=1" seeded/MATRIX.txt mutants/MATRIX.txt; grep -v "exit=1" seeded/MATRIX.txt mutants/MATRIX.txt | cut -c1-200
