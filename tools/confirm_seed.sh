#!/bin/bash
# usage: tools/confirm_seed.sh <Cxx> <N>   — confirms /tmp/seed/<Cxx>-out/change<N> in a fresh scratch worktree
set -u
id=$1; n=$2
src=${SEED_BASE:-/tmp/seed}/$id-out/change$n
wt=/tmp/confirm/$id-$n
export GOFLAGS=-mod=mod GOPROXY=off
rm -rf $wt; git -C /repo worktree prune; mkdir -p /tmp/confirm
git -C /repo worktree add -q --detach $wt HEAD || exit 3
cleanup() { git -C /repo worktree remove --force $wt 2>/dev/null; }
trap cleanup EXIT
cd $wt
if ! git apply --check $src/patch.diff 2>/dev/null; then echo "$id/$n PATCH-DOES-NOT-APPLY"; exit 1; fi
git apply $src/patch.diff
if git diff --name-only | grep -q '_test.go$'; then echo "$id/$n PATCH-TOUCHES-TESTS"; fi
if ! go build ./... 2>/tmp/confirm/$id-$n.build; then echo "$id/$n BUILD-FAIL"; exit 1; fi
suite=$(go test -vet=off -count=1 ./... 2>&1 | grep -E "^(FAIL|---|ok|panic)" | grep -v "^ok" | head -3)
[ -n "$suite" ] && { echo "$id/$n SUITE-FAILS-WITH-PATCH: $suite"; exit 1; }
# demo placement
dst=$(head -30 $src/demo_test.go | grep -o 'pkg/[A-Za-z0-9_/]*_test\.go' | head -1)
pkgname=$(grep -m1 '^package ' $src/demo_test.go | awk '{print $2}')
if [ -z "$dst" ]; then case "$pkgname" in checker) dst=pkg/provider/checker/seed_demo_test.go;; xml) dst=pkg/provider/xml/seed_demo_test.go;; signature) dst=pkg/provider/signature/seed_demo_test.go;; serviceprovider) dst=pkg/provider/serviceprovider/seed_demo_test.go;; *) dst=pkg/provider/seed_demo_test.go;; esac; fi
cp $src/demo_test.go $dst
dir=$(dirname $dst)
with=$(go test -vet=off -count=1 ./$dir/ 2>&1 | grep -E "^(--- FAIL|FAIL|ok|panic)" | head -3 | tr '\n' ' ')
git apply -R $src/patch.diff
without=$(go test -vet=off -count=1 ./$dir/ 2>&1 | grep -E "^(--- FAIL|FAIL|ok|panic)" | head -3 | tr '\n' ' ')
verdict=CONFIRMED
echo "$with" | grep -q "FAIL\|panic" || verdict="DEMO-DOES-NOT-FAIL-WITH-PATCH"
echo "$without" | grep -q "^ok" || verdict="DEMO-FAILS-WITHOUT-PATCH"
echo "$id/$n $verdict demo=$dst | with: $with | without: $without"
