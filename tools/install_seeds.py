#!/usr/bin/env python3
"""usage: tools/install_seeds.py <seed-base> <round> <first-number> <summaries.json> <confirm.out>
Copies <seed-base>/<Cxx>-out/change{1,2} to seeded/<Cxx>-<first-number+{0,1}> and writes meta.json.
summaries.json: {"C01/1": ["summary", "needs"], ...}; only changes whose confirm line says CONFIRMED are installed."""
import json, os, shutil, sys, subprocess
base, rnd, first, sumf, conf = sys.argv[1], int(sys.argv[2]), int(sys.argv[3]), sys.argv[4], sys.argv[5]
root = os.path.dirname(os.path.dirname(os.path.abspath(__file__)))
props = {json.loads(l)['id']: json.loads(l) for l in open(os.path.join(root, 'properties.jsonl'))}
sums = json.load(open(sumf))
confirmed = {}
for l in open(conf):
    k = l.split(' ', 1)[0]
    if ' CONFIRMED ' in l:
        confirmed[k] = l.strip()[:240]
head = subprocess.check_output(['git', '-C', '/repo', 'rev-parse', '--short', 'HEAD'], text=True).strip()
n = 0
for pid in sorted(props):
    for c in (1, 2):
        k = f'{pid}/{c}'
        src = f'{base}/{pid}-out/change{c}'
        if k not in confirmed or not os.path.isdir(src):
            print('skipped', k); continue
        sid = f'{pid}-{first + c - 1}'
        dst = os.path.join(root, 'seeded', sid)
        os.makedirs(dst, exist_ok=True)
        for f in ('patch.diff', 'demo_test.go', 'notes.md'):
            shutil.copy(os.path.join(src, f), os.path.join(dst, f))
        meta = {
            'id': sid, 'round': rnd, 'breaks_property': pid, 'title': props[pid]['title'],
            'origin': f'independent sub-agent (round {rnd}) given only the property text, a scratch worktree of /repo ({head}) and one-line summaries of the changes already produced for this property, which it had to stay away from',
            'summary': sums[k][0], 'needs_to_manifest': sums[k][1],
            'confirmed_by': {'command': f'SEED_BASE={base} tools/confirm_seed.sh {pid} {c}',
                             'what': f'fresh scratch worktree of /repo HEAD ({head}): patch applies, go build ./... ok, existing suite passes with the patch, demo test FAILS with the patch and PASSES without it',
                             'result': confirmed[k]},
            'detected_by': [],
        }
        json.dump(meta, open(os.path.join(dst, 'meta.json'), 'w'), indent=1)
        n += 1
print('installed', n)
