#!/usr/bin/env python3
"""usage: mkmutant.py <name> <file relative to /repo> <old> <new> [<file> <old> <new> ...]
Edits /repo temporarily, stores the diff as /verif/mutants/<name>.diff and reverts."""
import sys, subprocess
name = sys.argv[1]; args = sys.argv[2:]
assert subprocess.run(['git','-C','/repo','diff','--quiet']).returncode == 0, '/repo dirty'
try:
    for i in range(0, len(args), 3):
        f, old, new = args[i:i+3]
        p = '/repo/' + f
        s = open(p).read()
        assert s.count(old) == 1, (f, 'occurrences', s.count(old))
        open(p, 'w').write(s.replace(old, new))
    d = subprocess.run(['git','-C','/repo','diff'], capture_output=True, text=True).stdout
    open('/verif/mutants/%s.diff' % name, 'w').write(d)
    print('wrote', name, len(d.splitlines()), 'lines')
finally:
    subprocess.run(['git','-C','/repo','checkout','--','.'])
