#!/usr/bin/env python3
"""Validate MANIFEST.json and evidence/*.json against the given schemas."""
import json, sys, glob
import jsonschema
m = json.load(open('/verif/MANIFEST.json'))
jsonschema.validate(m, json.load(open('/root/.vp/MANIFEST.schema.json')))
es = json.load(open('/root/.vp/EVIDENCE.schema.json'))
bad = 0
for c in m['checks']:
    f = c['evidence_file']
    try:
        e = json.load(open(f))
        jsonschema.validate(e, es)
        print('ok', f, e['tier'], e['coverage']['evaluations'], e['coverage']['distinct_nontrivial'], e['coverage'].get('verdict'))
    except Exception as ex:
        bad += 1
        print('BAD', f, str(ex)[:300])
props = [json.loads(l)['id'] for l in open('/verif/properties.jsonl')]
claimed = {c['property_id'] for c in m['checks']}
na = {n['property_id'] for n in m.get('not_applicable', [])}
for p in props:
    if p not in claimed and p not in na:
        print('UNLISTED', p); bad += 1
sys.exit(1 if bad else 0)
