#!/bin/bash
# MANIFEST.setup_cmd: offline build of the harness binaries (warms the Go build cache).
set -eu
cd "$(dirname "$0")"
export GOFLAGS=-mod=mod GOPROXY=off
mkdir -p .build work evidence replays
( cd harness && go build -tags verif -o ../.build/verifh ./cmd/verifh )
( cd harness && go build -race -tags verif -o ../.build/verifh-race ./cmd/verifh )
( cd harness && go build -tags verif -o ../.build/c18built ./cmd/c18built )
python3 -c "import xml.parsers.expat, hashlib, base64, json; print('python oracles ok')"
echo setup ok
