// Package fuzz holds native go-fuzzing targets for C09 (thorough tier): coverage-guided
// exploration of the decoders, the SP registration API and the whole handlers.
// Run by the C09 check with execution-count budgets (-fuzztime=Nx).
package fuzz

import (
	"encoding/base64"
	"math/rand"
	"net/url"
	"testing"

	"github.com/zitadel/saml/pkg/provider/serviceprovider"
	samlxml "github.com/zitadel/saml/pkg/provider/xml"

	"verif/harness/env"
	"verif/harness/keys"
	"verif/harness/sim"
	"verif/harness/spsim"
)

func sp0() *spsim.SPDesc {
	return &spsim.SPDesc{
		EntityID: "https://sp0.example/saml/metadata",
		ACS:      []spsim.ACS{{Binding: spsim.BindPost, Location: "https://sp0.example/acs", Index: "0", IsDefault: "true"}, {Binding: spsim.BindRedirect, Location: "https://sp0.example/acs2", Index: "1"}},
		SLO:      []spsim.SLO{{Binding: spsim.BindPost, Location: "https://sp0.example/slo"}},
		Cert:     keys.Get("sp0"), Prefix: "md", AuthnRequestsSigned: "false",
	}
}

func seeds() (authn, logout, query string) {
	rng := rand.New(rand.NewSource(1))
	st := spsim.Style{PfxP: "samlp", PfxA: "saml"}
	a := &spsim.AuthnReq{ID: "_a1", Version: "2.0", IssueInstant: "2026-01-01T00:00:00Z", Destination: "https://idp.example/saml/SSO", Issuer: sp0().EntityID,
		NameIDPolicy: true, Conditions: true, NotBefore: "2020-01-01T00:00:00Z", NotOnOrAfter: "2099-01-01T00:00:00Z", AuthnContext: true, Style: st}
	l := &spsim.LogoutReq{ID: "_l1", Version: "2.0", IssueInstant: "2020-01-01T00:00:00Z", Issuer: sp0().EntityID, NameID: "user@example.com", NotOnOrAfter: "2099-01-01T00:00:00Z", SessionIndex: []string{"s"}, Style: st}
	q := &spsim.AttrQuery{ID: "_q1", Version: "2.0", IssueInstant: "2026-01-01T00:00:00Z", Issuer: sp0().EntityID, Subject: "fuzzuser", Attrs: []spsim.QAttr{{Name: "Email", NameFormat: "urn:oasis:names:tc:SAML:2.0:attrname-format:basic"}}, SoapPfx: "soap", Style: st}
	return a.XML(rng), l.XML(rng), q.XML(rng)
}

func world() *env.Env {
	e := env.Static(env.Opts{})
	e.W.NoLog = true
	if _, err := e.W.AddSP("appA", sp0().XML()); err != nil {
		panic(err)
	}
	e.W.AddUser(&sim.User{UserID: "u1", Username: "fuzzuser", Email: "f@example.com"})
	return e
}

func FuzzDecoders(f *testing.F) {
	a, l, q := seeds()
	for _, s := range []string{a, l, q, string(sp0().XML()), "", "<", "<a/>"} {
		f.Add([]byte(s))
	}
	f.Fuzz(func(t *testing.T, data []byte) {
		b64 := base64.StdEncoding.EncodeToString(data)
		_, _ = samlxml.DecodeAuthNRequest("", b64)
		_, _ = samlxml.DecodeAuthNRequest(samlxml.EncodingDeflate, b64)
		_, _ = samlxml.DecodeLogoutRequest("", b64)
		_, _ = samlxml.DecodeAttributeQuery(string(data))
		_, _ = samlxml.DecodeResponse("", false, string(data))
		_, _ = samlxml.DecodeSignature("", false, string(data))
		_, _ = samlxml.ParseMetadataXmlIntoStruct(data)
		_, _ = samlxml.InflateAndDecode(samlxml.EncodingDeflate, false, string(data))
	})
}

func FuzzNewServiceProvider(f *testing.F) {
	f.Add(sp0().XML())
	d := sp0()
	d.Cert = keys.Get("ec")
	f.Add(d.XML())
	d2 := sp0()
	d2.Cert = nil
	f.Add(d2.XML())
	f.Fuzz(func(t *testing.T, data []byte) {
		sp, err := serviceprovider.NewServiceProvider("app", &serviceprovider.Config{Metadata: data}, func(s string) string { return s })
		if err != nil || sp == nil {
			return
		}
		_ = sp.GetEntityID()
		_ = sp.ValidateRedirectSignature("req", "relay", spsim.AlgRSASHA256, "c2ln")
		_ = sp.ValidateRedirectSignature("req", "", "http://www.w3.org/2000/09/xmldsig#dsa-sha1", "MAYCAQECAQE=")
		_ = sp.ValidatePostSignature(string(data))
	})
}

func FuzzSSOHandler(f *testing.F) {
	a, _, _ := seeds()
	f.Add(a, "relay", "", "", "")
	f.Add(a, "", spsim.AlgRSASHA256, "c2ln", samlxml.EncodingDeflate)
	e := world()
	f.Fuzz(func(t *testing.T, xml, relay, sigAlg, sig, enc string) {
		q := url.Values{}
		q.Set("SAMLRequest", spsim.DeflateB64(xml))
		if relay != "" {
			q.Set("RelayState", relay)
		}
		if sigAlg != "" {
			q.Set("SigAlg", sigAlg)
		}
		if sig != "" {
			q.Set("Signature", sig)
		}
		if enc != "" {
			q.Set("SAMLEncoding", enc)
		}
		if c := e.Do(env.Req{Path: env.PathSSO, Query: q.Encode()}); c.Panic != "" {
			t.Fatalf("SSO (redirect) panicked: %s\n%s", c.Panic, c.Stack)
		}
		b := url.Values{}
		b.Set("SAMLRequest", spsim.B64([]byte(xml)))
		b.Set("RelayState", relay)
		if c := e.Do(env.Req{Method: "POST", Path: env.PathSSO, Body: b.Encode()}); c.Panic != "" {
			t.Fatalf("SSO (post) panicked: %s\n%s", c.Panic, c.Stack)
		}
	})
}

func FuzzLogoutAndQuery(f *testing.F) {
	_, l, q := seeds()
	f.Add(l, q, "relay")
	e := world()
	f.Fuzz(func(t *testing.T, logout, query, relay string) {
		b := url.Values{}
		b.Set("SAMLRequest", spsim.B64([]byte(logout)))
		b.Set("RelayState", relay)
		if c := e.Do(env.Req{Method: "POST", Path: env.PathSLO, Body: b.Encode()}); c.Panic != "" {
			t.Fatalf("SLO panicked: %s\n%s", c.Panic, c.Stack)
		}
		if c := e.Do(env.Req{Path: env.PathSLO, Query: "SAMLRequest=" + url.QueryEscape(spsim.DeflateB64(logout))}); c.Panic != "" {
			t.Fatalf("SLO (redirect) panicked: %s\n%s", c.Panic, c.Stack)
		}
		if c := e.Do(env.Req{Method: "POST", Path: env.PathAttr, Body: query, CT: "text/xml"}); c.Panic != "" {
			t.Fatalf("attribute query panicked: %s\n%s", c.Panic, c.Stack)
		}
		if c := e.Do(env.Req{Path: env.PathLogin, Query: "id=" + url.QueryEscape(relay)}); c.Panic != "" {
			t.Fatalf("callback panicked: %s\n%s", c.Panic, c.Stack)
		}
	})
}
