package verify

import (
	"bufio"
	"crypto/rsa"
	"crypto/x509"
	"encoding/base64"
	"encoding/json"
	"fmt"
	"io"
	"os/exec"
	"path/filepath"
	"sync"

	"verif/harness/core"
)

// pyProc is one python oracle process (line-based JSON over pipes).
type pyProc struct {
	cmd *exec.Cmd
	in  io.WriteCloser
	out *bufio.Reader
}

// PyPool is a pool of python oracle processes.
type PyPool struct {
	ch   chan *pyProc
	once sync.Once
	err  error
	n    int
}

var Py = &PyPool{n: 8}

func (p *PyPool) start() {
	p.ch = make(chan *pyProc, p.n)
	for i := 0; i < p.n; i++ {
		cmd := exec.Command("python3", filepath.Join(core.Root, "pyoracle", "oracle.py"))
		in, err := cmd.StdinPipe()
		if err != nil {
			p.err = err
			return
		}
		out, err := cmd.StdoutPipe()
		if err != nil {
			p.err = err
			return
		}
		if err := cmd.Start(); err != nil {
			p.err = err
			return
		}
		p.ch <- &pyProc{cmd: cmd, in: in, out: bufio.NewReaderSize(out, 1<<20)}
	}
}

// Call sends one request and returns the decoded answer.
func (p *PyPool) Call(req map[string]any) (map[string]any, error) {
	p.once.Do(p.start)
	if p.err != nil {
		return nil, p.err
	}
	pr := <-p.ch
	defer func() { p.ch <- pr }()
	b, _ := json.Marshal(req)
	if _, err := pr.in.Write(append(b, '\n')); err != nil {
		return nil, err
	}
	line, err := pr.out.ReadBytes('\n')
	if err != nil {
		return nil, err
	}
	var resp map[string]any
	if err := json.Unmarshal(line, &resp); err != nil {
		return nil, err
	}
	if oe, _ := resp["oracle_error"].(bool); oe {
		return resp, fmt.Errorf("python oracle failed: %v", resp["err"])
	}
	return resp, nil
}

// Close stops the oracle processes.
func (p *PyPool) Close() {
	if p.ch == nil {
		return
	}
	for i := 0; i < p.n; i++ {
		select {
		case pr := <-p.ch:
			pr.in.Close()
			_ = pr.cmd.Wait()
		default:
		}
	}
}

// PyNode is one element of the expat dump.
type PyNode struct {
	Depth int
	NS    string
	Local string
	Attrs map[string]string
	Text  string
}

// PyWF asks expat whether the bytes are one well-formed document and returns its dump.
func PyWF(xml []byte, dump bool) (ok bool, errText string, nodes []PyNode, err error) {
	resp, err := Py.Call(map[string]any{"op": "wf", "xml": base64.StdEncoding.EncodeToString(xml), "nodump": !dump})
	if err != nil {
		return false, "", nil, err
	}
	ok, _ = resp["ok"].(bool)
	errText, _ = resp["err"].(string)
	if raw, has := resp["nodes"].([]any); has {
		for _, r := range raw {
			a, _ := r.([]any)
			if len(a) != 5 {
				continue
			}
			n := PyNode{Attrs: map[string]string{}}
			if f, ok := a[0].(float64); ok {
				n.Depth = int(f)
			}
			n.NS, _ = a[1].(string)
			n.Local, _ = a[2].(string)
			if m, ok := a[3].(map[string]any); ok {
				for k, v := range m {
					n.Attrs[k], _ = v.(string)
				}
			}
			n.Text, _ = a[4].(string)
			nodes = append(nodes, n)
		}
	}
	return ok, errText, nodes, nil
}

// V2 verifies the enveloped signature of the first element named tag with the
// python verifier (expat + own exclusive C14N + modpow).
func V2(wire []byte, tag string, cert *x509.Certificate) (ok bool, reason string, err error) {
	pub, isRSA := cert.PublicKey.(*rsa.PublicKey)
	if !isRSA {
		return false, "", fmt.Errorf("certificate key is not RSA")
	}
	resp, err := Py.Call(map[string]any{"op": "dsig", "xml": base64.StdEncoding.EncodeToString(wire), "tag": tag,
		"n": pub.N.Text(16), "e": pub.E})
	if err != nil {
		return false, "", err
	}
	ok, _ = resp["ok"].(bool)
	reason, _ = resp["err"].(string)
	return ok, reason, nil
}
