// Package verify holds the independent signature verifiers: V1 (goxmldsig on
// the wire bytes), the HTTP-Redirect procedure on the raw query string, and the
// bridge to the Python oracles (V2, expat).
package verify

import (
	"crypto"
	"crypto/rsa"
	"crypto/sha1"
	"crypto/sha256"
	"crypto/sha512"
	"crypto/x509"
	"encoding/base64"
	"fmt"

	"github.com/beevik/etree"
	dsig "github.com/russellhaering/goxmldsig"
	"github.com/russellhaering/goxmldsig/etreeutils"

	"verif/harness/reply"
)

// FindByTag returns the first element (depth first, including root) with the local tag.
func FindByTag(root *etree.Element, tag string) *etree.Element {
	if root.Tag == tag {
		return root
	}
	for _, c := range root.ChildElements() {
		if f := FindByTag(c, tag); f != nil {
			return f
		}
	}
	return nil
}

// V1 verifies the enveloped signature of the first element named tag inside
// the document given as wire bytes, trusting only cert.
func V1(wire []byte, tag string, cert *x509.Certificate) error {
	doc := etree.NewDocument()
	if err := doc.ReadFromBytes(wire); err != nil {
		return fmt.Errorf("parse: %w", err)
	}
	if doc.Root() == nil {
		return fmt.Errorf("no root element")
	}
	el := FindByTag(doc.Root(), tag)
	if el == nil {
		return fmt.Errorf("no %s element", tag)
	}
	var sig *etree.Element
	for _, c := range el.ChildElements() {
		if c.Tag == "Signature" {
			sig = c
			break
		}
	}
	if sig == nil {
		return fmt.Errorf("%s carries no Signature", tag)
	}
	store := dsig.MemoryX509CertificateStore{Roots: []*x509.Certificate{cert}}
	vc := dsig.NewDefaultValidationContext(&store)
	vc.IdAttribute = "ID"
	ctx, err := etreeutils.NSBuildParentContext(el)
	if err != nil {
		return err
	}
	ctx, err = ctx.SubContext(el)
	if err != nil {
		return err
	}
	det, err := etreeutils.NSDetatch(ctx, el)
	if err != nil {
		return err
	}
	_, err = vc.Validate(det)
	return err
}

// Redirect verifies the signature of an HTTP-Redirect reply on the raw query
// string actually sent, per the SAML bindings specification (3.4.4.1).
func Redirect(d *reply.Decoded, param string, cert *x509.Certificate) error {
	rawMsg, ok := d.RawParams[param]
	if !ok {
		return fmt.Errorf("no %s parameter", param)
	}
	rawAlg, ok := d.RawParams["SigAlg"]
	if !ok {
		return fmt.Errorf("no SigAlg parameter")
	}
	rawSig, ok := d.RawParams["Signature"]
	if !ok {
		return fmt.Errorf("no Signature parameter")
	}
	octets := param + "=" + rawMsg
	if rs, ok := d.RawParams["RelayState"]; ok {
		octets += "&RelayState=" + rs
	}
	octets += "&SigAlg=" + rawAlg
	alg, err := reply.PctDecode(rawAlg)
	if err != nil {
		return fmt.Errorf("SigAlg: %w", err)
	}
	sigText, err := reply.PctDecode(rawSig)
	if err != nil {
		return fmt.Errorf("Signature: %w", err)
	}
	sig, err := base64.StdEncoding.DecodeString(sigText)
	if err != nil {
		return fmt.Errorf("Signature is not base64 after percent-decoding: %w", err)
	}
	pub, ok := cert.PublicKey.(*rsa.PublicKey)
	if !ok {
		return fmt.Errorf("certificate key is not RSA")
	}
	switch alg {
	case "http://www.w3.org/2000/09/xmldsig#rsa-sha1":
		s := sha1.Sum([]byte(octets))
		return rsa.VerifyPKCS1v15(pub, crypto.SHA1, s[:], sig)
	case "http://www.w3.org/2001/04/xmldsig-more#rsa-sha256":
		s := sha256.Sum256([]byte(octets))
		return rsa.VerifyPKCS1v15(pub, crypto.SHA256, s[:], sig)
	case "http://www.w3.org/2001/04/xmldsig-more#rsa-sha512":
		s := sha512.Sum512([]byte(octets))
		return rsa.VerifyPKCS1v15(pub, crypto.SHA512, s[:], sig)
	}
	return fmt.Errorf("SigAlg %q is not a signature algorithm URI", alg)
}
