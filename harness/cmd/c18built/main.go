// c18built runs the built-message workload of C18 and prints its observations as JSON.
package main

import (
	"encoding/json"
	"flag"
	"os"

	"verif/harness/c18b"
	"verif/harness/core"
	"verif/harness/verify"
)

func main() {
	seed := flag.Int64("seed", 1, "")
	n := flag.Int("n", 260, "")
	flag.Parse()
	os.Setenv("VERIF_NO_EVIDENCE", "1")
	r := core.NewRun("C18", "quick", *seed)
	r.Execute(nil, []core.Workload{{Name: "built_messages", N: *n, Fn: c18b.Built}})
	verify.Py.Close()
	_ = json.NewEncoder(os.Stdout).Encode(r.Dump())
}
