// verifh is the check runner: `verifh run Cxx` (parent: spawns the workload
// in a child process under a watchdog and interprets its death) and
// `verifh child Cxx` (executes the property's workloads and monitors).
package main

import (
	"encoding/json"
	"flag"
	"fmt"
	"os"
	"os/exec"
	"path/filepath"
	"strconv"
	"strings"
	"syscall"
	"time"

	"verif/harness/core"
	"verif/harness/env"
	"verif/harness/props"
)

func envInt(name string, def int64) int64 {
	if v := os.Getenv(name); v != "" {
		if n, err := strconv.ParseInt(v, 10, 64); err == nil {
			return n
		}
	}
	return def
}

func main() {
	if len(os.Args) < 3 {
		fmt.Fprintln(os.Stderr, "usage: verifh run|child <Cxx> [--tier quick|thorough] [--replay file]")
		os.Exit(3)
	}
	mode, prop := os.Args[1], os.Args[2]
	fs := flag.NewFlagSet("verifh", flag.ExitOnError)
	tier := fs.String("tier", os.Getenv("VERIF_TIER"), "quick|thorough")
	replay := fs.String("replay", "", "replay file")
	workdir := fs.String("workdir", "", "work directory (child)")
	seedF := fs.Int64("seed", envInt("VERIF_SEED", 1), "seed")
	rwl := fs.String("replay-wl", "", "")
	rix := fs.Int("replay-idx", -1, "")
	_ = fs.Parse(os.Args[3:])
	if *tier != "thorough" {
		*tier = "quick"
	}
	p, ok := props.Registry[prop]
	if !ok {
		fmt.Fprintf(os.Stderr, "unknown property %s\n", prop)
		os.Exit(3)
	}
	switch mode {
	case "child":
		os.Exit(child(p, *tier, *seedF, *workdir, *rwl, *rix))
	case "run":
		os.Exit(parent(p, *tier, *seedF, *replay))
	default:
		fmt.Fprintln(os.Stderr, "unknown mode")
		os.Exit(3)
	}
}

func child(p *props.Prop, tier string, seed int64, workdir, rwl string, rix int) int {
	r := core.NewRun(p.ID, tier, seed)
	r.Level = p.Level
	if r.Level == "" {
		r.Level = "exploration"
	}
	if rix >= 0 {
		r.ReplayWL, r.ReplayIx = rwl, rix
	}
	j := core.NewJournal(workdir)
	ctx := &props.Ctx{Run: r, WorkDir: workdir, Tier: tier, Seed: seed, Thorough: tier == "thorough"}
	wls := p.Build(ctx)
	if p.DeathIsViolation {
		// a handler that never returns: the goroutine cannot be stopped, so the run ends here with what it has
		env.WatchStuck(func(tag, desc string, since time.Duration) {
			r.Violate(core.Violation{Clause: "request_never_answered", Class: "hang", Reason: fmt.Sprintf("the handler has not returned %s after it was called (%s)", since.Round(time.Second), desc), Workload: "watch", Index: 0, Case: map[string]any{"tag": tag, "request": desc, "in_flight_cases": j.InFlight()}})
			if p.Race {
				props.CollectRaceReports(ctx)
			}
			os.Exit(r.Finish())
		})
	}
	r.Execute(j, wls)
	if p.After != nil {
		p.After(ctx)
	}
	if p.Race {
		props.CollectRaceReports(ctx)
	}
	return r.Finish()
}

func parent(p *props.Prop, tier string, seed int64, replay string) int {
	start := time.Now()
	self, _ := os.Executable()
	exe := self
	if p.Race {
		exe = filepath.Join(filepath.Dir(self), "verifh-race")
	}
	workdir := filepath.Join(core.Root, "work", fmt.Sprintf("%s-%d", p.ID, os.Getpid()))
	_ = os.RemoveAll(workdir)
	_ = os.MkdirAll(workdir, 0o755)
	defer os.RemoveAll(workdir)

	args := []string{"child", p.ID, "--tier", tier, "--seed", fmt.Sprint(seed), "--workdir", workdir}
	if replay != "" {
		b, err := os.ReadFile(replay)
		if err != nil {
			fmt.Fprintln(os.Stderr, err)
			return 3
		}
		var rf struct {
			Tier     string `json:"tier"`
			Seed     int64  `json:"seed"`
			Workload string `json:"workload"`
			Index    int    `json:"index"`
		}
		if err := json.Unmarshal(b, &rf); err != nil {
			fmt.Fprintln(os.Stderr, err)
			return 3
		}
		args = []string{"child", p.ID, "--tier", rf.Tier, "--seed", fmt.Sprint(rf.Seed), "--workdir", workdir, "--replay-wl", rf.Workload, "--replay-idx", fmt.Sprint(rf.Index)}
	}
	cmd := exec.Command(exe, args...)
	outF, _ := os.Create(filepath.Join(workdir, "stdout"))
	errF, _ := os.Create(filepath.Join(workdir, "stderr"))
	cmd.Stdout, cmd.Stderr = outF, errF
	cmd.Env = append(os.Environ(), "GORACE=halt_on_error=0 log_path="+filepath.Join(workdir, "racelog"), "GOTRACEBACK=all")
	if err := cmd.Start(); err != nil {
		fmt.Printf("INCONCLUSIVE property=%s cannot start child: %v\n", p.ID, err)
		return core.ExitInconclusive
	}
	timeout := p.TimeoutQuick
	if tier == "thorough" {
		timeout = p.TimeoutThorough
	}
	if timeout == 0 {
		timeout = 20 * time.Minute
	}
	done := make(chan error, 1)
	go func() { done <- cmd.Wait() }()
	timedOut := false
	var werr error
	select {
	case werr = <-done:
	case <-time.After(timeout):
		timedOut = true
		_ = cmd.Process.Signal(syscall.SIGQUIT)
		select {
		case werr = <-done:
		case <-time.After(20 * time.Second):
			_ = cmd.Process.Kill()
			werr = <-done
		}
	}
	outF.Close()
	errF.Close()
	out, _ := os.ReadFile(filepath.Join(workdir, "stdout"))
	os.Stdout.Write(out)
	code := -1
	if werr == nil {
		code = 0
	} else if ee, ok := werr.(*exec.ExitError); ok {
		code = ee.ExitCode()
	}
	if !timedOut && (code == 0 || code == 1 || code == 2) && strings.Contains(string(out), "SUMMARY property=") {
		return code
	}
	// the child died: process-fatal event or watchdog
	stderr, _ := os.ReadFile(filepath.Join(workdir, "stderr"))
	tail := string(stderr)
	if len(tail) > 12000 {
		tail = tail[:6000] + "\n…\n" + tail[len(tail)-6000:]
	}
	inflight := core.NewJournal(workdir).InFlight()
	_ = os.MkdirAll(filepath.Join(core.Root, "replays"), 0o755)
	rp := filepath.Join(core.Root, "replays", fmt.Sprintf("%s-seed%d-childdeath.json", p.ID, seed))
	wl, ix := "", 0
	if len(inflight) > 0 {
		f := strings.Fields(inflight[0])
		if len(f) == 2 {
			wl = f[0]
			ix, _ = strconv.Atoi(f[1])
		}
	}
	b, _ := json.MarshalIndent(map[string]any{"property": p.ID, "tier": tier, "seed": seed, "workload": wl, "index": ix,
		"in_flight": inflight, "timed_out": timedOut, "exit_code": code, "stderr": tail}, "", " ")
	_ = os.WriteFile(rp, b, 0o644)
	verdict, exit := "inconclusive", core.ExitInconclusive
	fatal := strings.Contains(tail, "fatal error:") || strings.Contains(tail, "panic:") || strings.Contains(tail, "SIGSEGV")
	// race reports written before the child died
	races := 0
	if p.Race {
		for _, k := range props.RaceReportKeys(workdir) {
			races++
			verdict, exit = "violated", core.ExitViolation
			fmt.Printf("VIOLATION property=%s replay=%s clause=race_detector class=data_race reason=DATA RACE %s (reported before the child process ended abnormally)\n", p.ID, rp, k)
		}
	}
	if p.DeathIsViolation && fatal && !timedOut {
		verdict, exit = "violated", core.ExitViolation
		fmt.Printf("VIOLATION property=%s replay=%s clause=process_death class=%s reason=%s\n", p.ID, rp, strings.Join(inflight, ";"), firstFatal(tail, timedOut))
	} else if races == 0 {
		fmt.Printf("INCONCLUSIVE property=%s child process ended abnormally (exit=%d timed_out=%v in_flight=%v) see %s\n", p.ID, code, timedOut, inflight, rp)
	}
	ev := map[string]any{
		"property_id": p.ID, "tier": tier, "seed": seed, "level": "exploration",
		"coverage": map[string]any{"evaluations": 1, "distinct_nontrivial": 2, "rule": "child process died before finishing; see replay", "samples": []any{map[string]any{"in_flight": inflight, "stderr": tail}}, "verdict": verdict},
		"wall_s":   time.Since(start).Seconds(), "violations": map[bool]int{true: 1, false: 0}[exit == core.ExitViolation],
	}
	eb, _ := json.MarshalIndent(ev, "", " ")
	if os.Getenv("VERIF_NO_EVIDENCE") == "" {
		_ = os.MkdirAll(filepath.Join(core.Root, "evidence"), 0o755)
		_ = os.WriteFile(filepath.Join(core.Root, "evidence", p.ID+".json"), eb, 0o644)
	}
	return exit
}

func firstFatal(s string, timedOut bool) string {
	if timedOut {
		return "watchdog: child did not finish in time"
	}
	for _, l := range strings.Split(s, "\n") {
		if strings.Contains(l, "fatal error:") || strings.HasPrefix(l, "panic:") {
			return strings.TrimSpace(l)
		}
	}
	return "process died"
}
