// keygen writes the static key material used by the harness (run once; output is committed).
package main

import (
	"crypto/ecdsa"
	"crypto/ed25519"
	"crypto/elliptic"
	"crypto/rand"
	"crypto/rsa"
	"crypto/x509"
	"crypto/x509/pkix"
	"encoding/pem"
	"math/big"
	"os"
	"path/filepath"
	"time"
)

func must(err error) {
	if err != nil {
		panic(err)
	}
}

func write(dir, name, typ string, der []byte) {
	must(os.WriteFile(filepath.Join(dir, name), pem.EncodeToMemory(&pem.Block{Type: typ, Bytes: der}), 0o644))
}

func tmpl(cn string, serial int64) *x509.Certificate {
	return &x509.Certificate{
		SerialNumber: big.NewInt(serial),
		Subject:      pkix.Name{CommonName: cn, Organization: []string{"verif"}},
		NotBefore:    time.Date(2020, 1, 1, 0, 0, 0, 0, time.UTC),
		NotAfter:     time.Date(2120, 1, 1, 0, 0, 0, 0, time.UTC),
		KeyUsage:     x509.KeyUsageDigitalSignature,
	}
}

func main() {
	dir := os.Args[1]
	for i, n := range []string{"idp_resp", "idp_meta", "sp0", "sp1", "sp2", "sp3", "attacker"} {
		k, err := rsa.GenerateKey(rand.Reader, 2048)
		must(err)
		t := tmpl(n, int64(100+i))
		der, err := x509.CreateCertificate(rand.Reader, t, t, &k.PublicKey, k)
		must(err)
		write(dir, n+".crt", "CERTIFICATE", der)
		write(dir, n+".key", "RSA PRIVATE KEY", x509.MarshalPKCS1PrivateKey(k))
	}
	{
		k, err := ecdsa.GenerateKey(elliptic.P256(), rand.Reader)
		must(err)
		t := tmpl("ec", 200)
		der, err := x509.CreateCertificate(rand.Reader, t, t, &k.PublicKey, k)
		must(err)
		write(dir, "ec.crt", "CERTIFICATE", der)
		kd, _ := x509.MarshalPKCS8PrivateKey(k)
		write(dir, "ec.key", "PRIVATE KEY", kd)
	}
	{
		pub, k, err := ed25519.GenerateKey(rand.Reader)
		must(err)
		t := tmpl("ed", 201)
		der, err := x509.CreateCertificate(rand.Reader, t, t, pub, k)
		must(err)
		write(dir, "ed.crt", "CERTIFICATE", der)
		kd, _ := x509.MarshalPKCS8PrivateKey(k)
		write(dir, "ed.key", "PRIVATE KEY", kd)
	}
}
