// Package env builds a provider over the simulated world and executes
// requests against its real HTTP handler, recording everything at the two
// boundaries (HTTP and Storage).
package env

import (
	"context"
	"fmt"
	"io"
	"log"
	"net/http"
	"net/url"
	"os"
	"runtime/debug"
	"strings"
	"sync"
	"sync/atomic"
	"time"

	"github.com/zitadel/logging"
	"github.com/zitadel/saml/pkg/provider"

	"verif/harness/reply"
	"verif/harness/sim"
	"verif/harness/spsim"
)

func init() {
	logging.SetOutput(io.Discard)
	log.SetOutput(io.Discard)
}

// Opts is a provider configuration.
type Opts struct {
	Issuer     string // static issuer ("" = host-derived)
	HostPath   string // path of a host-derived issuer
	FwdHeaders []string
	UseFwd     bool // IssuerFromForwardedOrHost instead of IssuerFromHost
	Insecure   bool
	SigAlg     string
	NoSigAlg   bool // leave SignatureAlgorithm empty
	MetaSigAlg string
	// configuration fields that exist and that the library does not read today: set now and then so that a change
	// which starts reading them on one side only is noticed
	MetaPath     string // MetadataConfig.Path
	DigestAlg    string // IdentityProviderConfig.DigestAlgorithm
	InsecureFlag bool   // IdentityProviderConfig.Insecure
	WantSigned   string
	TimeFormat   string
	Endpoints    *provider.EndpointConfig
	Metadata     *provider.Endpoint
	Org          *provider.Organisation
	Contact      *provider.ContactPerson
	EncAlg       string
	MetaIDP      *provider.MetadataIDPConfig
	World        *sim.World
	// IssuerFactory overrides the issuer selection (a factory value shared between providers).
	IssuerFactory func(bool) (provider.IssuerFromRequest, error)
}

// Env is one provider instance over one world.
type Env struct {
	W    *sim.World
	P    *provider.Provider
	O    Opts
	H    http.Handler
	tagN atomic.Int64
	Name string
	// IDPConf is the configuration object the provider was built from (the integrator keeps it too).
	IDPConf *provider.IdentityProviderConfig
	// Cancellable gives every request a context that CancelRequest can cancel from inside a storage call (the
	// client goes away at that very moment).
	Cancellable bool
	// ExtraQuery / ExtraHeaders are added to every request (parameters and headers nobody asked for).
	ExtraQuery   string
	ExtraHeaders map[string]string
}

type cancelKey struct{}

// CancelRequest cancels the request whose context (or a context derived from it) is ctx; it reports whether the
// request was cancellable.
func CancelRequest(ctx context.Context) bool {
	if c, ok := ctx.Value(cancelKey{}).(context.CancelFunc); ok {
		c()
		return true
	}
	return false
}

const DefaultIssuer = "https://idp.example/saml"

func New(o Opts) (*Env, error) {
	w := o.World
	if w == nil {
		w = sim.NewWorld()
	}
	idpc := &provider.IdentityProviderConfig{
		SignatureAlgorithm:     o.SigAlg,
		WantAuthRequestsSigned: o.WantSigned,
		EncryptionAlgorithm:    o.EncAlg,
		Endpoints:              o.Endpoints,
		MetadataIDPConfig:      o.MetaIDP,
	}
	if o.SigAlg == "" && !o.NoSigAlg {
		idpc.SignatureAlgorithm = spsim.AlgRSASHA256
	}
	conf := &provider.Config{IDPConfig: idpc, Metadata: o.Metadata, Organisation: o.Org, ContactPerson: o.Contact}
	if o.MetaSigAlg != "" || o.MetaPath != "" {
		conf.MetadataConfig = &provider.MetadataConfig{SignatureAlgorithm: o.MetaSigAlg, Path: o.MetaPath}
	}
	idpc.DigestAlgorithm, idpc.Insecure = o.DigestAlg, o.InsecureFlag
	var iss func(bool) (provider.IssuerFromRequest, error)
	switch {
	case o.IssuerFactory != nil:
		iss = o.IssuerFactory
	case o.Issuer != "":
		iss = provider.StaticIssuer(o.Issuer)
	case o.UseFwd:
		if o.FwdHeaders != nil {
			iss = provider.IssuerFromForwardedOrHost(o.HostPath, provider.WithIssuerFromCustomHeaders(append([]string(nil), o.FwdHeaders...)...))
		} else {
			iss = provider.IssuerFromForwardedOrHost(o.HostPath)
		}
	default:
		iss = provider.IssuerFromHost(o.HostPath)
	}
	var popts []provider.Option
	if o.Insecure {
		popts = append(popts, provider.WithAllowInsecure())
	}
	if o.TimeFormat != "" {
		popts = append(popts, provider.WithCustomTimeFormat(o.TimeFormat))
	}
	p, err := provider.NewProvider(w, iss, conf, popts...)
	if err != nil {
		return nil, err
	}
	return &Env{W: w, P: p, O: o, H: p.HttpHandler(), IDPConf: idpc}, nil
}

// Static returns an environment with the default static issuer.
func Static(o Opts) *Env {
	if o.Issuer == "" && o.HostPath == "" && !o.UseFwd {
		o.Issuer = DefaultIssuer
	}
	e, err := New(o)
	if err != nil {
		panic(err)
	}
	return e
}

// Call is one executed HTTP request with everything observed about it.
type Call struct {
	Tag    string
	Method string
	Path   string
	Query  string
	Host   string
	Body   string
	Hdr    map[string][]string
	Rec    *reply.Recorder
	D      *reply.Decoded
	Panic  string
	Stack  string
	T0, T1 time.Time
	Events []sim.Event
}

// Req describes a request to issue.
type Req struct {
	Method  string
	Path    string
	Query   string // raw query string, sent as is
	Host    string
	Body    string
	CT      string // content type ("" = form for non-empty body on POST)
	Headers map[string][]string
	Tag     string
	// FailWriteAfter > 0 makes the ResponseWriter fail after that many body bytes.
	FailWriteAfter int
	// OnWrite is called at the start of every Write of the ResponseWriter (slow connection).
	OnWrite func()
	// Ctx, when set, is the parent of the request's context (client that goes away: cancel it).
	Ctx context.Context
	// BodyReader, when set, replaces Body as the source of the request body (slow upload); BodyLen is its length.
	BodyReader io.Reader
	BodyLen    int64
	// Chunk > 0 delivers Body in pieces of at most that many bytes per Read.
	Chunk int
}

// Do executes the request in the calling goroutine, recovering panics.
func (e *Env) Do(rq Req) *Call {
	if rq.Method == "" {
		rq.Method = "GET"
	}
	if rq.Host == "" {
		rq.Host = "idp.example"
	}
	tag := rq.Tag
	if tag == "" {
		tag = fmt.Sprintf("%st%d", e.Name, e.tagN.Add(1))
	}
	if e.ExtraQuery != "" {
		if rq.Query != "" {
			rq.Query += "&"
		}
		rq.Query += e.ExtraQuery
	}
	h := http.Header{}
	for k, v := range e.ExtraHeaders {
		h.Set(k, v)
	}
	for k, vs := range rq.Headers {
		for _, v := range vs {
			h.Add(k, v)
		}
	}
	if rq.Body != "" || rq.Method == "POST" {
		ct := rq.CT
		if ct == "" {
			ct = "application/x-www-form-urlencoded"
		}
		if h.Get("Content-Type") == "" {
			h.Set("Content-Type", ct)
		}
	}
	r := &http.Request{
		Method:        rq.Method,
		URL:           &url.URL{Path: rq.Path, RawQuery: rq.Query},
		Proto:         "HTTP/1.1",
		ProtoMajor:    1,
		ProtoMinor:    1,
		Header:        h,
		Host:          rq.Host,
		Body:          io.NopCloser(strings.NewReader(rq.Body)),
		ContentLength: int64(len(rq.Body)),
		RemoteAddr:    "192.0.2.1:1234",
		RequestURI:    rq.Path,
	}
	if rq.Query != "" {
		r.RequestURI += "?" + rq.Query
	}
	if rq.BodyReader != nil {
		r.Body, r.ContentLength = io.NopCloser(rq.BodyReader), rq.BodyLen
	} else if rq.Chunk > 0 && rq.Body != "" {
		// the body arrives in pieces, as over a real connection: a single Read does not deliver all of it
		r.Body = io.NopCloser(&chunked{r: strings.NewReader(rq.Body), n: rq.Chunk})
	}
	if rq.Ctx != nil {
		r = r.WithContext(rq.Ctx)
	}
	// like a request served by net/http, every request has a context that can be cancelled (Done() is never nil) and
	// that is cancelled when the handler has returned
	cctx, cancel := context.WithCancel(r.Context())
	defer cancel()
	r = r.WithContext(cctx)
	if e.Cancellable {
		r = r.WithContext(context.WithValue(cctx, cancelKey{}, context.CancelFunc(cancel)))
	}
	r = r.WithContext(sim.WithTag(r.Context(), tag))
	c := &Call{Tag: tag, Method: rq.Method, Path: rq.Path, Query: rq.Query, Host: rq.Host, Body: rq.Body, Hdr: h, Rec: reply.NewRecorder()}
	c.Rec.FailAfter = rq.FailWriteAfter
	c.Rec.OnWrite = rq.OnWrite
	c.T0 = time.Now()
	inFlight.Store(tag, &flight{start: c.T0, desc: rq.Method + " " + rq.Path + " host=" + rq.Host + " query=" + clip(rq.Query, 300) + " body=" + clip(rq.Body, 300)})
	defer inFlight.Delete(tag)
	func() {
		defer func() {
			if p := recover(); p != nil {
				c.Panic = fmt.Sprint(p)
				c.Stack = string(debug.Stack())
			}
		}()
		e.H.ServeHTTP(c.Rec, r)
	}()
	c.T1 = time.Now()
	c.D = reply.Decode(c.Rec)
	c.Events = e.W.Events(tag)
	return c
}

// chunked delivers at most n bytes per Read.
type chunked struct {
	r io.Reader
	n int
}

func (c *chunked) Read(p []byte) (int, error) {
	if len(p) > c.n {
		p = p[:c.n]
	}
	return c.r.Read(p)
}

// ---- requests that are never answered ----

type flight struct {
	start    time.Time
	desc     string
	reported bool
}

var inFlight sync.Map // tag -> *flight

// StuckAfter is how long a handler may take before the request counts as never answered. Handlers answer in
// milliseconds and the harness never holds a request for more than a few seconds, so this is two orders of
// magnitude of slack for a loaded machine.
var StuckAfter = 4 * time.Minute

// WatchStuck calls report (once per request) for every request that has been inside the handler for longer than
// StuckAfter. It is the only place where wall-clock time leads to a verdict.
func WatchStuck(report func(tag, desc string, since time.Duration)) {
	if v, err := time.ParseDuration(os.Getenv("VERIF_STUCK_AFTER")); err == nil && v > 0 {
		StuckAfter = v
	}
	go func() {
		for {
			time.Sleep(5 * time.Second)
			inFlight.Range(func(k, v any) bool {
				f := v.(*flight)
				if d := time.Since(f.start); d > StuckAfter && !f.reported {
					f.reported = true
					report(k.(string), f.desc, d)
				}
				return true
			})
		}
	}()
}

// Describe returns a compact JSON-able description of the call (replay files).
func (c *Call) Describe() map[string]any {
	m := map[string]any{
		"tag": c.Tag, "method": c.Method, "path": c.Path, "query": clip(c.Query, 6000), "host": c.Host, "body": clip(c.Body, 6000),
		"status": c.D.Status, "kind": c.D.Kind, "target": c.D.Target, "location": clip(c.D.Location, 3000),
		"reply_body": clip(string(c.D.Body), 6000), "events": c.Events,
	}
	if len(c.Hdr) > 0 {
		m["headers"] = c.Hdr
	}
	if c.Panic != "" {
		m["panic"] = c.Panic
		m["stack"] = clip(c.Stack, 6000)
	}
	if c.D.XML != nil {
		m["message"] = clip(string(c.D.XML), 8000)
	}
	if c.D.HasRelay {
		m["relay_state"] = clip(c.D.RelayState, 2000)
	}
	return m
}

func clip(s string, n int) string {
	if len(s) > n {
		return s[:n] + fmt.Sprintf("…(%d bytes)", len(s))
	}
	return s
}

// Count returns how many events of op the call produced (successful only if okOnly).
func (c *Call) Count(op string, okOnly bool) int {
	n := 0
	for _, e := range c.Events {
		if e.Op == op && (!okOnly || !e.Err) {
			n++
		}
	}
	return n
}

// First returns the first event of op.
func (c *Call) First(op string) *sim.Event {
	for i := range c.Events {
		if c.Events[i].Op == op {
			return &c.Events[i]
		}
	}
	return nil
}

// Accepted reports whether an SSO request was accepted: persisted successfully.
func (c *Call) Accepted() bool { return c.Count("CreateAuthRequest", true) > 0 }

// Paths of the default endpoints.
const (
	PathSSO      = "/SSO"
	PathSLO      = "/SLO"
	PathLogin    = "/login"
	PathAttr     = "/attribute"
	PathMetadata = "/metadata"
	PathCert     = "/certificate"
)
