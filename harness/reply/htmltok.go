package reply

import (
	"strconv"
	"strings"
	"unicode/utf8"
)

// HTMLToken is one token of the harness's own byte-level HTML tokenizer
// (tag / attribute states of the HTML syntax, character references decoded).
type HTMLToken struct {
	Kind  string // "text", "start", "end", "comment", "doctype"
	Name  string // lower-cased tag name
	Attrs []HTMLAttr
	Data  string // text / comment / doctype content (text: character references decoded)
	Self  bool
	Raw   string
}

type HTMLAttr struct {
	Name  string
	Value string // decoded
	Raw   string // raw bytes between the quotes
	Quote byte   // '"', '\'' or 0
}

func (t *HTMLToken) Attr(name string) (string, bool) {
	for _, a := range t.Attrs {
		if a.Name == name {
			return a.Value, true
		}
	}
	return "", false
}

var namedRefs = map[string]string{
	"amp": "&", "lt": "<", "gt": ">", "quot": "\"", "apos": "'", "nbsp": " ",
	"copy": "©", "reg": "®", "not": "¬", "AMP": "&", "LT": "<", "GT": ">", "QUOT": "\"",
	"sect": "§", "para": "¶", "deg": "°", "times": "×", "micro": "µ", "Tab": "\t", "NewLine": "\n",
}

// legacy references that HTML recognises even without the trailing semicolon
var legacyNoSemi = []string{"amp", "lt", "gt", "quot", "nbsp", "copy", "reg", "not", "AMP", "LT", "GT", "QUOT", "sect", "para", "deg", "times", "micro"}

var win1252 = map[int]rune{
	0x80: 0x20AC, 0x82: 0x201A, 0x83: 0x0192, 0x84: 0x201E, 0x85: 0x2026, 0x86: 0x2020, 0x87: 0x2021,
	0x88: 0x02C6, 0x89: 0x2030, 0x8A: 0x0160, 0x8B: 0x2039, 0x8C: 0x0152, 0x8E: 0x017D, 0x91: 0x2018,
	0x92: 0x2019, 0x93: 0x201C, 0x94: 0x201D, 0x95: 0x2022, 0x96: 0x2013, 0x97: 0x2014, 0x98: 0x02DC,
	0x99: 0x2122, 0x9A: 0x0161, 0x9B: 0x203A, 0x9C: 0x0153, 0x9E: 0x017E, 0x9F: 0x0178,
}

// DecodeRefs decodes HTML character references; inAttr selects the attribute
// rule for legacy references without semicolon.
func DecodeRefs(s string, inAttr bool) string {
	if !strings.Contains(s, "&") {
		return s
	}
	var b strings.Builder
	for i := 0; i < len(s); {
		c := s[i]
		if c != '&' {
			b.WriteByte(c)
			i++
			continue
		}
		j := i + 1
		if j < len(s) && s[j] == '#' {
			j++
			base := 10
			if j < len(s) && (s[j] == 'x' || s[j] == 'X') {
				base = 16
				j++
			}
			st := j
			for j < len(s) && isDigit(s[j], base) {
				j++
			}
			if j == st {
				b.WriteByte('&')
				i++
				continue
			}
			n, err := strconv.ParseInt(s[st:j], base, 64)
			if err != nil || n > 0x10FFFF {
				n = 0xFFFD
			}
			if j < len(s) && s[j] == ';' {
				j++
			}
			r := rune(n)
			if n == 0 || (n >= 0xD800 && n <= 0xDFFF) {
				r = 0xFFFD
			} else if m, ok := win1252[int(n)]; ok {
				r = m
			}
			b.WriteRune(r)
			i = j
			continue
		}
		st := j
		for j < len(s) && isAlnum(s[j]) {
			j++
		}
		name := s[st:j]
		if j < len(s) && s[j] == ';' {
			if v, ok := namedRefs[name]; ok {
				b.WriteString(v)
				i = j + 1
				continue
			}
			b.WriteByte('&')
			i++
			continue
		}
		// no semicolon: longest legacy prefix
		matched := ""
		for _, l := range legacyNoSemi {
			if strings.HasPrefix(name, l) && len(l) > len(matched) {
				matched = l
			}
		}
		if matched != "" {
			next := byte(0)
			if st+len(matched) < len(s) {
				next = s[st+len(matched)]
			}
			if inAttr && (next == '=' || isAlnum(next)) {
				b.WriteByte('&')
				i++
				continue
			}
			b.WriteString(namedRefs[matched])
			i = st + len(matched)
			continue
		}
		b.WriteByte('&')
		i++
	}
	return b.String()
}

func isDigit(c byte, base int) bool {
	if c >= '0' && c <= '9' {
		return true
	}
	if base == 16 {
		return c >= 'a' && c <= 'f' || c >= 'A' && c <= 'F'
	}
	return false
}

func isAlnum(c byte) bool {
	return c >= 'a' && c <= 'z' || c >= 'A' && c <= 'Z' || c >= '0' && c <= '9'
}

func isSpace(c byte) bool { return c == ' ' || c == '\t' || c == '\n' || c == '\r' || c == '\f' }

var rawTextTags = map[string]bool{"script": true, "style": true, "textarea": true, "title": true, "xmp": true, "iframe": true, "noembed": true, "noframes": true, "plaintext": true}

// TokenizeHTML splits a page into tokens following the HTML tokenizer states.
func TokenizeHTML(src string) []HTMLToken {
	var out []HTMLToken
	i := 0
	n := len(src)
	textStart := 0
	flushText := func(end int) {
		if end > textStart {
			raw := src[textStart:end]
			out = append(out, HTMLToken{Kind: "text", Data: DecodeRefs(raw, false), Raw: raw})
		}
	}
	for i < n {
		if src[i] != '<' {
			i++
			continue
		}
		// tag open state
		if i+1 >= n {
			i++
			continue
		}
		c := src[i+1]
		switch {
		case c == '!':
			flushText(i)
			if strings.HasPrefix(src[i:], "<!--") {
				end := strings.Index(src[i+4:], "-->")
				if end < 0 {
					out = append(out, HTMLToken{Kind: "comment", Data: src[i+4:], Raw: src[i:]})
					i = n
				} else {
					out = append(out, HTMLToken{Kind: "comment", Data: src[i+4 : i+4+end], Raw: src[i : i+4+end+3]})
					i = i + 4 + end + 3
				}
			} else {
				end := strings.IndexByte(src[i:], '>')
				if end < 0 {
					out = append(out, HTMLToken{Kind: "doctype", Data: src[i+2:], Raw: src[i:]})
					i = n
				} else {
					out = append(out, HTMLToken{Kind: "doctype", Data: src[i+2 : i+end], Raw: src[i : i+end+1]})
					i += end + 1
				}
			}
			textStart = i
		case c == '?':
			flushText(i)
			end := strings.IndexByte(src[i:], '>')
			if end < 0 {
				out = append(out, HTMLToken{Kind: "comment", Data: src[i+1:], Raw: src[i:]})
				i = n
			} else {
				out = append(out, HTMLToken{Kind: "comment", Data: src[i+1 : i+end], Raw: src[i : i+end+1]})
				i += end + 1
			}
			textStart = i
		case c == '/':
			if i+2 < n && isAlpha(src[i+2]) {
				flushText(i)
				j := i + 2
				for j < n && !isSpace(src[j]) && src[j] != '>' && src[j] != '/' {
					j++
				}
				name := strings.ToLower(src[i+2 : j])
				for j < n && src[j] != '>' {
					j++
				}
				if j < n {
					j++
				}
				out = append(out, HTMLToken{Kind: "end", Name: name, Raw: src[i:j]})
				i = j
				textStart = i
			} else {
				i++
			}
		case isAlpha(c):
			flushText(i)
			tok, j := parseStartTag(src, i)
			out = append(out, tok)
			i = j
			textStart = i
			if rawTextTags[tok.Name] && !tok.Self {
				// raw text until the matching end tag
				lower := strings.ToLower(src[i:])
				end := strings.Index(lower, "</"+tok.Name)
				if end < 0 {
					end = len(lower)
				}
				if end > 0 {
					out = append(out, HTMLToken{Kind: "text", Data: src[i : i+end], Raw: src[i : i+end]})
				}
				i += end
				textStart = i
			}
		default:
			i++
		}
	}
	flushText(n)
	return out
}

func isAlpha(c byte) bool { return c >= 'a' && c <= 'z' || c >= 'A' && c <= 'Z' }

func parseStartTag(src string, i int) (HTMLToken, int) {
	n := len(src)
	j := i + 1
	for j < n && !isSpace(src[j]) && src[j] != '>' && src[j] != '/' {
		j++
	}
	tok := HTMLToken{Kind: "start", Name: strings.ToLower(src[i+1 : j])}
	for j < n {
		// before attribute name
		for j < n && (isSpace(src[j]) || src[j] == '/') {
			if src[j] == '/' && j+1 < n && src[j+1] == '>' {
				tok.Self = true
			}
			j++
		}
		if j >= n {
			break
		}
		if src[j] == '>' {
			j++
			tok.Raw = src[i:j]
			return tok, j
		}
		// attribute name
		st := j
		if src[j] == '=' {
			j++
		}
		for j < n && !isSpace(src[j]) && src[j] != '/' && src[j] != '>' && src[j] != '=' {
			j++
		}
		a := HTMLAttr{Name: strings.ToLower(src[st:j])}
		for j < n && isSpace(src[j]) {
			j++
		}
		if j < n && src[j] == '=' {
			j++
			for j < n && isSpace(src[j]) {
				j++
			}
			if j < n && (src[j] == '"' || src[j] == '\'') {
				qc := src[j]
				a.Quote = qc
				j++
				vs := j
				for j < n && src[j] != qc {
					j++
				}
				a.Raw = src[vs:j]
				if j < n {
					j++
				}
			} else {
				vs := j
				for j < n && !isSpace(src[j]) && src[j] != '>' {
					j++
				}
				a.Raw = src[vs:j]
			}
			a.Value = DecodeRefs(a.Raw, true)
		}
		tok.Attrs = append(tok.Attrs, a)
	}
	tok.Raw = src[i:]
	return tok, n
}

// Skeleton is the page with the values of the dynamic attributes removed:
// token kinds, tag names, attribute names, static attribute values, static text.
func Skeleton(toks []HTMLToken, dynamic func(tag string, attr string, t *HTMLToken) bool) string {
	var b strings.Builder
	for i := range toks {
		t := &toks[i]
		switch t.Kind {
		case "text":
			b.WriteString("T[" + t.Data + "]")
		case "comment":
			b.WriteString("C[" + t.Data + "]")
		case "doctype":
			b.WriteString("D[" + t.Data + "]")
		case "end":
			b.WriteString("E[" + t.Name + "]")
		case "start":
			b.WriteString("S[" + t.Name)
			for _, a := range t.Attrs {
				b.WriteString(" " + a.Name + "=")
				if dynamic(t.Name, a.Name, t) {
					b.WriteString("<dyn>")
				} else {
					b.WriteString(strconv.Quote(a.Value))
				}
			}
			if t.Self {
				b.WriteString(" /")
			}
			b.WriteString("]")
		}
	}
	return b.String()
}

// ValidUTF8OrReplace mirrors what an HTML parser does with invalid UTF-8:
// every maximal invalid subsequence becomes U+FFFD.
func ValidUTF8OrReplace(s string) string {
	if utf8.ValidString(s) {
		return s
	}
	return strings.ToValidUTF8(s, "�")
}
