// Package reply captures and decodes what a handler wrote: plain HTTP error,
// SAML message in the body, auto-submit form, redirect, SOAP envelope.
package reply

import (
	"bytes"
	"compress/flate"
	"encoding/base64"
	"fmt"
	"io"
	"net/http"
	"strings"

	"github.com/beevik/etree"
)

// Recorder is an http.ResponseWriter that records every call.
type Recorder struct {
	Hdr          http.Header
	Status       int
	HeaderCalls  int
	Writes       int
	Body         bytes.Buffer
	HeaderAtSend http.Header
	FailAfter    int    // > 0: Write fails once this many bytes have been accepted (a broken connection)
	OnWrite      func() // called at the start of every Write (a slow connection: the writer blocks)
	Failed       bool
}

var errBrokenPipe = fmt.Errorf("write: broken pipe (injected)")

func NewRecorder() *Recorder { return &Recorder{Hdr: http.Header{}} }

func (r *Recorder) Header() http.Header { return r.Hdr }
func (r *Recorder) WriteHeader(code int) {
	// net/http's own writers refuse codes outside 100..999 by panicking (checkWriteHeaderCode)
	if code < 100 || code > 999 {
		panic(fmt.Sprintf("invalid WriteHeader code %v", code))
	}
	r.HeaderCalls++
	if r.Status == 0 {
		r.Status = code
		r.HeaderAtSend = r.Hdr.Clone()
	}
}
func (r *Recorder) Write(b []byte) (int, error) {
	if r.Status == 0 {
		r.Status = 200
		r.HeaderAtSend = r.Hdr.Clone()
	}
	r.Writes++
	if r.OnWrite != nil {
		r.OnWrite()
	}
	if r.FailAfter > 0 && r.Body.Len()+len(b) > r.FailAfter {
		n := r.FailAfter - r.Body.Len()
		if n < 0 {
			n = 0
		}
		r.Body.Write(b[:n])
		r.Failed = true
		return n, errBrokenPipe
	}
	return r.Body.Write(b)
}

// Attribute of an assertion.
type Attribute struct {
	Name, NameFormat, FriendlyName string
	Values                         []string
}

// Message is the field view of a SAML Response / LogoutResponse.
type Message struct {
	Root          string // local name of the root element
	RootNS        string
	ID            string
	InResponseTo  string
	HasInResponse bool
	Destination   string
	HasDest       bool
	IssueInstant  string
	Version       string
	Issuer        string
	StatusCode    string
	StatusMessage string
	// assertion
	HasAssertion     bool
	AssertionID      string
	AssertionIssuer  string
	AssertionInst    string
	NameID           string
	HasNameID        bool
	NameIDFormat     string
	SCInResponseTo   string
	SCRecipient      string
	HasSCRecipient   bool
	SCNotOnOrAfter   string
	SCMethod         string
	CondNotBefore    string
	CondNotOnOrAfter string
	Audiences        []string
	Attributes       []Attribute
	AttrValueCount   int
	AuthnInstant     string
	SessionIndex     string
	SignatureCount   int // number of ds:Signature elements anywhere
	AssertionSigned  bool
	AllIDs           []string
}

// Decoded is a fully decoded reply.
type Decoded struct {
	Status      int
	Header      http.Header
	Body        []byte
	HeaderCalls int
	Writes      int

	Kind string // http-error | xml-body | soap | form | redirect | empty | other

	// delivery
	Target      string            // form action (attribute value, character references decoded) / Location up to '?'
	Location    string            // full Location header
	RawQuery    string            // redirect: raw query string
	Params      map[string]string // redirect: percent-decoded parameters (first occurrence)
	RawParams   map[string]string // redirect: raw (still encoded) parameter values
	ParamOrder  []string
	RelayState  string
	HasRelay    bool
	SAMLB64     string // base64 text of the SAML message (form field / redirect parameter)
	Sig, SigAlg string

	// page
	Tokens []HTMLToken
	Forms  int

	XML     []byte // the SAML message bytes (for soap: the whole envelope)
	Doc     *etree.Document
	MsgEl   *etree.Element // Response / LogoutResponse element
	Msg     *Message
	XMLDocs int // number of XML declarations found in the body (concatenation detector)
	Err     string
}

func pctDecode(s string) (string, error) {
	var b strings.Builder
	for i := 0; i < len(s); i++ {
		switch s[i] {
		case '+':
			b.WriteByte(' ')
		case '%':
			if i+2 >= len(s) {
				return "", fmt.Errorf("truncated escape")
			}
			h, ok1 := unhex(s[i+1])
			l, ok2 := unhex(s[i+2])
			if !ok1 || !ok2 {
				return "", fmt.Errorf("bad escape")
			}
			b.WriteByte(h<<4 | l)
			i += 2
		default:
			b.WriteByte(s[i])
		}
	}
	return b.String(), nil
}

// PctDecode is the percent-decoder used on raw query strings (own code).
func PctDecode(s string) (string, error) { return pctDecode(s) }

func unhex(c byte) (byte, bool) {
	switch {
	case c >= '0' && c <= '9':
		return c - '0', true
	case c >= 'a' && c <= 'f':
		return c - 'a' + 10, true
	case c >= 'A' && c <= 'F':
		return c - 'A' + 10, true
	}
	return 0, false
}

// Inflate inflates raw DEFLATE data with a hard cap.
func Inflate(b []byte) ([]byte, error) {
	r := flate.NewReader(bytes.NewReader(b))
	defer r.Close()
	return io.ReadAll(io.LimitReader(r, 64<<20))
}

// Decode classifies and decodes a recorded reply.
func Decode(rec *Recorder) *Decoded {
	d := &Decoded{Status: rec.Status, Header: rec.Hdr, Body: rec.Body.Bytes(), HeaderCalls: rec.HeaderCalls, Writes: rec.Writes,
		Params: map[string]string{}, RawParams: map[string]string{}}
	if d.Status == 0 {
		d.Status = 200
	}
	body := string(d.Body)
	d.XMLDocs = strings.Count(body, "<?xml")
	loc := rec.Hdr.Get("Location")
	switch {
	case loc != "":
		d.Kind = "redirect"
		d.Location = loc
		d.Target = loc
		// RFC 3986: the query starts at the first '?' and ends at '#'. The delivery
		// target is what precedes the first SAML parameter (the consumer URL may have
		// a query of its own, to which the parameters are appended).
		if i := strings.IndexByte(loc, '?'); i >= 0 {
			q := loc[i+1:]
			if h := strings.IndexByte(q, '#'); h >= 0 {
				q = q[:h]
			}
			d.RawQuery = q
			pos := i + 1
			for _, kv := range strings.Split(q, "&") {
				k := kv
				if e := strings.IndexByte(kv, '='); e >= 0 {
					k = kv[:e]
				}
				if k == "SAMLResponse" || k == "RelayState" || k == "SigAlg" || k == "Signature" || k == "SAMLRequest" {
					d.Target = loc[:pos-1]
					break
				}
				pos += len(kv) + 1
			}
		}
		for _, kv := range strings.Split(d.RawQuery, "&") {
			if kv == "" {
				continue
			}
			k, v := kv, ""
			if i := strings.IndexByte(kv, '='); i >= 0 {
				k, v = kv[:i], kv[i+1:]
			}
			dk, err := pctDecode(k)
			if err != nil {
				dk = k
			}
			if _, dup := d.RawParams[dk]; dup {
				continue
			}
			d.ParamOrder = append(d.ParamOrder, dk)
			d.RawParams[dk] = v
			dv, err := pctDecode(v)
			if err != nil {
				d.Err = "bad percent-encoding in parameter " + dk
				dv = v
			}
			d.Params[dk] = dv
		}
		if v, ok := d.Params["RelayState"]; ok {
			d.RelayState, d.HasRelay = v, true
		}
		d.Sig, d.SigAlg = d.Params["Signature"], d.Params["SigAlg"]
		if v, ok := d.Params["SAMLResponse"]; ok {
			d.SAMLB64 = v
			raw, err := base64.StdEncoding.DecodeString(v)
			if err != nil {
				d.Err = "SAMLResponse parameter is not base64: " + err.Error()
				break
			}
			x, err := Inflate(raw)
			if err != nil {
				d.Err = "SAMLResponse parameter does not inflate: " + err.Error()
				break
			}
			d.XML = x
		}
	case len(d.Body) == 0:
		d.Kind = "empty"
	case strings.Contains(strings.ToLower(body), "<form") || strings.Contains(strings.ToLower(body), "<html"):
		d.Kind = "form"
		d.Tokens = TokenizeHTML(body)
		inputs := map[string]string{}
		for i := range d.Tokens {
			t := &d.Tokens[i]
			if t.Kind != "start" {
				continue
			}
			switch t.Name {
			case "form":
				d.Forms++
				if d.Forms == 1 {
					d.Target, _ = t.Attr("action")
				}
			case "input":
				n, _ := t.Attr("name")
				v, _ := t.Attr("value")
				if _, dup := inputs[n]; !dup {
					inputs[n] = v
				}
			}
		}
		if v, ok := inputs["RelayState"]; ok {
			d.RelayState, d.HasRelay = v, true
		}
		if v, ok := inputs["SAMLResponse"]; ok {
			d.SAMLB64 = v
			x, err := base64.StdEncoding.DecodeString(v)
			if err != nil {
				d.Err = "SAMLResponse field is not base64: " + err.Error()
			} else {
				d.XML = x
			}
		}
	case strings.HasPrefix(strings.TrimLeft(body, " \r\n\t"), "<"):
		d.Kind = "xml-body"
		d.XML = d.Body
	default:
		if d.Status >= 400 {
			d.Kind = "http-error"
		} else {
			d.Kind = "other"
		}
	}
	if d.XML != nil {
		doc := etree.NewDocument()
		if err := doc.ReadFromBytes(d.XML); err != nil || doc.Root() == nil {
			if d.Kind == "xml-body" && d.Status >= 400 {
				d.Kind = "http-error"
			}
			d.Err = fmt.Sprintf("message is not parseable XML: %v", err)
			return d
		}
		d.Doc = doc
		root := doc.Root()
		if root.Tag == "Envelope" {
			d.Kind = "soap"
			if b := root.FindElement("./Body"); b != nil {
				for _, c := range b.ChildElements() {
					d.MsgEl = c
					break
				}
			}
		} else {
			d.MsgEl = root
		}
		if d.MsgEl != nil {
			d.Msg = Extract(d.MsgEl)
		}
	}
	return d
}

func attr(e *etree.Element, name string) (string, bool) {
	for _, a := range e.Attr {
		if a.Space == "" && a.Key == name {
			return a.Value, true
		}
	}
	return "", false
}

func child(e *etree.Element, tag string) *etree.Element {
	if e == nil {
		return nil
	}
	for _, c := range e.ChildElements() {
		if c.Tag == tag {
			return c
		}
	}
	return nil
}

// Extract reads the fields of a Response / LogoutResponse element.
func Extract(el *etree.Element) *Message {
	m := &Message{Root: el.Tag, RootNS: el.NamespaceURI()}
	m.ID, _ = attr(el, "ID")
	m.InResponseTo, m.HasInResponse = attr(el, "InResponseTo")
	m.Destination, m.HasDest = attr(el, "Destination")
	m.IssueInstant, _ = attr(el, "IssueInstant")
	m.Version, _ = attr(el, "Version")
	if i := child(el, "Issuer"); i != nil {
		m.Issuer = i.Text()
	}
	if s := child(el, "Status"); s != nil {
		if c := child(s, "StatusCode"); c != nil {
			m.StatusCode, _ = attr(c, "Value")
		}
		if c := child(s, "StatusMessage"); c != nil {
			m.StatusMessage = c.Text()
		}
	}
	var walk func(e *etree.Element)
	walk = func(e *etree.Element) {
		if e.Tag == "Signature" {
			m.SignatureCount++
		}
		if v, ok := attr(e, "ID"); ok {
			m.AllIDs = append(m.AllIDs, v)
		}
		for _, c := range e.ChildElements() {
			walk(c)
		}
	}
	walk(el)
	if a := child(el, "Assertion"); a != nil {
		m.HasAssertion = true
		m.AssertionID, _ = attr(a, "ID")
		m.AssertionInst, _ = attr(a, "IssueInstant")
		if i := child(a, "Issuer"); i != nil {
			m.AssertionIssuer = i.Text()
		}
		m.AssertionSigned = child(a, "Signature") != nil
		if s := child(a, "Subject"); s != nil {
			if n := child(s, "NameID"); n != nil {
				m.HasNameID = true
				m.NameID = n.Text()
				m.NameIDFormat, _ = attr(n, "Format")
			}
			if sc := child(s, "SubjectConfirmation"); sc != nil {
				m.SCMethod, _ = attr(sc, "Method")
				if scd := child(sc, "SubjectConfirmationData"); scd != nil {
					m.SCInResponseTo, _ = attr(scd, "InResponseTo")
					m.SCRecipient, m.HasSCRecipient = attr(scd, "Recipient")
					m.SCNotOnOrAfter, _ = attr(scd, "NotOnOrAfter")
				}
			}
		}
		if c := child(a, "Conditions"); c != nil {
			m.CondNotBefore, _ = attr(c, "NotBefore")
			m.CondNotOnOrAfter, _ = attr(c, "NotOnOrAfter")
			for _, ar := range c.ChildElements() {
				if ar.Tag == "AudienceRestriction" {
					for _, au := range ar.ChildElements() {
						m.Audiences = append(m.Audiences, au.Text())
					}
				}
			}
		}
		for _, as := range a.ChildElements() {
			switch as.Tag {
			case "AttributeStatement":
				for _, at := range as.ChildElements() {
					if at.Tag != "Attribute" {
						continue
					}
					x := Attribute{}
					x.Name, _ = attr(at, "Name")
					x.NameFormat, _ = attr(at, "NameFormat")
					x.FriendlyName, _ = attr(at, "FriendlyName")
					for _, v := range at.ChildElements() {
						x.Values = append(x.Values, v.Text())
						m.AttrValueCount++
					}
					m.Attributes = append(m.Attributes, x)
				}
			case "AuthnStatement":
				m.AuthnInstant, _ = attr(as, "AuthnInstant")
				m.SessionIndex, _ = attr(as, "SessionIndex")
			}
		}
	}
	return m
}

// FullText returns everything a reader of the reply could see, fully decoded:
// headers, body, decoded form fields, redirect parameters, the decoded message.
// Encoded blobs (the base64 message field / parameter, the Location that embeds
// it) are left out in favour of their decoded content, so that a substring
// search is not confused by base64 noise.
func (d *Decoded) FullText() string {
	var b strings.Builder
	for k, vs := range d.Header {
		if k == "Location" && d.Kind == "redirect" {
			continue
		}
		for _, v := range vs {
			b.WriteString(k + ": " + v + "\n")
		}
	}
	switch d.Kind {
	case "form":
		for i := range d.Tokens {
			t := &d.Tokens[i]
			if t.Kind == "text" || t.Kind == "comment" {
				b.WriteString(t.Data + "\n")
			}
			if t.Kind == "start" {
				n, _ := t.Attr("name")
				for _, a := range t.Attrs {
					if t.Name == "input" && n == "SAMLResponse" && a.Name == "value" {
						continue
					}
					b.WriteString(a.Value + "\n")
				}
			}
		}
	case "redirect":
	default:
		b.Write(d.Body)
	}
	b.WriteString("\n")
	b.WriteString(d.RelayState)
	b.WriteString("\n")
	b.WriteString(d.Target)
	b.WriteString("\n")
	for k, v := range d.Params {
		if k == "SAMLResponse" || k == "Signature" {
			continue
		}
		b.WriteString(v + "\n")
	}
	b.Write(d.XML)
	return b.String()
}

// Success reports whether the decoded message has the Success status code.
func (d *Decoded) Success() bool {
	return d.Msg != nil && d.Msg.StatusCode == "urn:oasis:names:tc:SAML:2.0:status:Success"
}

// AllMessages decodes every SAML message a reply carries: a page may hold several forms (or several hidden
// SAMLResponse fields), a body several XML documents. The first element is what Decode returns.
func AllMessages(rec *Recorder) []*Decoded {
	d := Decode(rec)
	out := []*Decoded{d}
	sub := func(body string) *Decoded {
		r := NewRecorder()
		r.Status = rec.Status
		_, _ = r.Write([]byte(body))
		return Decode(r)
	}
	switch d.Kind {
	case "form":
		n := 0
		for i := range d.Tokens {
			t := &d.Tokens[i]
			if t.Kind != "start" || t.Name != "input" {
				continue
			}
			if name, _ := t.Attr("name"); name != "SAMLResponse" {
				continue
			}
			n++
			if n == 1 {
				continue
			}
			v, _ := t.Attr("value")
			if _, err := base64.StdEncoding.DecodeString(v); err == nil {
				out = append(out, sub(`<html><form method="post" action="#"><input type="hidden" name="SAMLResponse" value="`+v+`"/></form></html>`))
			}
		}
	case "xml-body", "http-error", "other":
		parts := strings.Split(string(d.Body), "<?xml")
		for i, p := range parts {
			if i >= 2 && strings.TrimSpace(p) != "" {
				out = append(out, sub("<?xml"+p))
			}
		}
	}
	return out
}
