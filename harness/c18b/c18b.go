// Package c18b is monitor B of property C18 (messages built by the harness and passed through the
// exported marshallers). It is compiled into its own helper binary because it names many struct types
// of the library's XML model: when one of them changes its shape only this helper stops compiling.
package c18b

import (
	"fmt"
	"math/rand"
	"net/http/httptest"
	"strings"

	samlxml "github.com/zitadel/saml/pkg/provider/xml"
	"github.com/zitadel/saml/pkg/provider/xml/md"
	"github.com/zitadel/saml/pkg/provider/xml/saml"
	"github.com/zitadel/saml/pkg/provider/xml/samlp"
	"github.com/zitadel/saml/pkg/provider/xml/soap"

	"verif/harness/core"
	"verif/harness/props"
	"verif/harness/spsim"
	"verif/harness/verify"
)

var (
	anyString      = props.AnyString
	replaceIllegal = props.ReplaceIllegal
	pySkeleton     = props.PySkeleton
	diffAt         = props.DiffAt
	clipS          = props.ClipS
	equalStrings   = props.EqualStrings
)

const basicFormat = props.BasicFormat

// c18Values is the list of (path, value) the harness put into a message.
type c18Field struct {
	Path string // "local[/local]@attr" or "local[/local]#text" addressing the k-th occurrence
	Val  string
}

// lookup finds the value at a simple path in an expat dump: elements by local name chain (first match, depth first).
func pyLookup(nodes []verify.PyNode, path string) (string, bool) {
	attr := ""
	text := false
	if i := strings.IndexByte(path, '@'); i >= 0 {
		path, attr = path[:i], path[i+1:]
	} else if strings.HasSuffix(path, "#text") {
		path, text = strings.TrimSuffix(path, "#text"), true
	}
	want := strings.Split(path, "/")
	var stack []string
	for _, n := range nodes {
		if n.Depth < len(stack) {
			stack = stack[:n.Depth]
		}
		stack = append(stack, n.Local)
		if len(stack) >= len(want) && equalStrings(stack[len(stack)-len(want):], want) {
			if text {
				return n.Text, true
			}
			v, ok := n.Attrs[attr]
			return v, ok
		}
	}
	return "", false
}

type c18Msg struct {
	Kind   string
	Build  func(s func(string) string) any // s maps a field label to its string
	Fields []string                        // labels
	Paths  map[string]string               // label -> expat path
	Decode func(x []byte) (map[string]string, error)
}

func c18Messages() []c18Msg {
	respFields := []string{"id", "irt", "dest", "issuer", "status", "msg", "aid", "nameid", "audience", "attrname", "attrfriendly", "attrval1", "attrval2", "recipient"}
	buildResp := func(s func(string) string) *samlp.ResponseType {
		return &samlp.ResponseType{
			Id: s("id"), InResponseTo: s("irt"), Version: "2.0", IssueInstant: "2026-01-01T00:00:00Z", Destination: s("dest"),
			Issuer: &saml.NameIDType{Text: s("issuer")},
			Status: samlp.StatusType{StatusCode: samlp.StatusCodeType{Value: s("status")}, StatusMessage: s("msg")},
			Assertion: saml.AssertionType{Version: "2.0", Id: s("aid"), IssueInstant: "2026-01-01T00:00:00Z", Issuer: saml.NameIDType{Text: s("issuer")},
				Subject: &saml.SubjectType{NameID: &saml.NameIDType{Text: s("nameid")}, SubjectConfirmation: []saml.SubjectConfirmationType{{Method: "urn:oasis:names:tc:SAML:2.0:cm:bearer",
					SubjectConfirmationData: &saml.SubjectConfirmationDataType{InResponseTo: s("irt"), Recipient: s("recipient")}}}},
				Conditions:         &saml.ConditionsType{AudienceRestriction: []saml.AudienceRestrictionType{{Audience: []string{s("audience")}}}},
				AttributeStatement: []saml.AttributeStatementType{{Attribute: []*saml.AttributeType{{Name: s("attrname"), FriendlyName: s("attrfriendly"), NameFormat: basicFormat, AttributeValue: []string{s("attrval1"), s("attrval2")}}}}},
			},
		}
	}
	respPaths := map[string]string{"id": "Response@ID", "irt": "Response@InResponseTo", "dest": "Response@Destination", "issuer": "Response/Issuer#text", "status": "Status/StatusCode@Value",
		"msg": "Status/StatusMessage#text", "aid": "Assertion@ID", "nameid": "Subject/NameID#text", "audience": "AudienceRestriction/Audience#text", "attrname": "Attribute@Name",
		"attrfriendly": "Attribute@FriendlyName", "attrval1": "Attribute/AttributeValue#text", "recipient": "SubjectConfirmationData@Recipient"}
	decodeResp := func(x []byte) (map[string]string, error) {
		m, err := samlxml.DecodeResponse("", false, string(x))
		if err != nil {
			return nil, err
		}
		out := map[string]string{"id": m.Id, "irt": m.InResponseTo, "dest": m.Destination, "status": m.Status.StatusCode.Value, "msg": m.Status.StatusMessage, "aid": m.Assertion.Id}
		if m.Issuer != nil {
			out["issuer"] = m.Issuer.Text
		}
		if m.Assertion.Subject != nil && m.Assertion.Subject.NameID != nil {
			out["nameid"] = m.Assertion.Subject.NameID.Text
			if len(m.Assertion.Subject.SubjectConfirmation) > 0 && m.Assertion.Subject.SubjectConfirmation[0].SubjectConfirmationData != nil {
				out["recipient"] = m.Assertion.Subject.SubjectConfirmation[0].SubjectConfirmationData.Recipient
			}
		}
		if c := m.Assertion.Conditions; c != nil && len(c.AudienceRestriction) > 0 && len(c.AudienceRestriction[0].Audience) > 0 {
			out["audience"] = c.AudienceRestriction[0].Audience[0]
		}
		if as := m.Assertion.AttributeStatement; len(as) > 0 && len(as[0].Attribute) > 0 {
			a := as[0].Attribute[0]
			out["attrname"], out["attrfriendly"] = a.Name, a.FriendlyName
			if len(a.AttributeValue) == 2 {
				out["attrval1"], out["attrval2"] = a.AttributeValue[0], a.AttributeValue[1]
			}
		}
		return out, nil
	}
	return []c18Msg{
		{Kind: "Response", Fields: respFields, Paths: respPaths, Build: func(s func(string) string) any { return buildResp(s) }, Decode: decodeResp},
		{Kind: "SOAP", Fields: respFields, Paths: respPaths, Build: func(s func(string) string) any {
			return &soap.ResponseEnvelope{Body: soap.ResponseBody{Response: buildResp(s)}}
		}},
		{Kind: "LogoutResponse", Fields: []string{"id", "irt", "dest", "issuer", "status", "msg"},
			Paths: map[string]string{"id": "LogoutResponse@ID", "irt": "LogoutResponse@InResponseTo", "dest": "LogoutResponse@Destination", "issuer": "LogoutResponse/Issuer#text", "status": "Status/StatusCode@Value", "msg": "Status/StatusMessage#text"},
			Build: func(s func(string) string) any {
				return &samlp.LogoutResponseType{Id: s("id"), InResponseTo: s("irt"), Version: "2.0", IssueInstant: "2026-01-01T00:00:00Z", Destination: s("dest"), Issuer: &saml.NameIDType{Text: s("issuer")},
					Status: samlp.StatusType{StatusCode: samlp.StatusCodeType{Value: s("status")}, StatusMessage: s("msg")}}
			}},
		{Kind: "EntityDescriptor", Fields: []string{"entity", "id", "org", "display", "orgurl", "company", "given", "sur", "mail", "phone", "loc"},
			Paths: map[string]string{"entity": "EntityDescriptor@entityID", "id": "EntityDescriptor@ID", "org": "Organization/OrganizationName#text", "display": "Organization/OrganizationDisplayName#text",
				"orgurl": "Organization/OrganizationURL#text", "company": "ContactPerson/Company#text", "given": "ContactPerson/GivenName#text", "sur": "ContactPerson/SurName#text",
				"mail": "ContactPerson/EmailAddress#text", "phone": "ContactPerson/TelephoneNumber#text", "loc": "SingleSignOnService@Location"},
			Build: func(s func(string) string) any {
				org := &md.OrganizationType{OrganizationName: []md.LocalizedNameType{{Text: s("org")}}, OrganizationDisplayName: []md.LocalizedNameType{{Text: s("display")}}, OrganizationURL: []md.LocalizedURIType{{Text: s("orgurl")}}}
				cp := []md.ContactType{{ContactType: "technical", Company: s("company"), GivenName: s("given"), SurName: s("sur"), EmailAddress: []string{s("mail")}, TelephoneNumber: []string{s("phone")}}}
				return &md.EntityDescriptorType{EntityID: md.EntityIDType(s("entity")), Id: s("id"),
					IDPSSODescriptor: &md.IDPSSODescriptorType{ProtocolSupportEnumeration: spsim.NSP, Organization: org, ContactPerson: cp,
						SingleSignOnService: []md.EndpointType{{Binding: spsim.BindPost, Location: s("loc")}}}}
			},
			Decode: func(x []byte) (map[string]string, error) {
				m, err := samlxml.ParseMetadataXmlIntoStruct(x)
				if err != nil {
					return nil, err
				}
				out := map[string]string{"entity": string(m.EntityID), "id": m.Id}
				if d := m.IDPSSODescriptor; d != nil {
					if o := d.Organization; o != nil && len(o.OrganizationName) > 0 && len(o.OrganizationDisplayName) > 0 && len(o.OrganizationURL) > 0 {
						out["org"], out["display"], out["orgurl"] = o.OrganizationName[0].Text, o.OrganizationDisplayName[0].Text, o.OrganizationURL[0].Text
					}
					if len(d.ContactPerson) > 0 {
						c := d.ContactPerson[0]
						out["company"], out["given"], out["sur"] = c.Company, c.GivenName, c.SurName
						if len(c.EmailAddress) > 0 && len(c.TelephoneNumber) > 0 {
							out["mail"], out["phone"] = c.EmailAddress[0], c.TelephoneNumber[0]
						}
					}
					if len(d.SingleSignOnService) > 0 {
						out["loc"] = d.SingleSignOnService[0].Location
					}
				}
				return out, nil
			}},
	}
}

func c18Marshal(kind string, v any, viaWriter bool) ([]byte, error) {
	if viaWriter || kind == "SOAP" {
		rec := httptest.NewRecorder()
		if err := samlxml.WriteXMLMarshalled(rec, v); err != nil {
			return nil, err
		}
		return rec.Body.Bytes(), nil
	}
	return samlxml.Marshal(v)
}

// Built runs case idx of the built-message workload.
func Built(r *core.Run, idx int, rng *rand.Rand) {
	const wl = "built_messages"
	msgs := c18Messages()
	m := msgs[idx%len(msgs)]
	viaWriter := rng.Intn(2) == 0
	neutral := func(l string) string { return "neutral" + l }
	nb, err := c18Marshal(m.Kind, m.Build(neutral), viaWriter)
	if err != nil {
		r.Inconclusive("neutral message does not marshal: " + err.Error())
		return
	}
	okN, _, nNodes, oerr := verify.PyWF(nb, true)
	if oerr != nil || !okN {
		r.Inconclusive(fmt.Sprintf("neutral message not parseable by expat (%v)", oerr))
		return
	}
	skel := pySkeleton(nNodes)
	for k := 0; k < 8; k++ {
		legal := rng.Intn(2) == 0
		vals := map[string]string{}
		for _, f := range m.Fields {
			vals[f] = anyString(rng, legal)
		}
		class := fmt.Sprintf("%s|legal=%v|writer=%v", m.Kind, legal, viaWriter)
		desc := map[string]any{"kind": m.Kind, "values": vals}
		viol := func(clause, reason string) {
			r.Violate(core.Violation{Clause: clause, Class: class, Reason: reason, Workload: wl, Index: idx, Case: desc})
		}
		x, err := c18Marshal(m.Kind, m.Build(func(l string) string { return vals[l] }), viaWriter)
		r.Eval(class + core.Hex(fmt.Sprint(vals)))
		r.Count("messages_built", 1)
		if err != nil {
			// refusing to serialise is not restructuring; only legal values must serialise
			if legal {
				viol("marshal_error", err.Error())
			}
			continue
		}
		ok, perr, nodes, oerr := verify.PyWF(x, true)
		if oerr != nil {
			r.Inconclusive("python oracle unavailable: " + oerr.Error())
			return
		}
		if !ok {
			viol("not_wellformed", "expat: "+perr+" in "+clipS(string(x), 600))
			continue
		}
		if strings.Count(string(x), "<?xml") != 1 {
			viol("not_single_document", "number of XML declarations != 1")
		}
		if got := pySkeleton(nodes); got != skel {
			viol("structure_changed_by_data", "element / attribute structure differs from the neutral rendering: "+clipS(diffAt(skel, got), 500))
			continue
		}
		r.Count("structure_preserved", 1)
		for f, p := range m.Paths {
			got, found := pyLookup(nodes, p)
			want := vals[f]
			if !found {
				viol("value_lost", fmt.Sprintf("field %s (%s) not found by expat", f, p))
				continue
			}
			if legal {
				if got != want {
					viol("value_changed", fmt.Sprintf("field %s: expat reads %q, put in %q", f, clipS(got, 200), clipS(want, 200)))
				}
			} else if replaceIllegal(got) != replaceIllegal(want) {
				viol("value_changed_beyond_replacement", fmt.Sprintf("field %s: expat reads %q, put in %q", f, clipS(got, 200), clipS(want, 200)))
			}
		}
		if m.Decode != nil {
			dec, err := m.Decode(x)
			if err != nil {
				viol("library_decode_error", err.Error())
				continue
			}
			for f, got := range dec {
				want := vals[f]
				if legal && got != want {
					viol("library_value_changed", fmt.Sprintf("field %s: library decoder reads %q, put in %q", f, clipS(got, 200), clipS(want, 200)))
				} else if !legal && replaceIllegal(got) != replaceIllegal(want) {
					viol("library_value_changed_beyond_replacement", fmt.Sprintf("field %s: library decoder reads %q, put in %q", f, clipS(got, 200), clipS(want, 200)))
				}
			}
			r.Count("library_round_trips", 1)
		}
		if legal {
			r.Count("legal_value_round_trips", 1)
		}
		if idx < 4 && k == 0 {
			r.Sample("built_message", map[string]any{"kind": m.Kind, "legal": legal, "bytes": clipS(string(x), 700)})
		}
	}
}
