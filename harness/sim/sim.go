// Package sim is the simulated world behind the provider.Storage interface:
// service providers, stored requests, users, keys — with an event log of every
// storage call, fault plans and delay plans.
package sim

import (
	"context"
	"crypto/rsa"
	"errors"
	"fmt"
	"strings"
	"sync"
	"sync/atomic"
	"time"

	"github.com/zitadel/saml/pkg/provider"
	"github.com/zitadel/saml/pkg/provider/key"
	"github.com/zitadel/saml/pkg/provider/models"
	"github.com/zitadel/saml/pkg/provider/serviceprovider"
	"github.com/zitadel/saml/pkg/provider/xml/samlp"

	"verif/harness/keys"
)

type tagKeyT struct{}

var tagKey tagKeyT

// WithTag attaches the per-HTTP-request tag to a context.
func WithTag(ctx context.Context, tag string) context.Context {
	return context.WithValue(ctx, tagKey, tag)
}

func TagOf(ctx context.Context) string {
	if ctx == nil {
		return ""
	}
	s, _ := ctx.Value(tagKey).(string)
	return s
}

// Event is one storage call.
type Event struct {
	Seq  int64    `json:"seq"`
	Tag  string   `json:"tag"`
	Op   string   `json:"op"`
	Args []string `json:"args,omitempty"`
	Res  string   `json:"res,omitempty"`
	Err  bool     `json:"err,omitempty"`
	// CreateAuthRequest only: snapshot of the persisted request.
	Req *ReqSnapshot `json:"req,omitempty"`
}

// ReqSnapshot is the content of an AuthnRequest as handed to CreateAuthRequest.
type ReqSnapshot struct {
	ID, Version, IssueInstant, Destination, Issuer, ACSURL, ACSIndex, ProtocolBinding string
	HasSignature                                                                      bool
	SignatureValue                                                                    string
	NotBefore, NotOnOrAfter                                                           string
	ForceAuthn, IsPassive, ProviderName, Consent, AttrIndex                           string
}

func Snapshot(r *samlp.AuthnRequestType) *ReqSnapshot {
	if r == nil {
		return nil
	}
	s := &ReqSnapshot{
		ID: r.Id, Version: r.Version, IssueInstant: r.IssueInstant, Destination: r.Destination,
		ACSURL: r.AssertionConsumerServiceURL, ACSIndex: r.AssertionConsumerServiceIndex,
		ProtocolBinding: r.ProtocolBinding, ForceAuthn: r.ForceAuthn, IsPassive: r.IsPassive,
		ProviderName: r.ProviderName, Consent: r.Consent, AttrIndex: r.AttributeConsumingServiceIndex,
	}
	if r.Issuer != nil {
		s.Issuer = r.Issuer.Text
	}
	if r.Signature != nil {
		s.HasSignature = true
		s.SignatureValue = r.Signature.SignatureValue.Text
	}
	if r.Conditions != nil {
		s.NotBefore, s.NotOnOrAfter = r.Conditions.NotBefore, r.Conditions.NotOnOrAfter
	}
	return s
}

// Fault kinds.
const (
	FaultError          = "error"
	FaultNilRecord      = "nil_record"
	FaultKeyNoCert      = "key_without_certificate"
	FaultCertNoKey      = "certificate_without_key"
	FaultEmptyCert      = "empty_certificate"
	FaultGarbageCert    = "garbage_certificate"       // unjudged stress kind
	FaultCtx            = "context_cancelled"         // the request's context was cancelled when the call was made
	FaultPartial        = "partial_then_error"        // user lookups: part of the record is delivered, then the call fails
	FaultTimeout        = "timeout_error"             // the call fails with a timeout-class error that wraps context.DeadlineExceeded
	FaultPoolClosed     = "pool_closed_error"         // the call fails with an error that wraps context.Canceled
	FaultNilNil         = "nil_without_error"         // lookups: no record and no error
	FaultTemporary      = "temporary_error"           // the call fails with a Temporary()/Timeout() error that wraps no context error
	FaultNoIdentifier   = "stored_without_identifier" // CreateAuthRequest: the record is written, no error, but the request handed back has no id
	FaultNilPtrError    = "nil_pointer_error"         // the error returned is a non-nil interface holding a nil pointer of the storage's own error type
	FaultRecordAndError = "record_and_error"          // lookups: a usable (possibly stale) record comes back together with an error
	FaultTypedNil       = "typed_nil_and_error"       // AuthRequestByID: a nil pointer inside the interface together with an error
	FaultErrTextWide    = "error_with_multibyte_text"    // the error text is 150 letters / 300 bytes of a non-Latin script (a localised database message)
	FaultErrTextVerbs   = "error_with_format_verbs"      // the error text quotes percent-encoded input: %2F %s %d %!
	FaultErrTextMarkup  = "error_with_markup_in_text"    // the error text quotes markup and control characters
	FaultPanicString    = "panics_with_a_string"      // the storage itself crashes: panic("...") / log.Panicf
	FaultPanicError     = "panics_with_an_error"      // the storage itself crashes: panic(err)
)

// PanicMarker is contained in the value of every panic the simulated storage raises.
const PanicMarker = "injected storage panic"

// IsInjectedPanic tells a crash of the simulated storage (which may end a request without a reply) from a crash of the
// code under test.
func IsInjectedPanic(text string) bool { return strings.Contains(text, PanicMarker) }

// FaultPlan decides whether the occ-th (1-based) call of op inside the request
// tagged tag fails, and how. "" = no fault.
type FaultPlan func(tag, op string, occ int) string

// Custom attribute of a user.
type Custom struct {
	Name, Friendly, Format string
	Values                 []string
}

type User struct {
	UserID, Username, Email, FullName, GivenName, Surname string
	Custom                                                []Custom
}

// AuthReq is a stored authentication request. The record is live: the views handed to the handlers read it at the
// moment of each accessor call, as with a storage that hands out the object the login UI works on.
type AuthReq struct {
	ID, AppID, RelayState, ACS, Binding, AuthRequestID, Issuer, Destination, UserID string
	done                                                                            atomic.Bool

	lmu   sync.Mutex
	live  string // the bound user once SwitchUser was used (UserID stays what it was at creation)
	reads int
	// AfterRead, when set, runs after the n-th (1-based) accessor call on this record has taken its value and before
	// that value is returned to the handler: the place where a login UI working on the same record gets its turn.
	AfterRead func(field string, n int) `json:"-"`
}

func (a *AuthReq) SetDone(b bool) { a.done.Store(b) }
func (a *AuthReq) IsDone() bool   { return a.done.Load() }

// SwitchUser binds the request to another user (account picker of the login UI).
func (a *AuthReq) SwitchUser(id string) {
	a.lmu.Lock()
	a.live = id
	a.lmu.Unlock()
}

// BoundUser is the user the record names now.
func (a *AuthReq) BoundUser() string {
	a.lmu.Lock()
	defer a.lmu.Unlock()
	if a.live != "" {
		return a.live
	}
	return a.UserID
}

func (a *AuthReq) read(field string) {
	a.lmu.Lock()
	a.reads++
	n, f := a.reads, a.AfterRead
	a.lmu.Unlock()
	if f != nil {
		f(field, n)
	}
}

// reqView is the per-lookup wrapper handed to the handler so that Done(),
// which has no context argument, is attributed to the calling request.
type reqView struct {
	w   *World
	tag string
	r   *AuthReq
}

func (v *reqView) GetID() string            { s := v.r.ID; v.r.read("ID"); return s }
func (v *reqView) GetApplicationID() string { s := v.r.AppID; v.r.read("ApplicationID"); return s }
func (v *reqView) GetRelayState() string    { s := v.r.RelayState; v.r.read("RelayState"); return s }
func (v *reqView) GetAccessConsumerServiceURL() string {
	s := v.r.ACS
	v.r.read("AccessConsumerServiceURL")
	return s
}
func (v *reqView) GetBindingType() string { s := v.r.Binding; v.r.read("BindingType"); return s }
func (v *reqView) GetAuthRequestID() string {
	s := v.r.AuthRequestID
	v.r.read("AuthRequestID")
	return s
}
func (v *reqView) GetIssuer() string      { s := v.r.Issuer; v.r.read("Issuer"); return s }
func (v *reqView) GetDestination() string { s := v.r.Destination; v.r.read("Destination"); return s }
func (v *reqView) GetUserID() string {
	s := v.r.BoundUser()
	v.r.read("UserID")
	return s
}
func (v *reqView) Done() bool {
	v.w.delay("Done")
	d := v.r.done.Load()
	v.w.log(Event{Tag: v.tag, Op: "Done", Args: []string{v.r.ID}, Res: fmt.Sprint(d)})
	v.r.read("Done")
	return d
}

var _ models.AuthRequestInt = (*reqView)(nil)

// World implements provider.Storage.
type World struct {
	mu       sync.Mutex
	sps      map[string]*serviceprovider.ServiceProvider // by entity id
	apps     map[string]string                           // app id -> entity id
	requests map[string]*AuthReq
	users    map[string]*User // by user id
	logins   map[string]*User // by login name
	pristine map[*User]User   // deep copy taken at registration (Mutated)
	events   []Event
	seq      atomic.Int64
	occ      map[string]int // tag|op -> count
	nextReq  atomic.Int64

	RespKey *key.CertificateAndKey
	MetaKey *key.CertificateAndKey
	CAKey   *key.CertificateAndKey

	Plan  FaultPlan
	Delay func(op string) // called inside every storage call (concurrency runs)
	// Before runs at the start of every storage call, before the fault plan is consulted: it may sleep, wait for
	// another request to reach a certain point (barriers) or cancel a context. occ is the 1-based occurrence of op
	// within the tagged request.
	Before func(ctx context.Context, tag, op string, occ int)
	// PartialDelay is slept between the partial fill and the error of a FaultPartial user lookup.
	PartialDelay time.Duration
	Lenient      bool // GetEntityByID matches ignoring case / surrounding blanks / trailing slash
	// NilForUnknown makes GetEntityByID answer (nil, nil) for an entity that is not registered, instead of an error.
	NilForUnknown bool
	// IgnoreCtx: the storage does not look at the request's context (a driver that finishes what it started).
	IgnoreCtx bool
	// Tenanted scopes service-provider lookups by the issuer found in the request context (multi-tenant
	// deployments register the same entity ID independently per virtual host).
	Tenanted bool
	// RespKeyFor, when set, selects the response signing key by the issuer found in the caller's context.
	RespKeyFor func(issuer string) *key.CertificateAndKey
	ReqTag     string // prefix of generated request ids
	NoLog      bool
	// UserFor names the user a freshly persisted request belongs to (nil = none).
	UserFor func(reqID, appID string) string
	// LoginURL builds the URL the browser is sent to after acceptance.
	LoginURL func(id string) string
}

func NewWorld() *World {
	w := &World{
		sps: map[string]*serviceprovider.ServiceProvider{}, apps: map[string]string{},
		requests: map[string]*AuthReq{}, users: map[string]*User{}, logins: map[string]*User{},
		occ: map[string]int{},
	}
	rp, mp := keys.Get("idp_resp"), keys.Get("idp_meta")
	w.RespKey = &key.CertificateAndKey{Certificate: rp.CertDER, Key: rp.RSA}
	w.MetaKey = &key.CertificateAndKey{Certificate: mp.CertDER, Key: mp.RSA}
	w.CAKey = w.MetaKey
	w.LoginURL = func(id string) string { return "https://login.idp.example/ui/login?authRequestID=" + id }
	return w
}

func (w *World) delay(op string) {
	if w.Delay != nil {
		w.Delay(op)
	}
}

func (w *World) log(e Event) int64 {
	e.Seq = w.seq.Add(1)
	if w.NoLog {
		return e.Seq
	}
	w.mu.Lock()
	w.events = append(w.events, e)
	w.mu.Unlock()
	return e.Seq
}

// Clock returns a fresh logical timestamp from the same counter the event log uses.
func (w *World) Clock() int64 { return w.seq.Add(1) }

// Events returns a copy of the log (optionally only one tag).
func (w *World) Events(tag string) []Event {
	w.mu.Lock()
	defer w.mu.Unlock()
	var out []Event
	for _, e := range w.events {
		if tag == "" || e.Tag == tag {
			out = append(out, e)
		}
	}
	return out
}

func (w *World) AllEvents() []Event {
	w.mu.Lock()
	defer w.mu.Unlock()
	return append([]Event(nil), w.events...)
}

func (w *World) ResetLog() {
	w.mu.Lock()
	w.events = nil
	w.occ = map[string]int{}
	w.mu.Unlock()
}

func (w *World) fault(ctx context.Context, op string) string {
	if w.Plan == nil && w.Before == nil {
		if ctx.Err() != nil && !w.IgnoreCtx {
			return FaultCtx
		}
		return ""
	}
	tag := TagOf(ctx)
	w.mu.Lock()
	w.occ[tag+"|"+op]++
	n := w.occ[tag+"|"+op]
	w.mu.Unlock()
	if w.Before != nil {
		w.Before(ctx, tag, op, n)
	}
	if ctx.Err() != nil && !w.IgnoreCtx {
		return FaultCtx // a real database client returns the context's error
	}
	if w.Plan == nil {
		return ""
	}
	return w.Plan(tag, op, n)
}

var ErrInjected = errors.New("injected storage fault")

// timeoutError is what a storage returns whose own call to the database ran into a deadline: a timeout-class error
// (net.Error style) that wraps context.DeadlineExceeded although the request's context is alive.
type timeoutError struct{}

func (timeoutError) Error() string   { return "injected storage fault: i/o timeout" }
func (timeoutError) Timeout() bool   { return true }
func (timeoutError) Temporary() bool { return true }
func (timeoutError) Unwrap() error   { return context.DeadlineExceeded }

// temporaryError is a net.OpError-like failure: Temporary() and Timeout() say yes, no context error is wrapped.
type temporaryError struct{}

func (temporaryError) Error() string {
	return "injected storage fault: dial tcp 192.0.2.7:5432: i/o timeout"
}
func (temporaryError) Timeout() bool   { return true }
func (temporaryError) Temporary() bool { return true }

// errFor returns the error a failing call reports for the given fault kind.
// ptrError is an error type with a pointer receiver that reads a field: calling Error() on a nil *ptrError
// dereferences nil (fmt recovers that and prints <nil>; a direct call does not).
type ptrError struct{ msg string }

func (e *ptrError) Error() string { return e.msg }

func errFor(kind string) error {
	switch kind {
	case FaultErrTextWide:
		return errors.New("injected storage fault: " + strings.Repeat("\u30c7\u30fc\u30bf\u30d9\u30fc\u30b9\u63a5\u7d9a\u30a8\u30e9\u30fc ", 10) + strings.Repeat("\u00fc", 40))
	case FaultErrTextVerbs:
		return errors.New("injected storage fault: no row for id %2Fetc%2Fpasswd%00 (%s, %d, %v, 100%) %!s(MISSING) %[1]q")
	case FaultErrTextMarkup:
		return errors.New("injected storage fault: near \"</StatusMessage><Status>&amp;]]>\" at line 1\r\n\tcolumn 7 \x01\x7f")
	case FaultNilPtrError:
		var e *ptrError
		return e
	case FaultPanicString:
		panic(PanicMarker + ": connection state corrupt")
	case FaultPanicError:
		panic(fmt.Errorf("%s: %w", PanicMarker, ErrInjected))
	case FaultTimeout:
		return timeoutError{}
	case FaultTemporary:
		return temporaryError{}
	case FaultPoolClosed:
		return fmt.Errorf("injected storage fault: connection pool closed: %w", context.Canceled)
	case FaultCtx:
		return context.Canceled
	}
	return ErrInjected
}

// ---- registration (harness side) ----

// AddSP registers a service provider built through the public constructor.
func (w *World) AddSP(appID string, metadata []byte) (*serviceprovider.ServiceProvider, error) {
	sp, err := serviceprovider.NewServiceProvider(appID, &serviceprovider.Config{Metadata: metadata}, func(id string) string { return w.LoginURL(id) })
	if err != nil {
		return nil, err
	}
	w.mu.Lock()
	w.sps[sp.GetEntityID()] = sp
	w.apps[appID] = sp.GetEntityID()
	w.mu.Unlock()
	return sp, nil
}

func (w *World) AddUser(u *User) {
	w.mu.Lock()
	w.users[u.UserID] = u
	w.logins[u.Username] = u
	if w.pristine == nil {
		w.pristine = map[*User]User{}
	}
	w.pristine[u] = cloneUser(u)
	w.mu.Unlock()
}

func cloneUser(u *User) User {
	c := *u
	c.Custom = make([]Custom, len(u.Custom))
	for i, x := range u.Custom {
		c.Custom[i] = x
		c.Custom[i].Values = append([]string(nil), x.Values...)
	}
	return c
}

// Mutated compares every user record with the copy taken when it was registered and describes the first
// difference ("" = none): the provider must treat what the storage hands out as read-only.
func (w *World) Mutated() string {
	w.mu.Lock()
	defer w.mu.Unlock()
	for u, was := range w.pristine {
		if u.UserID != was.UserID || u.Username != was.Username || u.Email != was.Email || u.FullName != was.FullName || u.GivenName != was.GivenName || u.Surname != was.Surname || len(u.Custom) != len(was.Custom) {
			return fmt.Sprintf("record of user %q changed: %+v, registered as %+v", was.UserID, *u, was)
		}
		for i := range u.Custom {
			a, b := u.Custom[i], was.Custom[i]
			if a.Name != b.Name || a.Friendly != b.Friendly || a.Format != b.Format || strings.Join(a.Values, "\x00") != strings.Join(b.Values, "\x00") || len(a.Values) != len(b.Values) {
				return fmt.Sprintf("custom attribute %q of user %q changed: values %q, registered as %q", b.Name, was.UserID, a.Values, b.Values)
			}
		}
	}
	return ""
}

// AddLogin registers a user under an explicit login name (attribute queries).
func (w *World) AddLogin(login string, u *User) {
	w.mu.Lock()
	w.logins[login] = u
	w.mu.Unlock()
}

// PutRequest stores a request record directly (callback workloads).
func (w *World) PutRequest(r *AuthReq) {
	w.mu.Lock()
	w.requests[r.ID] = r
	w.mu.Unlock()
}

func (w *World) Request(id string) *AuthReq {
	w.mu.Lock()
	defer w.mu.Unlock()
	return w.requests[id]
}

func (w *World) NumRequests() int {
	w.mu.Lock()
	defer w.mu.Unlock()
	return len(w.requests)
}

func normEntity(s string) string {
	return strings.TrimSuffix(strings.ToLower(strings.TrimSpace(s)), "/")
}

// ---- provider.Storage ----

func (w *World) GetCA(ctx context.Context) (*key.CertificateAndKey, error) {
	w.delay("GetCA")
	w.log(Event{Tag: TagOf(ctx), Op: "GetCA"})
	return w.CAKey, nil
}

func (w *World) keyFault(f string, base *key.CertificateAndKey) (*key.CertificateAndKey, error) {
	switch f {
	case FaultError, FaultTimeout, FaultTemporary, FaultPoolClosed, FaultCtx, FaultPanicString, FaultPanicError, FaultNilPtrError, FaultErrTextWide, FaultErrTextVerbs, FaultErrTextMarkup:
		return nil, errFor(f)
	case FaultNilRecord:
		return nil, nil
	case FaultKeyNoCert:
		return &key.CertificateAndKey{Key: base.Key}, nil
	case FaultCertNoKey:
		return &key.CertificateAndKey{Certificate: base.Certificate}, nil
	case FaultEmptyCert:
		return &key.CertificateAndKey{Certificate: []byte{}, Key: base.Key}, nil
	case FaultGarbageCert:
		return &key.CertificateAndKey{Certificate: []byte("not a certificate"), Key: base.Key}, nil
	}
	return base, nil
}

func (w *World) GetMetadataSigningKey(ctx context.Context) (*key.CertificateAndKey, error) {
	w.delay("GetMetadataSigningKey")
	f := w.fault(ctx, "GetMetadataSigningKey")
	w.log(Event{Tag: TagOf(ctx), Op: "GetMetadataSigningKey", Res: f, Err: f != ""})
	return w.keyFault(f, w.MetaKey)
}

func (w *World) GetResponseSigningKey(ctx context.Context) (*key.CertificateAndKey, error) {
	w.delay("GetResponseSigningKey")
	f := w.fault(ctx, "GetResponseSigningKey")
	base := w.RespKey
	if w.RespKeyFor != nil {
		// one key per virtual host / tenant: which one is meant follows from the issuer in the caller's context
		if kk := w.RespKeyFor(provider.IssuerFromContext(ctx)); kk != nil {
			base = kk
		}
	}
	w.log(Event{Tag: TagOf(ctx), Op: "GetResponseSigningKey", Res: f, Err: f != ""})
	return w.keyFault(f, base)
}

func (w *World) GetEntityByID(ctx context.Context, entityID string) (*serviceprovider.ServiceProvider, error) {
	w.delay("GetEntityByID")
	if f := w.fault(ctx, "GetEntityByID"); f != "" {
		w.log(Event{Tag: TagOf(ctx), Op: "GetEntityByID", Args: []string{entityID}, Res: f, Err: true})
		if f == FaultNilNil {
			return nil, nil
		}
		if f == FaultRecordAndError {
			w.mu.Lock()
			k := entityID
			if w.Tenanted {
				k = provider.IssuerFromContext(ctx) + "|" + entityID
			}
			sp := w.sps[k]
			w.mu.Unlock()
			return sp, ErrInjected
		}
		return nil, errFor(f)
	}
	w.mu.Lock()
	key := entityID
	if w.Tenanted {
		key = provider.IssuerFromContext(ctx) + "|" + entityID
	}
	sp := w.sps[key]
	if sp == nil && w.Lenient {
		for id, cand := range w.sps {
			if normEntity(id) == normEntity(entityID) {
				sp = cand
				break
			}
		}
	}
	w.mu.Unlock()
	if sp == nil {
		w.log(Event{Tag: TagOf(ctx), Op: "GetEntityByID", Args: []string{entityID}, Res: "not found", Err: true})
		if w.NilForUnknown {
			return nil, nil // the "return m[id], nil" idiom of map-backed storages
		}
		return nil, fmt.Errorf("service provider %s is not registered", entityID)
	}
	w.log(Event{Tag: TagOf(ctx), Op: "GetEntityByID", Args: []string{entityID}, Res: sp.GetEntityID()})
	return sp, nil
}

func (w *World) GetEntityIDByAppID(ctx context.Context, appID string) (string, error) {
	w.delay("GetEntityIDByAppID")
	if f := w.fault(ctx, "GetEntityIDByAppID"); f != "" {
		w.log(Event{Tag: TagOf(ctx), Op: "GetEntityIDByAppID", Args: []string{appID}, Res: f, Err: true})
		return "", errFor(f)
	}
	w.mu.Lock()
	id, ok := w.apps[appID]
	w.mu.Unlock()
	if !ok {
		w.log(Event{Tag: TagOf(ctx), Op: "GetEntityIDByAppID", Args: []string{appID}, Res: "not found", Err: true})
		return "", fmt.Errorf("application %s is not registered", appID)
	}
	w.log(Event{Tag: TagOf(ctx), Op: "GetEntityIDByAppID", Args: []string{appID}, Res: id})
	return id, nil
}

func (w *World) CreateAuthRequest(ctx context.Context, req *samlp.AuthnRequestType, acsURL, binding, relayState, appID string) (models.AuthRequestInt, error) {
	w.delay("CreateAuthRequest")
	snap := Snapshot(req)
	args := []string{acsURL, binding, relayState, appID}
	noID := false
	if f := w.fault(ctx, "CreateAuthRequest"); f == FaultNoIdentifier {
		noID = true
	} else if f != "" {
		w.log(Event{Tag: TagOf(ctx), Op: "CreateAuthRequest", Args: args, Res: f, Err: true, Req: snap})
		return nil, errFor(f)
	}
	n := w.nextReq.Add(1)
	r := &AuthReq{
		ID: fmt.Sprintf("%sreq%d", w.ReqTag, n), AppID: appID, RelayState: relayState, ACS: acsURL, Binding: binding,
	}
	if noID {
		r.ID = ""
	}
	if snap != nil {
		r.AuthRequestID, r.Issuer, r.Destination = snap.ID, snap.Issuer, snap.Destination
	}
	if w.UserFor != nil {
		r.UserID = w.UserFor(r.ID, appID)
	}
	w.mu.Lock()
	w.requests[r.ID] = r
	w.mu.Unlock()
	w.log(Event{Tag: TagOf(ctx), Op: "CreateAuthRequest", Args: args, Res: r.ID, Req: snap})
	return &reqView{w: w, tag: TagOf(ctx), r: r}, nil
}

func (w *World) AuthRequestByID(ctx context.Context, id string) (models.AuthRequestInt, error) {
	w.delay("AuthRequestByID")
	if f := w.fault(ctx, "AuthRequestByID"); f != "" {
		w.log(Event{Tag: TagOf(ctx), Op: "AuthRequestByID", Args: []string{id}, Res: f, Err: true})
		switch f {
		case FaultRecordAndError:
			w.mu.Lock()
			r := w.requests[id]
			w.mu.Unlock()
			if r != nil {
				return &reqView{w: w, tag: TagOf(ctx), r: r}, ErrInjected
			}
		case FaultTypedNil:
			return (*reqView)(nil), ErrInjected
		}
		return nil, errFor(f)
	}
	w.mu.Lock()
	r := w.requests[id]
	w.mu.Unlock()
	if r == nil {
		w.log(Event{Tag: TagOf(ctx), Op: "AuthRequestByID", Args: []string{id}, Res: "not found", Err: true})
		return nil, fmt.Errorf("request %s not found", id)
	}
	w.log(Event{Tag: TagOf(ctx), Op: "AuthRequestByID", Args: []string{id}, Res: "found"})
	return &reqView{w: w, tag: TagOf(ctx), r: r}, nil
}

// TerminateSession is not part of provider.Storage. A provider may probe its storage for optional abilities by type
// assertion; the harness can only offer the ones it knows of. This one (ending the user's session at logout) was
// introduced by a seeded change; on a tree that does not ask for it the method is never called.
func (w *World) TerminateSession(ctx context.Context, serviceProviderID string, nameID string, sessionIndexes []string) error {
	w.delay("TerminateSession")
	if f := w.fault(ctx, "TerminateSession"); f != "" {
		w.log(Event{Tag: TagOf(ctx), Op: "TerminateSession", Args: []string{serviceProviderID, nameID}, Res: f, Err: true})
		return errFor(f)
	}
	w.log(Event{Tag: TagOf(ctx), Op: "TerminateSession", Args: []string{serviceProviderID, nameID}, Res: "ok"})
	return nil
}

func fill(s models.AttributeSetter, u *User) {
	s.SetEmail(u.Email)
	s.SetFullName(u.FullName)
	s.SetGivenName(u.GivenName)
	s.SetSurname(u.Surname)
	s.SetUserID(u.UserID)
	s.SetUsername(u.Username)
	for _, c := range u.Custom {
		// the storage's own slice is handed over, as a real storage may do; Mutated() notices writes to it
		s.SetCustomAttribute(c.Name, c.Friendly, c.Format, c.Values)
	}
}

func (w *World) SetUserinfoWithUserID(ctx context.Context, applicationID string, userinfo models.AttributeSetter, userID string, attributes []int) error {
	w.delay("SetUserinfoWithUserID")
	if f := w.fault(ctx, "SetUserinfoWithUserID"); f != "" {
		if f == FaultPartial {
			// a lookup that delivers part of the record and then fails (timeout-shaped failure)
			w.mu.Lock()
			u := w.users[userID]
			w.mu.Unlock()
			if u != nil {
				userinfo.SetUserID(u.UserID)
				userinfo.SetUsername(u.Username)
				userinfo.SetEmail(u.Email)
			}
			time.Sleep(w.PartialDelay)
		}
		w.log(Event{Tag: TagOf(ctx), Op: "SetUserinfoWithUserID", Args: []string{applicationID, userID}, Res: f, Err: true})
		return errFor(f)
	}
	w.mu.Lock()
	u := w.users[userID]
	w.mu.Unlock()
	if u == nil {
		w.log(Event{Tag: TagOf(ctx), Op: "SetUserinfoWithUserID", Args: []string{applicationID, userID}, Res: "not found", Err: true})
		return fmt.Errorf("user %s not found", userID)
	}
	fill(userinfo, u)
	w.log(Event{Tag: TagOf(ctx), Op: "SetUserinfoWithUserID", Args: []string{applicationID, userID}, Res: "ok"})
	return nil
}

func (w *World) SetUserinfoWithLoginName(ctx context.Context, userinfo models.AttributeSetter, loginName string, attributes []int) error {
	w.delay("SetUserinfoWithLoginName")
	if f := w.fault(ctx, "SetUserinfoWithLoginName"); f != "" {
		if f == FaultPartial {
			w.mu.Lock()
			u := w.logins[loginName]
			w.mu.Unlock()
			if u != nil {
				userinfo.SetUserID(u.UserID)
				userinfo.SetUsername(u.Username)
				userinfo.SetEmail(u.Email)
			}
			time.Sleep(w.PartialDelay)
		}
		w.log(Event{Tag: TagOf(ctx), Op: "SetUserinfoWithLoginName", Args: []string{loginName}, Res: f, Err: true})
		return errFor(f)
	}
	w.mu.Lock()
	u := w.logins[loginName]
	w.mu.Unlock()
	if u == nil {
		w.log(Event{Tag: TagOf(ctx), Op: "SetUserinfoWithLoginName", Args: []string{loginName}, Res: "not found", Err: true})
		return fmt.Errorf("user %s not found", loginName)
	}
	fill(userinfo, u)
	w.log(Event{Tag: TagOf(ctx), Op: "SetUserinfoWithLoginName", Args: []string{loginName}, Res: "ok"})
	return nil
}

func (w *World) Health(ctx context.Context) error {
	w.delay("Health")
	if f := w.fault(ctx, "Health"); f != "" {
		w.log(Event{Tag: TagOf(ctx), Op: "Health", Res: f, Err: true})
		return errFor(f)
	}
	w.log(Event{Tag: TagOf(ctx), Op: "Health", Res: "ok"})
	return nil
}

var _ = rsa.PrivateKey{}

// SetApp maps an application id to an entity id without registering an SP.
func (w *World) SetApp(appID, entityID string) {
	w.mu.Lock()
	w.apps[appID] = entityID
	w.mu.Unlock()
}

func (w *World) ForgetRequest(id string) { w.mu.Lock(); delete(w.requests, id); w.mu.Unlock() }
func (w *World) ForgetApp(appID string)  { w.mu.Lock(); delete(w.apps, appID); w.mu.Unlock() }
func (w *World) ForgetUser(userID string) {
	w.mu.Lock()
	if u := w.users[userID]; u != nil {
		delete(w.logins, u.Username)
	}
	delete(w.users, userID)
	w.mu.Unlock()
}

// PutSP registers an already constructed service provider.
func (w *World) PutSP(sp interface{ GetEntityID() string }, appID string) {
	w.mu.Lock()
	if s, ok := sp.(*serviceprovider.ServiceProvider); ok {
		w.sps[s.GetEntityID()] = s
		w.apps[appID] = s.GetEntityID()
	}
	w.mu.Unlock()
}

// ReplaceMetadataInPlace refreshes a registration the way a storage does that keeps one long-lived object per service
// provider: the exported Metadata field of the SAME *ServiceProvider is replaced.
func (w *World) ReplaceMetadataInPlace(entityID string, metadata []byte) error {
	fresh, err := serviceprovider.NewServiceProvider("tmp", &serviceprovider.Config{Metadata: metadata}, func(id string) string { return w.LoginURL(id) })
	if err != nil {
		return err
	}
	w.mu.Lock()
	defer w.mu.Unlock()
	sp := w.sps[entityID]
	if sp == nil {
		return fmt.Errorf("%s is not registered", entityID)
	}
	sp.Metadata = fresh.Metadata
	return nil
}

// RemoveSP deregisters a service provider.
func (w *World) RemoveSP(entityID string) {
	w.mu.Lock()
	delete(w.sps, entityID)
	w.mu.Unlock()
}

// UserByLogin returns the user registered under a login name.
func (w *World) UserByLogin(login string) *User {
	w.mu.Lock()
	defer w.mu.Unlock()
	return w.logins[login]
}

// AddSPForTenant registers a service provider under one issuer (tenant) only; needs Tenanted.
func (w *World) AddSPForTenant(issuer, appID string, metadata []byte) error {
	sp, err := serviceprovider.NewServiceProvider(appID, &serviceprovider.Config{Metadata: metadata}, func(id string) string { return w.LoginURL(id) })
	if err != nil {
		return err
	}
	w.mu.Lock()
	w.sps[issuer+"|"+sp.GetEntityID()] = sp
	w.apps[appID] = sp.GetEntityID()
	w.mu.Unlock()
	return nil
}
