package props

import (
	"bytes"
	"context"
	"fmt"
	"math/rand"
	"net/http"
	"net/url"
	"regexp"
	"strings"
	"sync"
	"time"

	"verif/harness/core"
	"verif/harness/env"
	"verif/harness/reply"
	"verif/harness/sim"
	"verif/harness/spsim"
)

// C17 — auto-submit pages cannot be altered by request-controlled values.

func c17Dynamic(tag, attr string, t *reply.HTMLToken) bool {
	if tag == "form" && attr == "action" {
		return true
	}
	if tag == "input" && attr == "value" {
		n, _ := t.Attr("name")
		return n == "RelayState" || n == "SAMLResponse"
	}
	return false
}

var (
	c17Once     sync.Once
	c17PostSkel string
	c17LogSkel  string
	c17SkelErr  string
	// c17EmptyOf maps the skeleton of a page to the skeleton the same page has when there is no RelayState
	c17EmptyOf = map[string]string{}
)

// c17Skeletons renders both templates with neutral sentinels once and checks their shape.
func c17Skeletons() {
	c17Once.Do(func() {
		check := func(d *reply.Decoded) (string, string) {
			forms, inputs, scripts := 0, map[string]bool{}, 0
			for i := range d.Tokens {
				t := &d.Tokens[i]
				if t.Kind != "start" {
					continue
				}
				switch t.Name {
				case "form":
					forms++
					if m, _ := t.Attr("method"); strings.ToLower(m) != "post" {
						return "", "form method is not post"
					}
				case "input":
					if ty, _ := t.Attr("type"); ty == "hidden" {
						n, _ := t.Attr("name")
						inputs[n] = true
					}
				case "script":
					scripts++
				}
			}
			// the template may bring script of its own (auto-submit); what matters is that the hostile renderings have
			// the same structure as this one. A template may leave the RelayState field out when there is none.
			delete(inputs, "RelayState")
			if forms != 1 || len(inputs) != 1 || !inputs["SAMLResponse"] {
				return "", fmt.Sprintf("neutral rendering has %d forms, hidden inputs besides RelayState %v, %d script elements", forms, inputs, scripts)
			}
			return reply.Skeleton(d.Tokens, c17Dynamic), ""
		}
		rng := rand.New(rand.NewSource(5))
		sc := randScenario(rng, "MKneutral", false)
		sc.Host = ""
		sc.S.Binding, sc.S.ACS, sc.S.RelayState = spsim.BindPost, "https://neutral.example/acs", "neutralRelayState"
		e := sc.build()
		c := sc.callback(e)
		if c.D.Kind != "form" {
			c17SkelErr = "neutral callback rendering is not a form: " + c.D.Kind
			return
		}
		c17PostSkel, c17SkelErr = check(c.D)
		if c17SkelErr != "" {
			return
		}
		// the same page without a RelayState
		sc0 := randScenario(rng, "MKneutral0", false)
		sc0.Host = ""
		sc0.S.Binding, sc0.S.ACS, sc0.S.RelayState = spsim.BindPost, "https://neutral.example/acs", ""
		c0 := sc0.callback(sc0.build())
		if c0.D.Kind != "form" {
			c17SkelErr = "neutral callback rendering without RelayState is not a form: " + c0.D.Kind
			return
		}
		var sk0 string
		if sk0, c17SkelErr = check(c0.D); c17SkelErr != "" {
			return
		}
		c17EmptyOf[c17PostSkel] = sk0
		e2 := env.Static(env.Opts{})
		d := stdSP(0)
		d.SLO = []spsim.SLO{{Binding: spsim.BindPost, Location: "https://neutral.example/slo"}}
		mustRegister(e2.W, d, "a")
		l := conformantLogout(rng, d)
		s := ssoSend{Path: env.PathSLO, Binding: "post", XML: l.XML(rng), HasRelay: true, Relay: "neutralRelayState"}
		c2, _ := s.do(e2)
		if c2.D.Kind != "form" {
			c17SkelErr = "neutral logout rendering is not a form: " + c2.D.Kind
			return
		}
		c17LogSkel, c17SkelErr = check(c2.D)
		if c17SkelErr != "" {
			return
		}
		s0 := ssoSend{Path: env.PathSLO, Binding: "post", XML: conformantLogout(rng, d).XML(rng)}
		c3, _ := s0.do(e2)
		if c3.D.Kind != "form" {
			c17SkelErr = "neutral logout rendering without RelayState is not a form: " + c3.D.Kind
			return
		}
		if sk0, c17SkelErr = check(c3.D); c17SkelErr == "" {
			c17EmptyOf[c17LogSkel] = sk0
		}
	})
}

type hdrPair [2]string

func (p hdrPair) toMap() map[string][]string { return map[string][]string{p[0]: {p[1]}} }

var schemeRe = regexp.MustCompile(`^[A-Za-z][A-Za-z0-9+.\-]*$`)

// browserScheme returns the scheme a browser would see in an attribute value:
// leading C0 controls / spaces stripped, TAB / LF / CR removed everywhere.
func browserScheme(u string) string {
	u = strings.TrimLeftFunc(u, func(r rune) bool { return r <= 0x20 })
	u = strings.NewReplacer("\t", "", "\n", "", "\r", "").Replace(u)
	i := strings.IndexByte(u, ':')
	if i <= 0 {
		return ""
	}
	if s := u[:i]; schemeRe.MatchString(s) {
		return strings.ToLower(s)
	}
	return ""
}

// placeholderJustified: the inert placeholder may only replace URLs that have "something before a colon
// that is not a path" and that is not http / https / mailto.
func placeholderJustified(u string) bool {
	i := strings.IndexByte(u, ':')
	if i < 0 {
		return false
	}
	p := u[:i]
	if strings.Contains(p, "/") {
		return false
	}
	switch strings.ToLower(p) {
	case "http", "https", "mailto":
		return false
	}
	return true
}

func collapseFFFD(s string) string {
	s = strings.ReplaceAll(s, "\x00", "�")
	s = strings.ToValidUTF8(s, "�")
	for strings.Contains(s, "��") {
		s = strings.ReplaceAll(s, "��", "�")
	}
	return normNL(s)
}

var schemeTricks = []string{
	"javascript:alert(1)", "JaVaScRiPt:alert(1)", " javascript:alert(1)", "\tjavascript:alert(1)", "java\nscript:alert(1)", "java\tscript:alert(1)",
	"data:text/html,<script>alert(1)</script>", "vbscript:msgbox(1)", "ftp://sp.example/x", "blob:https://sp.example/1", "mailto:a@b.example",
	"//evil.example/x", "/relative/acs", "relative", "https://sp.example/acs", "http://sp.example/acs", "HTTPS://SP.EXAMPLE/ACS",
	"javascript&colon;alert(1)", "&#106;avascript:alert(1)", "&#x6A;avascript:alert(1)", "https://sp.example/\"onmouseover=\"alert(1)", "https://sp.example/'><script>alert(1)</script>",
	"x:y", "#", "?a=b:c", "https://sp.example/acs?t=12:30", "\x01javascript:alert(1)", "javascript\x00:alert(1)", "https://sp.example/a b", "https://sp.example/`x`",
	"https://sp.example/<b>", "https://sp.example/%zz", "https://sp.example/%41", "https://sp.example/ü", "https://sp.example/\xff\xfe", "https://sp.example/{{.}}", "feed:javascript:alert(1)", "jar:http://x!/", "about:blank", "file:///etc/passwd",
	// hierarchical forms of script schemes: they parse as absolute URLs with a host
	"javascript://sp.example/%0Aalert(document.domain)", "javascript://sp.example/%0aalert(1)//", "JAVASCRIPT://sp.example:443/%0Dalert(1)", "javascript://user@sp.example/?%0Aalert(1)",
	"data://sp.example/text/html,<script>alert(1)</script>", "vbscript://sp.example/%0Amsgbox(1)", "javascript:///%0Aalert(1)", "javascript://%0Aalert(1)",
	"com.example.app://saml/acs", "myapp://callback", "blob://sp.example/1",
}

func hostileRelay(rng *rand.Rand) string {
	switch rng.Intn(9) {
	case 7:
		// long runs of one character that is written as several (a page many times the size of the value)
		ch := []string{"\"", "'", "&", "<", ">", "+", "\x00", "\r", "`", "\"><script>"}[rng.Intn(10)]
		n := []int{1 << 10, 16 << 10, 40 << 10, 52 << 10, 60 << 10, 64 << 10}[rng.Intn(6)]
		return strings.Repeat(ch, n/len(ch))
	case 0:
		return arbitraryBytes(rng, 200)
	case 1:
		return utf8String(rng, 10)
	case 2:
		return strings.Repeat(arbitraryBytes(rng, 64), 1+rng.Intn(1024)) // up to 64 KiB
	case 3:
		return []string{"\"><script>alert(1)</script>", "' autofocus onfocus=alert(1) x='", "\"/><input name=\"SAMLResponse\" value=\"x", "</form><form action=\"https://evil.example\">", "&quot;&gt;&lt;", "&#34;&#62;", "\x00", "a\x00b", "\"\x00>", "--><!--", "]]>", "\r\n\r\n<html>", "\xc0\xaf", "\xed\xa0\x80", "+/=", "{{.}}", "`", "\\\""}[rng.Intn(18)]
	case 4:
		return ""
	case 5:
		b := make([]byte, 1+rng.Intn(300))
		for i := range b {
			b[i] = byte(rng.Intn(256))
		}
		return string(b)
	default:
		return legalXMLString(rng, 12)
	}
}

// c17Judge checks one rendered page.
func isASCII(s string) bool {
	for i := 0; i < len(s); i++ {
		if s[i] >= 0x80 {
			return false
		}
	}
	return true
}

func c17Judge(r *core.Run, wl string, idx int, class, skel string, d *reply.Decoded, wantURL, wantRelay string, desc any, call *env.Call) {
	viol := func(clause, reason string) {
		r.Violate(core.Violation{Clause: clause, Class: class, Reason: reason, Workload: wl, Index: idx, Case: desc, Observed: call.Describe()})
	}
	r.Count("pages_checked", 1)
	// which encoding does a user agent read the page in? When a substituted value has bytes beyond ASCII the page has
	// to say that it is UTF-8 (Content-Type as set by the handler or, if it sets none, as net/http sniffs it; a byte order
	// mark; a meta element at the top) - otherwise the parser recovers other characters than were put in
	// which parser does a user agent hand the page to? The statement is about an HTML parser: the media type (as set by
	// the handler or, if it sets none, as net/http sniffs and sends it) has to be text/html - an XML media type makes
	// the user agent normalise white space in the values and give up on characters XML does not allow
	if call != nil && call.Rec != nil {
		body := call.Rec.Body.Bytes()
		ct := call.Rec.HeaderAtSend.Get("Content-Type")
		if ct == "" {
			ct = http.DetectContentType(body[:min(len(body), 512)])
		}
		mt, _, _ := strings.Cut(ct, ";")
		r.Seen("page_media_types", strings.ToLower(strings.TrimSpace(mt)))
		if !strings.EqualFold(strings.TrimSpace(mt), "text/html") {
			viol("page_not_served_as_html", fmt.Sprintf("the auto-submit page is sent with Content-Type %q: a user agent does not read it with its HTML parser", ct))
			return
		}
	}
	if call != nil && call.Rec != nil && (!isASCII(wantRelay) || !isASCII(wantURL)) {
		body := call.Rec.Body.Bytes()
		ct := call.Rec.HeaderAtSend.Get("Content-Type")
		if ct == "" {
			n := len(body)
			if n > 512 {
				n = 512
			}
			ct = http.DetectContentType(body[:n])
		}
		head := strings.ToLower(string(body[:min(len(body), 1024)]))
		declared := strings.Contains(strings.ToLower(strings.ReplaceAll(ct, " ", "")), "charset=utf-8") || strings.Contains(strings.ToLower(ct), `charset="utf-8"`) ||
			bytes.HasPrefix(body, []byte{0xEF, 0xBB, 0xBF}) || strings.Contains(head, `charset=utf-8`) || strings.Contains(head, `charset="utf-8"`)
		r.Count("pages_whose_encoding_matters", 1)
		if !declared {
			viol("encoding_not_declared", fmt.Sprintf("the page carries values with bytes beyond ASCII but nothing tells a user agent that it is UTF-8 (Content-Type %q, no byte order mark, no meta charset): the parser recovers other characters than were put in", ct))
			return
		}
	}
	if wantRelay == "" {
		if s0, ok := c17EmptyOf[skel]; ok {
			skel = s0
		}
	}
	if got := reply.Skeleton(d.Tokens, c17Dynamic); got != skel {
		viol("skeleton_changed", fmt.Sprintf("page structure differs from the neutral rendering: %s", clipS(diffAt(skel, got), 400)))
		return
	}
	var action, relay, msg string
	var nA, nR, nM int
	for i := range d.Tokens {
		t := &d.Tokens[i]
		if t.Kind != "start" {
			continue
		}
		if t.Name == "form" {
			action, _ = t.Attr("action")
			nA++
		}
		if t.Name == "input" {
			switch n, _ := t.Attr("name"); n {
			case "RelayState":
				relay, _ = t.Attr("value")
				nR++
			case "SAMLResponse":
				msg, _ = t.Attr("value")
				nM++
			}
		}
	}
	if nR == 0 && wantRelay == "" {
		nR = 1 // no field for no RelayState (the structure was compared with the neutral page without RelayState)
	}
	if nA != 1 || nR != 1 || nM != 1 {
		viol("field_count", fmt.Sprintf("%d forms, %d RelayState fields, %d SAMLResponse fields", nA, nR, nM))
		return
	}
	if collapseFFFD(relay) != collapseFFFD(wantRelay) {
		viol("relay_state_value", fmt.Sprintf("RelayState field %q, substituted %q", clipS(relay, 300), clipS(wantRelay, 300)))
	}
	if d.XML == nil || d.Msg == nil {
		viol("message_value", "SAMLResponse field does not decode to the message: "+d.Err)
	}
	for i := 0; i < len(msg); i++ {
		c := msg[i]
		if !(c >= 'A' && c <= 'Z' || c >= 'a' && c <= 'z' || c >= '0' && c <= '9' || c == '+' || c == '/' || c == '=') {
			viol("message_value", fmt.Sprintf("SAMLResponse field contains the non-base64 byte %q", c))
			break
		}
	}
	if action == "#ZgotmplZ" {
		r.Count("actions_replaced_by_placeholder", 1)
		if !placeholderJustified(wantURL) {
			viol("action_value", fmt.Sprintf("form action is the inert placeholder although the consumer URL %q has an allowed or no scheme", clipS(wantURL, 200)))
		}
	} else {
		if !onlyEncodes(wantURL, action) {
			viol("action_value", fmt.Sprintf("form action %q is not the (URL-normalised) consumer URL %q", clipS(action, 300), clipS(wantURL, 300)))
		}
		r.Count("actions_url", 1)
	}
	// "javascript:/data: style": schemes a browser resolves to script or to a document in the embedding origin.
	// Other schemes (ftp, app links such as com.example.app://) are not what the statement forbids.
	switch s := browserScheme(action); s {
	case "javascript", "vbscript", "livescript", "mocha", "data":
		viol("dangerous_action_scheme", fmt.Sprintf("form action %q has the scheme %q", clipS(action, 200), s))
	}
}

func diffAt(a, b string) string {
	i := 0
	for i < len(a) && i < len(b) && a[i] == b[i] {
		i++
	}
	s := i - 60
	if s < 0 {
		s = 0
	}
	return fmt.Sprintf("at byte %d: neutral …%s  hostile …%s", i, clipS(a[s:], 160), clipS(b[s:], 160))
}

func c17Callback(r *core.Run, idx int, rng *rand.Rand) {
	const wl = "callback_pages"
	c17Skeletons()
	if c17SkelErr != "" {
		r.Violate(core.Violation{Clause: "neutral_rendering", Class: "template", Reason: c17SkelErr, Workload: wl, Index: idx})
		return
	}
	sc := randScenario(rng, fmt.Sprintf("MK%dx", idx), false)
	sc.Host = ""
	sc.S.Binding = spsim.BindPost
	sc.S.RelayState = hostileRelay(rng)
	switch rng.Intn(3) {
	case 0:
		sc.S.ACS = schemeTricks[rng.Intn(len(schemeTricks))]
	case 1:
		sc.S.ACS = "https://sp.example/acs/" + arbitraryBytes(rng, 40)
	default:
		sc.S.ACS = hostileEndpoint(rng, "sp.example", 0, false)
	}
	if idx%4 == 1 {
		sc.Done = false // error replies use the same page
	}
	e := sc.build()
	fault := ""
	var reqCtx context.Context
	if idx%5 == 2 {
		// a storage operation of the callback fails: whatever page is produced is still exactly one form (or none)
		ops := []string{"AuthRequestByID", "GetEntityIDByAppID", "SetUserinfoWithUserID", "GetResponseSigningKey"}
		op := ops[rng.Intn(len(ops))]
		kind := sim.FaultError
		if op == "GetResponseSigningKey" {
			kind = []string{sim.FaultError, sim.FaultNilRecord, sim.FaultKeyNoCert, sim.FaultCertNoKey, sim.FaultEmptyCert}[rng.Intn(5)]
		}
		if op == "SetUserinfoWithUserID" && rng.Intn(2) == 0 {
			kind = sim.FaultPartial
		}
		if (op == "SetUserinfoWithUserID" || op == "GetResponseSigningKey") && rng.Intn(3) == 0 {
			// the call hangs until the request's deadline passes and then gives up with the context's error
			kind = "hangs_until_request_deadline"
			var cancel context.CancelFunc
			reqCtx, cancel = context.WithTimeout(context.Background(), 60*time.Millisecond)
			defer cancel()
			e.W.Before = func(ctx context.Context, _, o string, _ int) {
				if o == op {
					select {
					case <-ctx.Done():
						time.Sleep(2 * time.Millisecond) // whoever else waits for the deadline gets to run
					case <-time.After(2 * time.Second):
					}
				}
			}
		}
		fault = op + "/" + kind
		if kind != "hangs_until_request_deadline" {
			e.W.Plan = func(tag, o string, occ int) string {
				if o == op {
					return kind
				}
				return ""
			}
		}
		r.Count("callback_pages_with_storage_fault", 1)
	}
	// request headers a static-file server would act on must not matter for a generated page
	var hdrs map[string][]string
	if idx%6 == 1 {
		hdrs = []hdrPair{{"Range", "bytes=760-"}, {"Range", "bytes=-200"}, {"Range", "bytes=0-99,700-799"}, {"If-Range", "\"x\""}, {"If-None-Match", "*"}, {"If-Modified-Since", "Wed, 21 Oct 2099 07:28:00 GMT"}, {"If-Match", "\"nope\""}, {"Accept-Encoding", "gzip, br"}, {"Accept", "application/json"}, {"Expect", "100-continue"}}[rng.Intn(10)].toMap()
		if rng.Intn(3) == 0 {
			hdrs["Range"] = []string{"bytes=100-"}
		}
		fault += "request_headers"
	}
	call := e.Do(env.Req{Method: "GET", Path: env.PathLogin, Query: "id=" + url.QueryEscape(sc.S.ID), Host: sc.Host, Ctx: reqCtx, Headers: hdrs})
	if reqCtx != nil {
		time.Sleep(5 * time.Millisecond) // anything that still writes to the reply after the handler returned
		call.D = reply.Decode(call.Rec)
	}
	class := fmt.Sprintf("callback|done=%v", sc.Done)
	if fault != "" {
		class += "|fault=" + fault
	}
	desc := map[string]any{"relay_state": clipS(sc.S.RelayState, 400), "relay_len": len(sc.S.RelayState), "acs": sc.S.ACS}
	r.Eval(fmt.Sprintf("%s|%s|%d", class, core.Hex(sc.S.ACS), len(sc.S.RelayState)))
	if call.Panic != "" {
		r.Violate(core.Violation{Clause: "panic", Class: class, Reason: call.Panic, Workload: wl, Index: idx, Case: desc, Observed: call.Describe()})
		return
	}
	if hdrs != nil && call.D.Status != 200 && call.D.Status < 400 {
		r.Violate(core.Violation{Clause: "page_incomplete", Class: class, Reason: fmt.Sprintf("the page was answered with status %d (request headers %v): a browser gets a part of the page, or none", call.D.Status, hdrs), Workload: wl, Index: idx, Case: desc, Observed: call.Describe()})
		return
	}
	if call.D.Kind != "form" {
		r.Count("not_a_form_"+call.D.Kind, 1)
		if call.D.Status == 200 && len(call.D.Body) > 0 && strings.Contains(strings.ToLower(string(call.D.Body)), "<input") {
			r.Violate(core.Violation{Clause: "page_not_recognised", Class: class, Reason: "reply contains markup but is not the auto-submit form", Workload: wl, Index: idx, Case: desc, Observed: call.Describe()})
		}
		return
	}
	c17Judge(r, wl, idx, class, c17PostSkel, call.D, sc.S.ACS, sc.S.RelayState, desc, call)
	if idx < 3 {
		r.Sample("callback_page", map[string]any{"acs": sc.S.ACS, "relay_state": clipS(sc.S.RelayState, 120), "action": call.D.Target})
	}
}

// c17Overlap: the page of session A goes to a client that reads slowly - its first write stalls - and the page of
// session B (same provider) is produced and sent completely meanwhile; then A's page is finished. Each page is the
// fixed template with the values of its own session.
func c17Overlap(r *core.Run, idx int, rng *rand.Rand) {
	const wl = "pages_written_while_another_is_produced"
	c17Skeletons()
	if c17SkelErr != "" {
		return
	}
	mk := func(tag string) *cbScenario {
		sc := randScenario(rng, fmt.Sprintf("MK%d%s", idx, tag), false)
		sc.Host = ""
		sc.S.Binding = spsim.BindPost
		sc.S.RelayState = "relay-of-" + tag + "-" + hostileRelay(rng)
		sc.S.ACS = hostileEndpoint(rng, tag+".sp.example", 0, false)
		return sc
	}
	a, b := mk("a"), mk("b")
	a.Opts = b.Opts
	e := a.build()
	b.install(e.W)
	bDone := make(chan struct{})
	stalled := false
	var once sync.Once
	var callA *env.Call
	doneA := make(chan struct{})
	go func() {
		defer close(doneA)
		callA = e.Do(env.Req{Path: env.PathLogin, Query: "id=" + url.QueryEscape(a.S.ID), Tag: fmt.Sprintf("ov%da", idx), OnWrite: func() {
			once.Do(func() {
				stalled = true
				select {
				case <-bDone:
				case <-time.After(2 * time.Second):
				}
			})
		}})
	}()
	// B is asked for when A's first write has had time to begin (or A has finished without writing a page)
	select {
	case <-doneA:
	case <-time.After(15 * time.Millisecond):
	}
	callB := e.Do(env.Req{Path: env.PathLogin, Query: "id=" + url.QueryEscape(b.S.ID), Tag: fmt.Sprintf("ov%db", idx)})
	close(bDone)
	<-doneA
	if stalled {
		r.Count("pages_whose_first_write_stalled_while_another_page_was_sent", 1)
	}
	for _, x := range []struct {
		name string
		sc   *cbScenario
		call *env.Call
	}{{"stalled_page", a, callA}, {"page_sent_meanwhile", b, callB}} {
		class := "overlap|" + x.name
		desc := map[string]any{"relay_state": clipS(x.sc.S.RelayState, 300), "acs": x.sc.S.ACS, "stalled": stalled}
		r.Eval(fmt.Sprintf("%s|%d", class, idx))
		if x.call.Panic != "" {
			r.Violate(core.Violation{Clause: "panic", Class: class, Reason: x.call.Panic, Workload: wl, Index: idx, Case: desc, Observed: x.call.Describe()})
			continue
		}
		if x.call.D.Kind != "form" {
			r.Count("not_a_form_"+x.call.D.Kind, 1)
			continue
		}
		c17Judge(r, wl, idx, class, c17PostSkel, x.call.D, x.sc.S.ACS, x.sc.S.RelayState, desc, x.call)
	}
}

func c17SSOError(r *core.Run, idx int, rng *rand.Rand) {
	const wl = "sso_error_pages"
	c17Skeletons()
	if c17SkelErr != "" {
		return
	}
	c := conformantSSO(rng)
	c.Host = ""
	c.Signed = false
	c.SPD.AuthnRequestsSigned, c.Want = "", ""
	acs := hostileEndpoint(rng, "sp.example", 0, false)
	if rng.Intn(2) == 0 {
		for {
			acs = schemeTricks[rng.Intn(len(schemeTricks))]
			if isValidUTF8(acs) && !strings.ContainsAny(acs, "\x00\x01") {
				break
			}
		}
	}
	c.SPD.ACS = []spsim.ACS{{Binding: spsim.BindPost, Location: acs, Index: "0"}}
	c.Req.Destination = "https://wrong.example/SSO" // fails after the consumer service is known
	c.Req.ProtocolBinding = ""
	relay := hostileRelay(rng)
	c.HasRel, c.Relay = true, relay
	c.Binding = []string{"redirect", "post"}[rng.Intn(2)]
	_, call := c.run(rng, nil)
	class := "sso_error|" + c.Binding
	desc := map[string]any{"relay_state": clipS(relay, 400), "relay_len": len(relay), "acs": acs}
	r.Eval(fmt.Sprintf("%s|%s|%d", class, core.Hex(acs), len(relay)))
	if call.Panic != "" {
		r.Violate(core.Violation{Clause: "panic", Class: class, Reason: call.Panic, Workload: wl, Index: idx, Case: desc, Observed: call.Describe()})
		return
	}
	if call.D.Kind != "form" {
		r.Count("not_a_form_"+call.D.Kind, 1)
		return
	}
	c17Judge(r, wl, idx, class, c17PostSkel, call.D, acs, relay, desc, call)
}

func c17Logout(r *core.Run, idx int, rng *rand.Rand) {
	const wl = "logout_pages"
	c17Skeletons()
	if c17SkelErr != "" {
		return
	}
	e := env.Static(env.Opts{})
	d := stdSP(0)
	slo := hostileEndpoint(rng, "sp.example", 0, false)
	if rng.Intn(2) == 0 {
		for {
			slo = schemeTricks[rng.Intn(len(schemeTricks))]
			if isValidUTF8(slo) && !strings.ContainsAny(slo, "\x00\x01") {
				break
			}
		}
	}
	d.SLO = []spsim.SLO{{Binding: spsim.BindPost, Location: slo}}
	mustRegister(e.W, d, "a")
	l := conformantLogout(rng, d)
	relay := hostileRelay(rng)
	s := ssoSend{Path: env.PathSLO, Binding: []string{"redirect", "post"}[rng.Intn(2)], XML: l.XML(rng), HasRelay: true, Relay: relay}
	fault := ""
	if idx%4 == 3 {
		// whatever the storage is asked beyond the service-provider lookup while a logout is served fails
		fault = []string{sim.FaultError, sim.FaultTimeout, sim.FaultPoolClosed}[rng.Intn(3)]
		e.W.Plan = func(_, op string, _ int) string {
			if op != "GetEntityByID" && op != "GetResponseSigningKey" {
				return fault
			}
			return ""
		}
	}
	call, _ := s.do(e)
	class := "logout|" + s.Binding
	if fault != "" {
		class += "|other_storage_calls_fail"
	}
	desc := map[string]any{"relay_state": clipS(relay, 400), "relay_len": len(relay), "slo": slo}
	r.Eval(fmt.Sprintf("%s|%s|%d", class, core.Hex(slo), len(relay)))
	if call.Panic != "" {
		r.Violate(core.Violation{Clause: "panic", Class: class, Reason: call.Panic, Workload: wl, Index: idx, Case: desc, Observed: call.Describe()})
		return
	}
	if call.D.Kind != "form" {
		r.Count("not_a_form_"+call.D.Kind, 1)
		return
	}
	c17Judge(r, wl, idx, class, c17LogSkel, call.D, slo, relay, desc, call)
}

// c17AfterFailedWrite renders a page after an earlier reply of the same provider could not be written
// completely (broken connection): nothing of the earlier page may show up in the later one.
func c17AfterFailedWrite(r *core.Run, idx int, rng *rand.Rand) {
	const wl = "pages_after_failed_write"
	c17Skeletons()
	if c17SkelErr != "" {
		return
	}
	e := env.Static(env.Opts{})
	d := stdSP(0)
	d.SLO = []spsim.SLO{{Binding: spsim.BindPost, Location: "https://sp0.example/slo"}}
	mustRegister(e.W, d, "a")
	mk := func(tag string) *cbScenario {
		sc := randScenario(rng, fmt.Sprintf("MK%d%sx", idx, tag), false)
		sc.Host = ""
		sc.S.Binding = spsim.BindPost
		sc.install(e.W)
		return sc
	}
	for k := 0; k < 6; k++ {
		a, b := mk(fmt.Sprintf("a%d", k)), mk(fmt.Sprintf("b%d", k))
		// first reply: the connection breaks after some bytes (login or logout page)
		fail := 1 + rng.Intn(1500)
		if rng.Intn(2) == 0 {
			e.Do(env.Req{Path: env.PathLogin, Query: "id=" + url.QueryEscape(a.S.ID), FailWriteAfter: fail})
		} else {
			l := conformantLogout(rng, d)
			e.Do(env.Req{Method: "POST", Path: env.PathSLO, Body: spsim.FormBody("SAMLRequest", spsim.B64([]byte(l.XML(rng))), "RelayState", a.S.RelayState), FailWriteAfter: fail})
		}
		// second reply, for another session
		call := e.Do(env.Req{Path: env.PathLogin, Query: "id=" + url.QueryEscape(b.S.ID)})
		class := "after_failed_write"
		desc := map[string]any{"first_session": a.S.ID, "second_session": b.S.ID, "first_write_failed_after_bytes": fail}
		r.Eval(fmt.Sprintf("%s|%d|%d|%d", class, idx, k, fail))
		r.Count("pages_after_failed_write", 1)
		if call.Panic != "" {
			r.Violate(core.Violation{Clause: "panic", Class: class, Reason: call.Panic, Workload: wl, Index: idx, Case: desc, Observed: call.Describe()})
			return
		}
		if call.D.Kind != "form" {
			r.Violate(core.Violation{Clause: "page_not_recognised", Class: class, Reason: "the reply after a failed write is not the auto-submit form: " + call.D.Kind, Workload: wl, Index: idx, Case: desc, Observed: call.Describe()})
			return
		}
		c17Judge(r, wl, idx, class, c17PostSkel, call.D, b.S.ACS, b.S.RelayState, desc, call)
		if strings.Contains(string(call.D.Body), a.Canary) {
			r.Violate(core.Violation{Clause: "previous_page_in_reply", Class: class, Reason: "the page contains data of the reply whose delivery failed before", Workload: wl, Index: idx, Case: desc, Observed: call.Describe()})
		}
	}
}

// c17Dictionary substitutes the string constants of the library itself (placeholders, sentinels) as
// RelayState and inside consumer URLs.
func c17Dictionary(r *core.Run, idx int, rng *rand.Rand) {
	const wl = "dictionary_values"
	c17Skeletons()
	if c17SkelErr != "" {
		return
	}
	dict := repoDictionary()
	if len(dict) == 0 {
		r.Inconclusive("no string literals found under " + repoRoot() + "/pkg")
		return
	}
	for k := idx * 8; k < idx*8+8 && k < len(dict); k++ {
		tok := dict[k]
		for variant := 0; variant < 3; variant++ {
			relay := tok
			switch variant {
			case 1:
				relay = "a" + tok + "b" + tok
			case 2:
				relay = legalXMLString(rng, 2) + tok
			}
			sc := randScenario(rng, fmt.Sprintf("MK%dd%dx", idx, k), false)
			sc.Host = ""
			sc.S.Binding = spsim.BindPost
			sc.S.RelayState = relay
			sc.S.ACS = "https://sp.example/acs"
			if variant == 2 {
				sc.S.ACS = "https://sp.example/acs/" + tok
			}
			sc.S.AuthRequestID = "id" + tok
			e := sc.build()
			call := sc.callback(e)
			desc := map[string]any{"dictionary_token": tok, "relay_state": relay, "acs": sc.S.ACS}
			r.Eval("dict|" + core.Hex(tok) + fmt.Sprint(variant))
			r.Count("dictionary_pages", 1)
			if call.Panic != "" {
				r.Violate(core.Violation{Clause: "panic", Class: "dictionary", Reason: call.Panic, Workload: wl, Index: idx, Case: desc, Observed: call.Describe()})
				continue
			}
			if call.D.Kind != "form" {
				continue
			}
			c17Judge(r, wl, idx, "dictionary", c17PostSkel, call.D, sc.S.ACS, relay, desc, call)
			// (a token of the library's source may hold characters XML cannot carry; those may come back replaced)
			if call.D.Msg == nil || replaceIllegal(call.D.Msg.InResponseTo) != replaceIllegal(sc.S.AuthRequestID) {
				r.Violate(core.Violation{Clause: "message_value", Class: "dictionary", Reason: "the SAMLResponse field does not hold this reply's message", Workload: wl, Index: idx, Case: desc, Observed: call.Describe()})
			}
		}
	}
}

var _ = url.QueryEscape

func init() {
	register(&Prop{
		ID: "C17", Level: "exploration", DeathIsViolation: true,
		TimeoutQuick: 5 * time.Minute, TimeoutThorough: 30 * time.Minute,
		Build: func(c *Ctx) []core.Workload {
			r := c.Run
			r.Rule = "auto-submit pages are produced through every real path (login callback Success and error replies with RelayState and consumer URL from stored requests: arbitrary bytes incl. NUL, invalid UTF-8, up to 64 KiB; SSO error replies with RelayState from query / form and consumer URL from SP metadata; logout replies) and tokenised by the harness's own byte-level HTML tokenizer. The skeleton (token sequence, tag and attribute names, static values and text) must equal the skeleton of a rendering with neutral sentinels; the three dynamic values must be the substituted RelayState (NUL / invalid UTF-8 may become U+FFFD, CR/CRLF -> LF), a pure base64 message that decodes, and the consumer URL under the 'only-encodes' relation - or the inert placeholder, only for URLs with a non-http(s)/mailto 'scheme'; the emitted action's scheme as a browser reads it must be http, https, mailto or none. Every string constant of the library's own source (a fuzzing dictionary: placeholders, sentinels) is substituted as RelayState and inside the consumer URL. A further workload renders a page right after an earlier reply of the same provider failed to be written (broken connection after N bytes). Distinct = (path, consumer URL, RelayState length)."
			r.Require("pages_checked", int64(c.Pick(2000, 25000)))
			r.Require("actions_url", 500)
			r.Require("pages_after_failed_write", 300)
			r.Require("dictionary_pages", 300)
			return []core.Workload{
				{Name: "callback_histories", N: c.Pick(120, 1200), Fn: cbHistory("C17")},
				{Name: "callback_pages", N: c.Pick(1600, 20000), Fn: c17Callback},
				{Name: "sso_error_pages", N: c.Pick(800, 10000), Fn: c17SSOError},
				{Name: "logout_pages", N: c.Pick(800, 10000), Fn: c17Logout},
				{Name: "pages_after_failed_write", N: c.Pick(100, 1000), Fn: c17AfterFailedWrite},
				{Name: "pages_written_while_another_is_produced", N: c.Pick(60, 600), Fn: c17Overlap},
				{Name: "dictionary_values", N: (len(repoDictionary()) + 7) / 8, Fn: c17Dictionary},
			}
		},
	})
}
