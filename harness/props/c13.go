package props

import (
	"errors"
	"fmt"
	"io"
	"math/rand"
	"net/url"
	"strings"
	"time"

	"verif/harness/core"
	"verif/harness/env"
	"verif/harness/spsim"
)

// C13 — logout responses go to the registered party and succeed only if valid.

// utf8String draws valid UTF-8 without NUL, including control characters and markup.
func utf8String(rng *rand.Rand, maxParts int) string {
	var b strings.Builder
	for i := rng.Intn(maxParts + 1); i > 0; i-- {
		switch rng.Intn(5) {
		case 0:
			b.WriteString(xmlSpecial[rng.Intn(len(xmlSpecial))])
		case 1:
			b.WriteByte(byte(1 + rng.Intn(31)))
		case 2:
			b.WriteString([]string{"\"><script>alert(1)</script>", "' onload='x", "</form>", "&#0;", "\x7f", "javascript:alert(1)"}[rng.Intn(6)])
		default:
			b.WriteString(plainString(rng, 1+rng.Intn(6)))
		}
	}
	return b.String()
}

// lenientUnescape decodes the well-formed percent escapes (and '+') of a form value and leaves everything else as it is.
func lenientUnescape(v string) string {
	var b strings.Builder
	for i := 0; i < len(v); i++ {
		switch {
		case v[i] == '+':
			b.WriteByte(' ')
		case v[i] == '%' && i+2 < len(v):
			h, ok1 := unhexb(v[i+1])
			l, ok2 := unhexb(v[i+2])
			if ok1 && ok2 {
				b.WriteByte(h<<4 | l)
				i += 2
			} else {
				b.WriteByte('%')
			}
		default:
			b.WriteByte(v[i])
		}
	}
	return b.String()
}

// ancientInstants lie in the past whatever the clock says; several are the zero value of some date type.
var ancientInstants = []string{"0001-01-01T00:00:00Z", "0001-01-01T00:00:00.000Z", "0001-01-01T00:00:00.000000Z", "0001-01-01T00:00:01Z", "0001-01-02T00:00:00Z",
	"1601-01-01T00:00:00Z", "1753-01-01T00:00:00Z", "1900-01-01T00:00:00Z", "1969-12-31T23:59:59Z", "1970-01-01T00:00:00Z", "1970-01-01T00:00:00.000Z", "1970-01-01T00:00:01Z", "1677-09-21T00:12:43Z"}

func c13Case(r *core.Run, idx int, rng *rand.Rand) {
	const wl = "logout_requests"
	layout := timeLayouts[rng.Intn(len(timeLayouts))]
	host := ""
	o := env.Opts{TimeFormat: layout}
	if rng.Intn(3) == 0 {
		host = []string{"h1.idp.example", "h2.example:8443"}[rng.Intn(2)]
		o.HostPath = "/saml"
	}
	var e *env.Env
	if host != "" {
		var err error
		if e, err = env.New(o); err != nil {
			panic(err)
		}
	} else {
		e = env.Static(o)
	}
	if idx%6 == 4 {
		withUnaskedNames(e, r)
	}
	wantIssuer := idpEntityID
	if host != "" {
		wantIssuer = "https://" + host + "/saml/metadata"
	}
	d := stdSP(0)
	d.SLO = nil
	for k := rng.Intn(4); k > 0; k-- {
		slo := spsim.SLO{Binding: []string{spsim.BindPost, spsim.BindRedirect}[rng.Intn(2)], Location: hostileEndpoint(rng, "spa.example", k, false)}
		switch rng.Intn(8) {
		case 0: // the optional ResponseLocation attribute: the statement names the location, so that is where the message goes
			slo.ResponseLocation = fmt.Sprintf("https://spa.example/slo-return/%d", k)
		case 1:
			slo.ResponseLocation = slo.Location
		}
		d.SLO = append(d.SLO, slo)
	}
	mustRegister(e.W, d, "appA")
	mustRegister(e.W, stdSP(1), "appB")
	// half of the time the storage answers "no record, no error" for an entity it does not know
	e.W.NilForUnknown = rng.Intn(2) == 0

	l := conformantLogout(rng, d)
	l.ID = "MKid" + randHex(rng, 6) + legalXMLString(rng, 2)
	if rng.Intn(4) == 0 {
		// identifiers as other products write them: a bare UUID, a number, a URN, non-ASCII letters, blanks inside
		l.ID = []string{randHex(rng, 8) + "-" + randHex(rng, 4) + "-4" + randHex(rng, 3) + "-a" + randHex(rng, 3) + "-" + randHex(rng, 12), "4711" + randHex(rng, 2), "urn:uuid:" + randHex(rng, 12), "idé-" + randHex(rng, 4), "Идентификатор" + randHex(rng, 3), "id with blank " + randHex(rng, 3), "-" + randHex(rng, 5), "." + randHex(rng, 5)}[rng.Intn(8)]
	}
	now := time.Now()
	// labels
	decodable, registered := true, true
	issued, expiry := "past", "absent"
	fmtTS := func(t time.Time) string {
		if rng.Intn(3) == 0 {
			// the same instant written with a numeric zone offset (legal xs:dateTime, unusual in SAML)
			off := []int{2 * 3600, -2 * 3600, 5*3600 + 1800, -8 * 3600, 14 * 3600, 60}[rng.Intn(6)]
			return t.In(time.FixedZone("", off)).Format("2006-01-02T15:04:05-07:00")
		}
		if layout == "" || rng.Intn(2) == 0 {
			return tsFrac(t, rng.Intn(10))
		}
		return t.UTC().Format(layout)
	}
	switch rng.Intn(6) {
	case 0:
		issued = "future"
		l.IssueInstant = fmtTS(now.Add(farFuture(rng)))
		if rng.Intn(6) == 0 {
			l.IssueInstant = []string{"9999-12-31T23:59:59Z", "9999-12-31T23:59:59.999999999Z", "2262-04-11T23:47:17Z", "5000-01-01T00:00:00.123Z"}[rng.Intn(4)]
		}
	case 1:
		issued = "absent"
		l.IssueInstant = ""
	case 2:
		issued = "unparseable"
		l.IssueInstant = badTimestamps[rng.Intn(len(badTimestamps))]
	default:
		l.IssueInstant = fmtTS(now.Add(farPast(rng)))
	}
	switch rng.Intn(5) {
	case 0:
		expiry = "passed"
		if rng.Intn(3) == 0 {
			// expired a moment ago, written with its fraction (whatever precision the IdP's own layout has)
			l.NotOnOrAfter = tsFrac(now.Add(justPast(rng)), 3+rng.Intn(7))
		} else if rng.Intn(5) == 0 {
			// the ends of the representable range: the earliest instant of xs:dateTime / of Go's time.Time (what a
			// serialised "minimum date" looks like), the Unix epoch and the instants next to them
			expiry = "passed_long_ago"
			l.NotOnOrAfter = ancientInstants[rng.Intn(len(ancientInstants))]
		} else {
			l.NotOnOrAfter = fmtTS(now.Add(farPast(rng)))
		}
	case 1:
		expiry = "unparseable"
		l.NotOnOrAfter = badTimestamps[rng.Intn(len(badTimestamps))]
	case 2:
		expiry = "future"
		l.NotOnOrAfter = fmtTS(now.Add(farFuture(rng)))
	default:
		l.NotOnOrAfter = ""
	}
	switch rng.Intn(8) {
	case 0:
		registered = false
		l.Issuer = "https://unknown-" + randHex(rng, 3) + ".example/metadata"
	case 1:
		registered = false
		l.Issuer = ""
		l.NoIssuer = rng.Intn(2) == 0
	}
	if !registered && rng.Intn(2) == 0 {
		// nobody (or a stranger) is named as Issuer while a registered service provider is named elsewhere in the request
		switch rng.Intn(3) {
		case 0:
			l.SPNameQualifier = d.EntityID
		case 1:
			l.NameQualifier = d.EntityID
		default:
			l.SPNameQualifier, l.NameQualifier = d.EntityID, d.EntityID
		}
		if rng.Intn(3) == 0 {
			l.NameID = d.EntityID
		}
		r.Count("unregistered_issuer_with_a_registered_entity_named_elsewhere", 1)
	}
	l.NoNameID = rng.Intn(5) == 0
	x := l.XML(rng)
	if rng.Intn(8) == 0 {
		decodable = false
		switch rng.Intn(4) {
		case 0:
			x = x[:len(x)*2/3]
		case 1:
			x = strings.Replace(x, "LogoutRequest", "LogoutRequestX", 1)
		case 2:
			x = "not xml at all"
		default:
			x = strings.Replace(x, spsim.NSP, "urn:example:wrong", 1)
		}
	}
	relay := utf8String(rng, 6)
	s := ssoSend{Path: env.PathSLO, Binding: []string{"redirect", "post"}[rng.Intn(2)], XML: x, HasRelay: rng.Intn(5) > 0, Relay: relay, Host: host}
	if s.Binding == "redirect" && rng.Intn(2) == 0 {
		s.Encoding = spsim.EncDeflate
	}
	// a RelayState pair as no encoder of net/url would write it: a raw semicolon (legal in a query, RFC 3986) or a
	// percent sign that starts no escape. A reply that is not Success is fine; a Success has to come with the value
	rawRelay := ""
	if decodable && rng.Intn(12) == 0 {
		rawRelay = []string{"a;b" + randHex(rng, 2), "v;w;x", "100%", "x%zz" + randHex(rng, 2), "%", "a%2", "50%25;" + randHex(rng, 2)}[rng.Intn(7)]
		s.HasRelay, s.RawTail = false, "RelayState="+rawRelay
		r.Count("raw_relay_state_pairs_sent", 1)
	}
	brokenStream := false
	if s.Binding == "redirect" && decodable && rng.Intn(10) == 0 {
		// the DEFLATE stream is damaged behind the blocks that carry the complete document: flushed but never finished,
		// or followed by a block of a reserved type - such a message does not decode
		raw := spsim.DeflateUnfinished([]byte(x))
		if rng.Intn(2) == 0 {
			raw = append(raw, 0x07, 0xff, 0xff) // BTYPE=11 (reserved)
		}
		s.rawSAMLRequest = spsim.B64(raw)
		decodable, brokenStream = false, true
	}
	call, _ := s.do(e)
	class := fmt.Sprintf("dec=%v|reg=%v|issued=%s|expiry=%s|n_slo=%d|%s|layout=%q", decodable, registered, issued, expiry, len(d.SLO), s.Binding, layout)
	if brokenStream {
		class += "|deflate_stream_damaged_behind_the_document"
	}
	desc := map[string]any{"class": class, "xml": clipS(x, 1500), "relay": relay, "slo": d.SLO, "host": host}
	viol := func(clause, reason string) {
		r.Violate(core.Violation{Clause: clause, Class: class, Reason: reason, Workload: wl, Index: idx, Case: desc, Observed: call.Describe()})
	}
	r.Eval(class)
	if call.Panic != "" {
		viol("panic", call.Panic)
		return
	}
	dd := call.D
	if dd.Msg == nil || dd.Msg.Root != "LogoutResponse" {
		viol("no_logout_response", fmt.Sprintf("status %d kind %s: %s", dd.Status, dd.Kind, dd.Err))
		return
	}
	m := dd.Msg
	slow := call.T1.Sub(call.T0) > 3*time.Second
	mustFail := !decodable || !registered || (issued == "future" && !slow) || (strings.HasPrefix(expiry, "passed") && !slow)
	if dd.Success() {
		r.Count("success_replies", 1)
		if mustFail {
			viol("success_for_invalid_request", "LogoutResponse Success although the request is "+class)
		}
	} else {
		r.Count("non_success_replies", 1)
		if m.StatusCode == "" {
			viol("no_status", "LogoutResponse without status code")
		}
	}
	if mustFail {
		r.Count("invalid_requests", 1)
	}
	// (a request whose parameters do not parse as a form may be refused before the message is looked at)
	if decodable && (rawRelay == "" || dd.Success()) {
		if !m.HasInResponse || m.InResponseTo != l.ID {
			viol("in_response_to", fmt.Sprintf("InResponseTo %q, request ID %q", m.InResponseTo, l.ID))
		}
		r.Count("echo_checked", 1)
	}
	if m.Issuer != wantIssuer {
		viol("issuer", fmt.Sprintf("Issuer %q, IdP entity ID %q", m.Issuer, wantIssuer))
	}
	// delivery
	switch dd.Kind {
	case "xml-body":
		r.Count("delivered_in_body", 1)
		if dd.Success() && registered && len(d.SLO) > 0 {
			viol("success_not_delivered_to_slo", "Success returned in the body although a SingleLogoutService is registered")
		}
	case "form":
		r.Count("delivered_by_form", 1)
		if !registered || !decodable || len(d.SLO) == 0 {
			viol("target_without_registration", "posted to "+dd.Target+" although no SingleLogoutService is known for the requester")
		} else if !onlyEncodes(d.SLO[0].Location, dd.Target) {
			viol("target_not_first_slo", fmt.Sprintf("form action %q, first registered SingleLogoutService %q", dd.Target, d.SLO[0].Location))
		}
		want := ""
		if s.HasRelay {
			want = relay
		}
		if rawRelay != "" {
			// accepted readings: the value with every well-formed escape decoded, or its part in front of the first
			// semicolon (HTML 4 allowed ';' as a pair separator)
			r.Count("raw_relay_state_pairs_answered_by_form", 1)
			if dd.Success() {
				r.Count("raw_relay_state_pairs_answered_with_success", 1)
				whole := lenientUnescape(rawRelay)
				part, _, _ := strings.Cut(rawRelay, ";")
				if dd.RelayState != whole && dd.RelayState != lenientUnescape(part) {
					viol("relay_state_changed", fmt.Sprintf("Success with RelayState field %q for a request whose RelayState pair was sent as %q", dd.RelayState, rawRelay))
				}
			}
		} else if (!dd.HasRelay && want != "") || normNL(dd.RelayState) != normNL(want) {
			// an absent field and an empty field are the same RelayState for the receiving party
			viol("relay_state_changed", fmt.Sprintf("RelayState field %q, request %q", dd.RelayState, want))
		}
		r.Count("relay_checked", 1)
	default:
		viol("unexpected_delivery", "LogoutResponse delivered as "+dd.Kind)
	}
	if idx < 6 {
		r.Sample("logout", map[string]any{"class": class, "status": m.StatusCode, "kind": dd.Kind, "target": dd.Target})
	}
}

// c13Registration checks that replies follow the CURRENT registration of the requester on a long-lived provider.
func c13Registration(r *core.Run, idx int, rng *rand.Rand) {
	const wl = "registration_changes"
	e := env.Static(env.Opts{})
	d := stdSP(0)
	loc := func(k int) string { return fmt.Sprintf("https://sp0.example/slo/v%d", k) }
	d.SLO = []spsim.SLO{{Binding: spsim.BindPost, Location: loc(0)}}
	mustRegister(e.W, d, "appA")
	other := stdSP(1)
	other.SLO = []spsim.SLO{{Binding: spsim.BindPost, Location: "https://sp1.example/slo"}}
	mustRegister(e.W, other, "appB")
	registered, cur := true, 0
	for k := 0; k < 8; k++ {
		switch rng.Intn(4) {
		case 0: // re-register with another location
			cur++
			d2 := *d
			d2.SLO = []spsim.SLO{{Binding: spsim.BindPost, Location: loc(cur)}, {Binding: spsim.BindPost, Location: loc(0) + "/old"}}
			mustRegister(e.W, &d2, "appA")
			registered = true
		case 1: // deregister
			e.W.RemoveSP(d.EntityID)
			registered = false
		}
		l := conformantLogout(rng, d)
		s := ssoSend{Path: env.PathSLO, Binding: []string{"redirect", "post"}[rng.Intn(2)], XML: l.XML(rng), HasRelay: true, Relay: "MKrelay"}
		call, _ := s.do(e)
		class := fmt.Sprintf("registration|registered=%v|version=%d|step=%d", registered, cur, k)
		desc := map[string]any{"step": k, "registered": registered, "current_location": loc(cur)}
		r.Eval(fmt.Sprintf("%s|%d", class, idx))
		r.Count("registration_sequence_requests", 1)
		viol := func(clause, reason string) {
			r.Violate(core.Violation{Clause: clause, Class: class, Reason: reason, Workload: wl, Index: idx, Case: desc, Observed: call.Describe()})
		}
		if call.Panic != "" {
			viol("panic", call.Panic)
			return
		}
		if !registered {
			if call.D.Success() {
				viol("success_for_deregistered_requester", "LogoutResponse Success although the Issuer is no longer registered")
			}
			if call.D.Kind == "form" {
				viol("target_without_registration", "posted to "+call.D.Target+" although the Issuer is no longer registered")
			}
			r.Count("deregistered_requests_checked", 1)
			continue
		}
		if call.D.Kind == "form" && !onlyEncodes(loc(cur), call.D.Target) {
			viol("target_not_current_registration", fmt.Sprintf("form action %q, currently registered first SingleLogoutService %q", call.D.Target, loc(cur)))
		}
		if !call.D.Success() {
			r.Count("registered_but_not_success", 1)
		}
		r.Count("reregistered_requests_checked", 1)
	}
}

// slowBody delivers the first part of a request body at once and the rest only after a given instant.
type slowBody struct {
	data  []byte
	cut   int
	until time.Time
	stage int // bytes delivered so far
}

func (b *slowBody) Read(p []byte) (int, error) {
	if b.stage >= len(b.data) {
		return 0, io.EOF
	}
	end := len(b.data)
	if b.stage < b.cut {
		end = b.cut // the first part is there at once
	} else if d := time.Until(b.until); d > 0 {
		time.Sleep(d) // the rest only after the instant
	}
	n := copy(p, b.data[b.stage:end])
	b.stage += n
	return n, nil
}

// c13SlowUpload: the body of a POST-binding LogoutRequest trickles in and is complete only after the request's
// NotOnOrAfter has passed. Whenever the handler looks at the clock after it has the request, the request has expired:
// it must not be answered with Success. (The control request, valid for another hour, must still succeed.)
func c13SlowUpload(r *core.Run, idx int, rng *rand.Rand) {
	const wl = "slow_upload"
	e := env.Static(env.Opts{})
	d := stdSP(rng.Intn(4))
	d.SLO = []spsim.SLO{{Binding: spsim.BindPost, Location: "https://sp.example/slo/" + plainString(rng, 4)}}
	mustRegister(e.W, d, "appA")
	expires := idx%4 != 3
	l := conformantLogout(rng, d)
	l.IssueInstant = tsFrac(time.Now().Add(-2*time.Second), 3)
	deadline := time.Now().Add(150 * time.Millisecond)
	if expires {
		l.NotOnOrAfter = deadline.UTC().Format("2006-01-02T15:04:05.000000Z")
	} else {
		l.NotOnOrAfter = tsFrac(time.Now().Add(time.Hour), 0)
	}
	body := spsim.FormBody("SAMLRequest", spsim.B64([]byte(l.XML(rng))), "RelayState", "MKrelay")
	sb := &slowBody{data: []byte(body), cut: len(body) - 8, until: deadline.Add(120 * time.Millisecond)}
	call := e.Do(env.Req{Method: "POST", Path: env.PathSLO, BodyReader: sb, BodyLen: int64(len(body)), Body: "", CT: "application/x-www-form-urlencoded"})
	class := fmt.Sprintf("slow_upload|expires_during_upload=%v", expires)
	r.Eval(fmt.Sprintf("%s|%d", class, idx))
	r.Count("slow_uploads", 1)
	desc := map[string]any{"not_on_or_after": l.NotOnOrAfter, "body_complete_not_before": sb.until.UTC().Format(time.RFC3339Nano), "call_ended": call.T1.UTC().Format(time.RFC3339Nano)}
	viol := func(clause, reason string) {
		r.Violate(core.Violation{Clause: clause, Class: class, Reason: reason, Workload: wl, Index: idx, Case: desc, Observed: call.Describe()})
	}
	if call.Panic != "" {
		viol("panic", call.Panic)
		return
	}
	if expires && call.D.Success() {
		viol("success_for_invalid_request", "LogoutResponse Success although NotOnOrAfter ("+l.NotOnOrAfter+") had passed before the request was even received completely")
	}
	if expires && !call.D.Success() {
		r.Count("expired_during_upload_refused", 1)
	}
	if !expires && !call.D.Success() {
		viol("valid_request_refused", fmt.Sprintf("a slowly uploaded request that is valid for another hour was not answered with Success (status %d)", call.D.Status))
	}
}

// c13BrokenUpload: the upload of a POST-binding LogoutRequest breaks off (IO error) somewhere behind the complete
// SAMLRequest parameter, inside the RelayState. A provider that answers such a request with Success has to return the
// RelayState the service provider sent - which it cannot know; refusing is the only correct reply besides an error.
func c13BrokenUpload(r *core.Run, idx int, rng *rand.Rand) {
	const wl = "broken_upload"
	e := env.Static(env.Opts{})
	d := stdSP(rng.Intn(4))
	d.SLO = []spsim.SLO{{Binding: spsim.BindPost, Location: "https://sp.example/slo/" + plainString(rng, 4)}}
	mustRegister(e.W, d, "appA")
	l := conformantLogout(rng, d)
	relay := "MKrelay-" + plainString(rng, 30) + "%25&+=" + plainString(rng, 10)
	order := idx%2 == 0
	var body string
	msg := "SAMLRequest=" + url.QueryEscape(spsim.B64([]byte(l.XML(rng))))
	if order {
		body = msg + "&RelayState=" + url.QueryEscape(relay)
	} else {
		body = "RelayState=" + url.QueryEscape(relay) + "&" + msg
	}
	// cut somewhere inside the last parameter's value
	last := strings.LastIndex(body, "=") + 1
	cut := last + 1 + rng.Intn(len(body)-last-1)
	fb := &failingBody{data: []byte(body), n: cut, err: []error{io.ErrUnexpectedEOF, errors.New("read tcp: connection reset by peer")}[rng.Intn(2)]}
	call := e.Do(env.Req{Method: "POST", Path: env.PathSLO, BodyReader: fb, BodyLen: int64(len(body)), CT: "application/x-www-form-urlencoded"})
	class := fmt.Sprintf("broken_upload|relay_state_last=%v", order)
	r.Eval(fmt.Sprintf("%s|%d", class, idx))
	r.Count("broken_uploads", 1)
	desc := map[string]any{"body_bytes": len(body), "delivered": cut, "relay_state_sent": relay}
	if call.Panic != "" {
		r.Violate(core.Violation{Clause: "panic", Class: class, Reason: call.Panic, Workload: wl, Index: idx, Case: desc, Observed: call.Describe()})
		return
	}
	if call.D.Success() && (!call.D.HasRelay || normNL(call.D.RelayState) != normNL(relay)) {
		r.Violate(core.Violation{Clause: "relay_state_changed", Class: class, Reason: fmt.Sprintf("Success for a request whose upload broke off after %d of %d bytes; RelayState returned %q, RelayState the service provider sent %q", cut, len(body), call.D.RelayState, relay), Workload: wl, Index: idx, Case: desc, Observed: call.Describe()})
	}
	if !call.D.Success() {
		r.Count("broken_uploads_refused", 1)
	}
}

func init() {
	register(&Prop{
		ID: "C13", Level: "exploration", DeathIsViolation: true,
		TimeoutQuick: 5 * time.Minute, TimeoutThorough: 30 * time.Minute,
		Build: func(c *Ctx) []core.Workload {
			r := c.Run
			r.Rule = "logout requests with labelled validity (decodable or not, Issuer registered / unregistered / empty, IssueInstant past / future / absent / unparseable by seconds to years in several lexical forms, NotOnOrAfter absent / passed / future / unparseable), optional NameID / SessionIndex, RelayState over valid UTF-8 without NUL incl. control characters and markup, both transport encodings, SPs with 0-3 SingleLogoutService entries with hostile URLs, static and host-derived issuers, all time layouts. Monitor: Success only for valid requests (bracket semantics), InResponseTo echo when decodable, Issuer = entity ID for the Host, target = first registered SingleLogoutService (only-encodes) or body, RelayState unchanged (modulo CR/CRLF->LF). Instants are also written with numeric zone offsets. A second workload keeps ONE provider alive while the requester is re-registered with other locations or deregistered: every reply must follow the current registration. Distinct = label tuple."
			r.Assume("absent or unparseable IssueInstant / NotOnOrAfter are not judged (rejecting them is allowed, accepting an absent one too)")
			r.Require("success_replies", 50)
			r.Require("invalid_requests", 100)
			r.Require("echo_checked", 200)
			r.Require("relay_checked", 50)
			r.Require("delivered_in_body", 50)
			r.Require("deregistered_requests_checked", 100)
			r.Require("reregistered_requests_checked", 100)
			r.Require("tenant_sequence_requests", 100)
			r.Require("slow_uploads", 30)
			r.Require("broken_uploads", 100)
			return []core.Workload{
				{Name: "logout_requests", N: c.Pick(1200, 12000), Fn: c13Case},
				{Name: "registration_changes", N: c.Pick(150, 1500), Fn: c13Registration},
				{Name: "slow_upload", N: c.Pick(32, 160), Fn: c13SlowUpload},
				{Name: "broken_upload", N: c.Pick(120, 1200), Fn: c13BrokenUpload},
				{Name: "tenant_sequences", N: c.Pick(120, 1200), Fn: func(r *core.Run, idx int, rng *rand.Rand) {
					tenantSequence(r, "tenant_sequences", idx, rng, true, false)
				}},
			}
		},
	})
}
