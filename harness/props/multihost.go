package props

import (
	"fmt"
	"math/rand"
	"runtime"
	"sync"
	"sync/atomic"
	"time"

	"github.com/zitadel/saml/pkg/provider"

	"verif/harness/core"
	"verif/harness/env"
	"verif/harness/spsim"
)

// multiHostSequence drives ONE provider (host-derived issuer) with a sequence of requests under
// several hosts. Anything the provider remembers between requests (caches of metadata, service
// providers, issuers) must not make a later request see another issuer's locations.
//
// mismatch=false: every request is conformant and addressed to the location advertised for ITS host
// (C07: must be accepted). mismatch=true: some requests carry the location of ANOTHER host as
// Destination (C06: must not be accepted).
func multiHostSequence(r *core.Run, wl string, idx int, rng *rand.Rand, mismatch bool) {
	o := env.Opts{HostPath: "/saml"}
	metaMode := rng.Intn(3)
	switch metaMode {
	case 1: // metadata endpoint with a fixed external URL (the entity ID is then the same for all hosts)
		m := provider.NewEndpointWithURL("/metadata", "https://entity.idp.example/saml/metadata")
		o.Metadata = &m
	case 2:
		o.UseFwd = true
	}
	e, err := env.New(o)
	if err != nil {
		panic(err)
	}
	sp := stdSP(0)
	sp.AuthnRequestsSigned = ""
	mustRegister(e.W, sp, "appA")
	u := randUser(rng, fmt.Sprintf("U_MK%dx", idx), false)
	e.W.AddUser(u)
	hosts := []string{"one.idp.example", "two.idp.example:8443", "three.example"}
	steps := 6 + rng.Intn(5)
	for k := 0; k < steps; k++ {
		h := hosts[rng.Intn(len(hosts))]
		dh := h
		if mismatch && k > 0 && rng.Intn(2) == 0 {
			for dh == h {
				dh = hosts[rng.Intn(len(hosts))]
			}
		}
		reqHost, hdr := h, map[string][]string(nil)
		if metaMode == 2 {
			reqHost, hdr = "lb.internal", map[string][]string{"Forwarded": {"host=\"" + h + "\""}}
		}
		kind := []string{"authn", "authn", "query"}[rng.Intn(3)]
		class := fmt.Sprintf("multi_host|%s|meta=%d|step=%d|mismatch=%v", kind, metaMode, k, dh != h)
		var call *env.Call
		accepted := false
		desc := map[string]any{"step": k, "host": h, "destination_host": dh, "kind": kind, "metadata_mode": metaMode}
		switch kind {
		case "authn":
			a := validAuthn(rng, sp)
			a.Destination = "https://" + dh + "/saml/SSO"
			s := ssoSend{Binding: []string{"redirect", "post"}[rng.Intn(2)], XML: a.XML(rng), Host: reqHost}
			s.hdr = hdr
			call, _ = s.do(e)
			accepted = call.Accepted()
		case "query":
			q := conformantQuery(rng, sp, u.Username)
			q.Destination = "https://" + dh + "/saml/attribute"
			call = e.Do(env.Req{Method: "POST", Path: env.PathAttr, Body: q.XML(rng), CT: "text/xml", Host: reqHost, Headers: hdr})
			accepted = call.D.Success()
		}
		r.Eval(fmt.Sprintf("%s|%d|%s|%s", class, idx, h, dh))
		r.Count("multi_host_requests", 1)
		if call.Panic != "" {
			r.Violate(core.Violation{Clause: "panic", Class: class, Reason: call.Panic, Workload: wl, Index: idx, Case: desc, Observed: call.Describe()})
			return
		}
		if dh == h && !accepted && !mismatch {
			r.Violate(core.Violation{Clause: "conformant_request_rejected_after_other_host", Class: class, Reason: fmt.Sprintf("step %d: a conformant %s addressed to the location advertised for host %s was not accepted (status %d %s)", k, kind, h, call.D.Status, clipS(string(call.D.Body), 120)), Workload: wl, Index: idx, Case: desc, Observed: call.Describe()})
			return
		}
		if dh != h && accepted {
			r.Violate(core.Violation{Clause: "destination_of_other_issuer_accepted", Class: class, Reason: fmt.Sprintf("step %d: a %s sent to host %s with the Destination advertised for host %s was accepted", k, kind, h, dh), Workload: wl, Index: idx, Case: desc, Observed: call.Describe()})
			return
		}
		if dh != h {
			r.Count("multi_host_mismatches_refused", 1)
		} else if accepted {
			r.Count("multi_host_accepted", 1)
		}
	}
}

// multiHostConcurrent is multiHostSequence with the hosts' requests in flight at the same time: six clients, two
// per host, on one provider, with short sleeps inside the storage calls (the points where a handler is suspended
// between building its metadata and checking the request against it).
func multiHostConcurrent(r *core.Run, wl string, idx int, rng *rand.Rand, mismatch bool) {
	o := env.Opts{HostPath: "/saml"}
	metaMode := rng.Intn(3)
	switch metaMode {
	case 1:
		m := provider.NewEndpointWithURL("/metadata", "https://entity.idp.example/saml/metadata")
		o.Metadata = &m
	case 2:
		o.UseFwd = true
	}
	if rng.Intn(2) == 0 {
		o.MetaSigAlg = spsim.AlgRSASHA256
	}
	e, err := env.New(o)
	if err != nil {
		panic(err)
	}
	sp := stdSP(0)
	sp.AuthnRequestsSigned = ""
	mustRegister(e.W, sp, "appA")
	u := randUser(rng, fmt.Sprintf("U_MK%dx", idx), false)
	e.W.AddUser(u)
	var dctr atomic.Int64
	e.W.Delay = func(op string) {
		switch n := dctr.Add(1); n % 4 {
		case 0:
			runtime.Gosched()
		case 1:
			time.Sleep(time.Duration(20+n%200) * time.Microsecond)
		case 2:
			time.Sleep(time.Duration(200+n%800) * time.Microsecond)
		}
	}
	hosts := []string{"one.idp.example", "two.idp.example:8443", "three.example"}
	var wg sync.WaitGroup
	for g := 0; g < 6; g++ {
		wg.Add(1)
		seed := rng.Int63()
		go func(g int) {
			defer wg.Done()
			lr := rand.New(rand.NewSource(seed))
			h := hosts[g%len(hosts)]
			for k := 0; k < 10; k++ {
				dh := h
				if mismatch && lr.Intn(2) == 0 {
					for dh == h {
						dh = hosts[lr.Intn(len(hosts))]
					}
				}
				reqHost, hdr := h, map[string][]string(nil)
				if metaMode == 2 {
					reqHost, hdr = "lb.internal", map[string][]string{"Forwarded": {"host=\"" + h + "\""}}
				}
				kind := []string{"authn", "authn", "query", "metadata"}[lr.Intn(4)]
				class := fmt.Sprintf("multi_host_concurrent|%s|meta=%d|mismatch=%v", kind, metaMode, dh != h)
				desc := map[string]any{"client": g, "step": k, "host": h, "destination_host": dh, "kind": kind, "metadata_mode": metaMode}
				var call *env.Call
				accepted := false
				switch kind {
				case "authn":
					a := validAuthn(lr, sp)
					a.Destination = "https://" + dh + "/saml/SSO"
					s := ssoSend{Binding: []string{"redirect", "post"}[lr.Intn(2)], XML: a.XML(lr), Host: reqHost}
					s.hdr = hdr
					call, _ = s.do(e)
					accepted = call.Accepted()
				case "query":
					q := conformantQuery(lr, sp, u.Username)
					q.Destination = "https://" + dh + "/saml/attribute"
					call = e.Do(env.Req{Method: "POST", Path: env.PathAttr, Body: q.XML(lr), CT: "text/xml", Host: reqHost, Headers: hdr})
					accepted = call.D.Success()
				default: // a metadata request of this host in between (it rebuilds the descriptors for its issuer)
					e.Do(env.Req{Path: env.PathMetadata, Host: reqHost, Headers: hdr})
					continue
				}
				r.Eval(fmt.Sprintf("%s|%d|%d|%d", class, idx, g, k))
				r.Count("multi_host_concurrent_requests", 1)
				switch {
				case call.Panic != "":
					r.Violate(core.Violation{Clause: "panic", Class: class, Reason: call.Panic, Workload: wl, Index: idx, Case: desc, Observed: call.Describe()})
					return
				case dh == h && !accepted && !mismatch:
					r.Violate(core.Violation{Clause: "conformant_request_rejected_while_other_hosts_are_served", Class: class, Reason: fmt.Sprintf("a conformant %s addressed to the location advertised for host %s was not accepted (status %d %s)", kind, h, call.D.Status, clipS(string(call.D.Body), 120)), Workload: wl, Index: idx, Case: desc, Observed: call.Describe()})
					return
				case dh != h && accepted:
					r.Violate(core.Violation{Clause: "destination_of_other_issuer_accepted", Class: class, Reason: fmt.Sprintf("a %s sent to host %s with the Destination advertised for host %s was accepted while requests for other hosts were in flight", kind, h, dh), Workload: wl, Index: idx, Case: desc, Observed: call.Describe()})
					return
				case dh != h:
					r.Count("multi_host_concurrent_mismatches_refused", 1)
				case accepted:
					r.Count("multi_host_concurrent_accepted", 1)
				}
			}
		}(g)
	}
	wg.Wait()
}

var _ = spsim.BindPost
