package props

import (
	"bytes"
	"compress/flate"
	"compress/gzip"
	"compress/zlib"
	"encoding/base64"
	"fmt"
	"io"
	"math/rand"
	"net/http"
	"net/url"
	"reflect"
	"regexp"
	"runtime"
	"strings"
	"sync"
	"time"

	"github.com/sirupsen/logrus"
	"github.com/zitadel/logging"

	"github.com/zitadel/saml/pkg/provider"
	"github.com/zitadel/saml/pkg/provider/serviceprovider"
	"verif/harness/core"
	"verif/harness/env"
	"verif/harness/reply"
	"verif/harness/sim"
	"verif/harness/spsim"
)

// C14 — decompression of request payloads is bounded.

// bomb builds base64(deflate(prefix + pad*n + suffix)) without materialising the inflated data.
func bomb(prefix, suffix string, padByte byte, n int64) string {
	return bombIn("raw", prefix, suffix, padByte, n)
}

// bombIn wraps the DEFLATE stream in the given container: raw | zlib | gzip.
func bombIn(container, prefix, suffix string, padByte byte, n int64) string {
	var buf bytes.Buffer
	enc := base64.NewEncoder(base64.StdEncoding, &buf)
	var w io.WriteCloser
	switch container {
	case "zlib":
		w, _ = zlib.NewWriterLevel(enc, 6)
	case "gzip":
		w, _ = gzip.NewWriterLevel(enc, 6)
	default:
		w, _ = flate.NewWriter(enc, 6)
	}
	_, _ = w.Write([]byte(prefix))
	chunk := bytes.Repeat([]byte{padByte}, 1<<20)
	var noise *rand.Rand
	if container == "noisy" {
		// padding that compresses less well (about 20:1 instead of 1000:1): the request itself is megabytes long
		noise = rand.New(rand.NewSource(n))
	}
	written := int64(0)
	for n > 0 {
		k := int64(len(chunk))
		if k > n {
			k = n
		}
		if noise != nil {
			for i := 0; i < len(chunk); i += 64 {
				chunk[i] = "0123456789abcdef"[noise.Intn(16)]
			}
		}
		_, _ = w.Write(chunk[:k])
		n -= k
		if written += k; container == "multi" && written%(8<<20) == 0 && n > 0 {
			// several complete DEFLATE streams back to back, each inflating to 8 MiB
			_ = w.Close()
			w, _ = flate.NewWriter(enc, 6)
		}
	}
	_, _ = w.Write([]byte(suffix))
	_ = w.Close()
	_ = enc.Close()
	return buf.String()
}

type c14Result struct {
	Size     int64
	Place    string
	Endpoint string
	Valid    bool
	Param    int
	Delta    uint64
	HeapSys  uint64
	Accepted bool
	Status   int
	Millis   int64
}

func c14Run(r *core.Run, idx int, rng *rand.Rand) {
	const wl = "bombs"
	thorough := r.Tier == "thorough"
	// (36 MiB: just above what is judged as "must not be accepted", and with a run of one byte still below 40 kB deflated)
	sizes := []int64{1 << 20, 4 << 20, 16 << 20, 36 << 20, 64 << 20, 256 << 20}
	if thorough {
		sizes = append(sizes, 1<<30)
	}
	type variant struct {
		place, endpoint string
		valid           bool
		keyFault        bool // the key storage fails while the request is served
		debugLog        bool // the process-wide log level is "trace" while the request is served
		busy            bool // other clients keep sending small DEFLATE requests to the same provider meanwhile
	}
	var variants []variant
	for _, ep := range []string{"sso_query", "sso_form", "logout_query", "logout_form"} {
		for _, pl := range []string{"comment", "text", "attribute", "after_root"} {
			variants = append(variants, variant{pl, ep, true, false, false, false})
		}
	}
	variants = append(variants, variant{"comment", "sso_query", false, false, false, false}, variant{"text", "logout_query", false, false, false, false}, variant{"garbage", "sso_query", false, false, false, false}, variant{"garbage", "logout_form", false, false, false, false})
	// padding in front of the root element; and bombs that arrive while the key storage is failing (error paths
	// look at the message too)
	variants = append(variants, variant{"before_root", "sso_query", true, false, false, false}, variant{"before_root", "logout_form", true, false, false, false},
		variant{"before_root", "sso_query", true, true, false, false}, variant{"attribute", "sso_form", true, true, false, false}, variant{"text", "logout_query", true, true, false, false}, variant{"comment/zlib", "sso_query", true, true, false, false})
	// other containers around the same DEFLATE data (what zlib / gzip producing peers send)
	variants = append(variants, variant{"comment/zlib", "sso_query", true, false, false, false}, variant{"after_root/zlib", "logout_form", true, false, false, false}, variant{"text/gzip", "sso_form", true, false, false, false}, variant{"comment/gzip", "logout_query", true, false, false, false})
	// the same data as many complete DEFLATE streams back to back, each one small (a decoder may stop after the first
	// stream or read them all: either way what it materialises is bounded; acceptance is not judged for these)
	variants = append(variants, variant{"comment/multi", "sso_query", true, false, false, false}, variant{"text/multi", "logout_form", true, false, false, false}, variant{"after_root/multi", "sso_form", true, false, false, false})
	variants = append(variants, variant{"comment", "logout_query", true, false, false, true}, variant{"text", "sso_query", true, false, false, true})
	variants = append(variants, variant{"utf16", "logout_query", false, false, false, false}, variant{"utf16", "sso_form", false, false, false, false})
	// requests that are megabytes long themselves (padding that compresses about 20:1), which only a form can carry
	variants = append(variants, variant{"after_root/noisy", "sso_form", true, false, false, false}, variant{"comment/noisy", "logout_form", true, false, false, false}, variant{"text/noisy", "sso_form", true, false, false, false})
	// verbose logging switched on at run time (what gets logged about a request must be bounded too); other methods
	// than GET and POST on the same routes (the form parser reads the query for all of them, the body for PUT / PATCH)
	variants = append(variants, variant{"comment", "sso_query", true, false, true, false}, variant{"text", "logout_form", true, false, true, false}, variant{"attribute/zlib", "sso_form", true, false, true, false})
	variants = append(variants, variant{"comment", "sso_query:HEAD", true, false, false, false}, variant{"text", "sso_form:PUT", true, false, false, false}, variant{"attribute", "sso_form:PATCH", true, false, false, false},
		variant{"comment", "logout_query:DELETE", true, false, false, false}, variant{"after_root", "logout_form:PUT", true, false, false, false})
	if !thorough {
		// quick: every endpoint with two placements, every placement on two endpoints
		keep := map[string]bool{"sso_query/comment": true, "sso_query/attribute": true, "sso_form/text": true, "sso_form/after_root": true,
			"logout_query/comment": true, "logout_query/text": true, "logout_form/attribute": true, "logout_form/after_root": true}
		var v2 []variant
		for _, v := range variants {
			if keep[v.endpoint+"/"+v.place] || !v.valid || strings.Contains(v.place, "/") || v.keyFault || v.debugLog || strings.Contains(v.endpoint, ":") || v.place == "before_root" || v.place == "utf16" || v.busy {
				v2 = append(v2, v)
			}
		}
		variants = v2
	}
	e := env.Static(env.Opts{})
	e.W.NoLog = true
	sp := stdSP(0)
	mustRegister(e.W, sp, "appA")
	c14GenerousNeighbour(r, rng)
	stop := false
	var results []c14Result
	for _, v := range variants {
		if stop {
			break
		}
		var deltas = map[int64]uint64{}
		for _, size := range sizes {
			if stop {
				break
			}
			if v.busy && size < 32<<20 {
				continue // only acceptance is judged beside busy clients
			}
			if strings.HasSuffix(v.place, "/noisy") && size != 36<<20 && size != 64<<20 {
				continue // net/http reads at most 10 MB of a form
			}
			// the message
			var prefix, suffix string
			pad := byte(' ')
			isLogout := strings.HasPrefix(v.endpoint, "logout")
			var doc string
			if isLogout {
				l := conformantLogout(rng, sp)
				l.Style = spsim.Style{PfxP: "samlp", PfxA: "saml"}
				doc = l.XML(rng)
			} else {
				a := validAuthn(rng, sp)
				a.Style = spsim.Style{PfxP: "samlp", PfxA: "saml"}
				doc = a.XML(rng)
			}
			if !v.valid {
				doc = strings.Replace(doc, `Version="2.0"`, `Version=""`, 1)
			}
			gt := strings.Index(doc, ">")
			place, container := v.place, "raw"
			if i := strings.IndexByte(place, '/'); i >= 0 {
				place, container = place[:i], place[i+1:]
			}
			switch place {
			case "comment":
				prefix, suffix = doc[:gt+1]+"<!--", "-->"+doc[gt+1:]
			case "text":
				prefix, suffix = doc[:gt+1], doc[gt+1:]
			case "attribute":
				prefix, suffix = doc[:gt]+` ProviderName="`, `"`+doc[gt:]
				pad = 'A'
			case "after_root":
				prefix, suffix = doc, ""
			case "before_root":
				at := 0
				if strings.HasPrefix(doc, "<?xml") {
					at = strings.Index(doc, "?>") + 2
				}
				prefix, suffix = doc[:at]+"<!--", "-->"+doc[at:]
			case "garbage":
				prefix, suffix, pad = "", "", 0
			case "utf16":
				// the inflated data starts with a UTF-16 byte order mark (what a decoder that converts encodings looks at)
				prefix, suffix, pad = "\xff\xfe<\x00!\x00-\x00-\x00", "-\x00-\x00>\x00", 0
			}
			param := bombIn(container, prefix, suffix, pad, size)
			var rq env.Req
			epName, method := v.endpoint, ""
			if i := strings.IndexByte(epName, ':'); i >= 0 {
				epName, method = epName[:i], epName[i+1:]
			}
			switch epName {
			case "sso_query":
				rq = env.Req{Path: env.PathSSO, Query: "SAMLRequest=" + url.QueryEscape(param)}
			case "sso_form":
				rq = env.Req{Method: "POST", Path: env.PathSSO, Body: "SAMLEncoding=" + url.QueryEscape(spsim.EncDeflate) + "&SAMLRequest=" + url.QueryEscape(param)}
			case "logout_query":
				rq = env.Req{Path: env.PathSLO, Query: "SAMLRequest=" + url.QueryEscape(param)}
			case "logout_form":
				rq = env.Req{Method: "POST", Path: env.PathSLO, Body: "SAMLEncoding=" + url.QueryEscape(spsim.EncDeflate) + "&SAMLRequest=" + url.QueryEscape(param)}
			}
			if method != "" {
				rq.Method = method
			}
			if v.debugLog {
				logging.SetLevel(logrus.TraceLevel)
			}
			e.W.Plan = nil
			if v.keyFault {
				e.W.Plan = func(tag, op string, occ int) string {
					if op == "GetResponseSigningKey" || op == "GetMetadataSigningKey" {
						return "error"
					}
					return ""
				}
			}
			stopBusy := func() {}
			if v.busy {
				// eight other clients keep sending small, valid DEFLATE requests while the bomb is inflated
				quit := make(chan struct{})
				var bwg sync.WaitGroup
				small := "SAMLRequest=" + url.QueryEscape(spsim.DeflateB64(conformantLogout(rng, sp).XML(rng)))
				for g := 0; g < 8; g++ {
					bwg.Add(1)
					go func() {
						defer bwg.Done()
						for {
							select {
							case <-quit:
								return
							default:
							}
							e.Do(env.Req{Path: env.PathSLO, Query: small})
						}
					}()
				}
				time.Sleep(5 * time.Millisecond)
				stopBusy = func() { close(quit); bwg.Wait() }
			}
			runtime.GC()
			var m0, m1 runtime.MemStats
			runtime.ReadMemStats(&m0)
			t0 := time.Now()
			call := e.Do(rq)
			ms := time.Since(t0).Milliseconds()
			runtime.ReadMemStats(&m1)
			stopBusy()
			if v.debugLog {
				logging.SetLevel(logrus.InfoLevel)
			}
			res := c14Result{Size: size, Place: v.place, Endpoint: v.endpoint, Valid: v.valid, Param: len(param), Delta: m1.TotalAlloc - m0.TotalAlloc, HeapSys: m1.HeapSys, Status: call.D.Status, Millis: ms}
			res.Accepted = call.Accepted() || (call.D.Msg != nil && call.D.Success())
			results = append(results, res)
			deltas[size] = res.Delta
			class := fmt.Sprintf("%s|%s|valid=%v|%dMiB", v.endpoint, v.place, v.valid, size>>20)
			if v.debugLog {
				class += "|verbose_logging"
				r.Count("payloads_with_verbose_logging", 1)
			}
			if v.busy {
				class += "|other_clients_busy"
				r.Count("payloads_beside_busy_clients", 1)
			}
			if v.keyFault {
				class += "|key_storage_fault"
				r.Count("payloads_during_key_storage_fault", 1)
			}
			desc := map[string]any{"endpoint": v.endpoint, "padding": v.place, "inflated_bytes": size, "parameter_bytes": len(param), "allocated_bytes": res.Delta, "millis": ms, "status": call.D.Status}
			r.Eval(class)
			r.Count("payloads", 1)
			if !v.busy {
				r.Max("max_total_alloc_delta_MiB", int64(res.Delta>>20))
			}
			r.Max("max_heap_sys_MiB", int64(res.HeapSys>>20))
			r.Max("max_millis", ms)
			if call.Panic != "" {
				r.Violate(core.Violation{Clause: "panic", Class: class, Reason: call.Panic, Workload: wl, Index: idx, Case: desc})
				stop = true
				break
			}
			if res.Delta > 512<<20 && !v.busy {
				r.Violate(core.Violation{Clause: "allocation_ceiling", Class: class, Reason: fmt.Sprintf("one request of %d bytes allocated %d MiB (ceiling 512 MiB)", len(param), res.Delta>>20), Workload: wl, Index: idx, Case: desc})
				stop = true
			}
			if size >= 32<<20 && res.Accepted && container != "multi" {
				r.Violate(core.Violation{Clause: "bomb_accepted", Class: class, Reason: fmt.Sprintf("a payload inflating to %d MiB was accepted", size>>20), Workload: wl, Index: idx, Case: desc})
			}
			if size >= 256<<20 && !v.busy {
				if base, ok := deltas[64<<20]; ok {
					r.Count("flatness_comparisons", 1)
					if float64(res.Delta) > 1.5*float64(base)+16*(1<<20) {
						r.Violate(core.Violation{Clause: "allocation_grows_with_inflated_size", Class: class, Reason: fmt.Sprintf("%d MiB bomb allocated %d MiB, the 64 MiB bomb %d MiB: cost depends on the inflated size beyond any cap", size>>20, res.Delta>>20, base>>20), Workload: wl, Index: idx, Case: desc})
						stop = true
					}
				}
			}
		}
	}
	var smp []any
	for i, x := range results {
		if i%5 == 4 || i < 5 {
			smp = append(smp, x)
		}
	}
	r.Extra("measurements", results)
	r.Sample("measurements", smp)
}

func init() {
	register(&Prop{
		ID: "C14", Level: "exploration", DeathIsViolation: true,
		TimeoutQuick: 10 * time.Minute, TimeoutThorough: 40 * time.Minute,
		Build: func(c *Ctx) []core.Workload {
			r := c.Run
			r.Rule = "DEFLATE payloads inflating to 1, 4, 16, 36, 64, 256 MiB (thorough: + 1 GiB) with the padding in a comment, in text, in an attribute value, in front of or after the root element or as pure garbage, also while the key storage is failing, while the log level is switched to trace, and with the methods HEAD / PUT / PATCH / DELETE, as raw DEFLATE, inside zlib / gzip containers and as many complete DEFLATE streams of 8 MiB back to back, inside otherwise valid and invalid AuthnRequests / LogoutRequests, sent to the SSO endpoint by query and by form and to the logout endpoint by query and by form; strictly sequential in a dedicated child process. Monitor: runtime.MemStats.TotalAlloc delta around one ServeHTTP (ceiling 512 MiB), flatness (256 MiB / 1 GiB bombs may cost at most 1.5 x the 64 MiB bomb + 16 MiB), payloads inflating to >= 32 MiB not accepted. Sizes ascend and the run stops at the first ceiling/flatness violation. Distinct = (endpoint, placement, validity, size)."
			r.Assume("TotalAlloc (cumulative allocation) is measured, not resident memory; thresholds are loose so that any reasonable cap (8-32 MiB) passes")
			r.Require("payloads", int64(c.Pick(100, 190)))
			r.Require("payloads_during_key_storage_fault", 10)
			r.Require("flatness_comparisons", int64(c.Pick(10, 40)))
			return []core.Workload{{Name: "bombs", N: 1, Workers: 1, Fn: c14Run}}
		},
	})
}

var limitLikeName = regexp.MustCompile(`(?i)(max|limit|size|bytes|inflat|length)`)

// maximiseLimits sets every integer field of the struct whose name sounds like a limit (Max…, …Limit, …Size, …Bytes)
// to a very generous value and reports how many it found. Durations are left alone.
func maximiseLimits(v reflect.Value) int {
	for v.Kind() == reflect.Ptr {
		if v.IsNil() {
			return 0
		}
		v = v.Elem()
	}
	if v.Kind() != reflect.Struct {
		return 0
	}
	n := 0
	for i := 0; i < v.NumField(); i++ {
		f, ft := v.Field(i), v.Type().Field(i)
		if !f.CanSet() {
			continue
		}
		switch f.Kind() {
		case reflect.Int, reflect.Int32, reflect.Int64:
			if ft.Type.Name() != "Duration" && limitLikeName.MatchString(ft.Name) {
				f.SetInt(1 << 30)
				n++
			}
		case reflect.Uint, reflect.Uint32, reflect.Uint64:
			if limitLikeName.MatchString(ft.Name) {
				f.SetUint(1 << 30)
				n++
			}
		case reflect.Ptr, reflect.Struct:
			n += maximiseLimits(f)
		}
	}
	return n
}

// c14GenerousNeighbour: another identity provider lives in the same process, configured - like one of its service
// providers - with the most generous limits its configuration offers (whatever integer fields named like a limit the
// configuration structs of this tree have; none on the unchanged tree), and has served a request on each inflating
// endpoint. The bound of the provider under test is its own.
func c14GenerousNeighbour(r *core.Run, rng *rand.Rand) {
	w := sim.NewWorld()
	w.NoLog = true
	idpc := &provider.IdentityProviderConfig{SignatureAlgorithm: spsim.AlgRSASHA256, MetadataIDPConfig: &provider.MetadataIDPConfig{}}
	conf := &provider.Config{IDPConfig: idpc, MetadataConfig: &provider.MetadataConfig{}}
	found := maximiseLimits(reflect.ValueOf(conf))
	p, err := provider.NewProvider(w, provider.StaticIssuer("https://generous.idp.example/saml"), conf)
	if err != nil {
		r.Count("generous_neighbour_not_built", 1)
		return
	}
	d := stdSP(2)
	spConf := &serviceprovider.Config{Metadata: d.XML()}
	found += maximiseLimits(reflect.ValueOf(spConf))
	if spr, err := serviceprovider.NewServiceProvider("generous-app", spConf, w.LoginURL); err == nil {
		w.PutSP(spr, "generous-app")
	}
	r.Count("limit_like_configuration_fields_maximised_on_the_neighbour", int64(found))
	h := p.HttpHandler()
	a := validAuthn(rng, d)
	a.Destination = ""
	l := conformantLogout(rng, d)
	for _, rq := range []struct{ path, x string }{{env.PathSSO, a.XML(rng)}, {env.PathSLO, l.XML(rng)}} {
		req, _ := http.NewRequest("GET", rq.path+"?SAMLRequest="+url.QueryEscape(spsim.DeflateB64(rq.x)), nil)
		req.Host = "generous.idp.example"
		func() {
			defer func() { _ = recover() }()
			h.ServeHTTP(reply.NewRecorder(), req)
		}()
	}
	r.Count("generous_neighbour_requests", 2)
}
