package props

import (
	"context"
	"fmt"
	"math/rand"
	"strings"
	"time"

	"net/http"
	"net/url"

	"github.com/zitadel/saml/pkg/provider"

	"verif/harness/core"
	"verif/harness/env"
	"verif/harness/reply"
	"verif/harness/sim"
	"verif/harness/spsim"
	"verif/harness/verify"
)

// C03 — assertion content is bound to the originating request, audience and user.

func c03Case(r *core.Run, idx int, rng *rand.Rand) { c03CaseWL(r, "callback_success", idx, rng) }

func c03CaseWL(r *core.Run, wl string, idx int, rng *rand.Rand) {
	canary := fmt.Sprintf("MK%dx", idx)
	sc := randScenario(rng, canary, idx%5 != 0)
	if rng.Intn(12) == 0 {
		sc.S.ACS = "" // reply returned in the HTTP body
	}
	if idx%8 == 5 {
		// the entity ID is configured as a URL of its own on the metadata endpoint: any absolute URI will do, a URN too
		sc.EntityID = []string{"urn:example:idp:" + strings.ToLower(canary), "https://entity.example/idp/" + canary, "tag:example.org,2026:idp", "urn:mace:example.org:idp"}[rng.Intn(4)]
		m := provider.NewEndpointWithURL("/metadata", sc.EntityID)
		sc.Opts.Metadata = &m
	}
	e := sc.build()
	// sometimes another user's callback fails late (after its data was loaded) right before, on the same provider
	if idx%6 == 2 {
		prev := randScenario(rng, canary+"p", true)
		prev.Host = sc.Host
		prev.install(e.W)
		failTag := fmt.Sprintf("failfirst-%d", idx)
		kind := rng.Intn(3)
		e.W.Plan = func(tag, op string, occ int) string {
			if tag != failTag {
				return ""
			}
			if (kind == 0 && op == "GetResponseSigningKey") || (kind == 1 && op == "GetResponseSigningKey" && occ >= 1) {
				return "error"
			}
			if kind == 2 && op == "GetResponseSigningKey" {
				return "key_without_certificate"
			}
			return ""
		}
		pc := e.Do(env.Req{Path: env.PathLogin, Query: "id=" + url.QueryEscape(prev.S.ID), Host: sc.Host, Tag: failTag})
		if !pc.D.Success() {
			r.Count("preceded_by_failed_callback", 1)
		}
	}
	// in the failing-lookup workload the user lookup of this callback fails: early, late, or after part of the record
	lookupFault := ""
	if wl == "callback_failing_user_lookup" {
		lookupFault = []string{"error_fast_key_slow", "partial_then_error_late", "partial_then_error", "error", "timeout_error", "entity_lookup_error"}[idx%6]
		kind := sim.FaultError
		if strings.HasPrefix(lookupFault, "partial") {
			kind = sim.FaultPartial
		}
		if lookupFault == "timeout_error" {
			kind = sim.FaultTimeout
		}
		failingOp := "SetUserinfoWithUserID"
		if lookupFault == "entity_lookup_error" {
			// the audience cannot be resolved: no Success either (its Audience could not be the registered entity ID)
			failingOp = "GetEntityIDByAppID"
		}
		if lookupFault == "partial_then_error_late" {
			e.W.PartialDelay = 25 * time.Millisecond
		}
		if lookupFault == "error_fast_key_slow" {
			e.W.Before = func(_ context.Context, _, op string, _ int) {
				if op == "GetResponseSigningKey" {
					time.Sleep(25 * time.Millisecond)
				}
			}
		}
		e.W.Plan = func(tag, op string, occ int) string {
			if op == failingOp {
				return kind
			}
			return ""
		}
	}
	call := sc.callback(e)
	class := fmt.Sprintf("%s|layout=%q|host=%v|acs_empty=%v", sc.S.Binding[strings.LastIndex(sc.S.Binding, ":")+1:], sc.Opts.TimeFormat, sc.Host != "", sc.S.ACS == "")
	if lookupFault != "" {
		class += "|user_lookup=" + lookupFault
	}
	desc := map[string]any{"stored_request": sc.S, "user": sc.U, "audience": sc.Audience, "host": sc.Host, "opts": map[string]any{"time_format": sc.Opts.TimeFormat, "host_path": sc.Opts.HostPath, "sig_alg": sc.Opts.SigAlg}}
	viol := func(clause, reason string) {
		r.Violate(core.Violation{Clause: clause, Class: class, Reason: reason, Workload: wl, Index: idx, Case: desc, Observed: call.Describe()})
	}
	r.Eval(fmt.Sprintf("%s|%d|%d|%v|%v", class, len(sc.U.Custom), len(refAttributes(sc.U)), sc.S.RelayState == "", hasC14NSpecial(sc.S.AuthRequestID+sc.S.ACS, true)))
	if call.Panic != "" {
		viol("panic", call.Panic)
		return
	}
	if mut := e.W.Mutated(); mut != "" {
		viol("storage_record_changed", mut)
	}
	if lookupFault != "" {
		r.Count("callbacks_with_failing_user_lookup", 1)
		// every message of the reply counts: a page may hold more than one form
		for i, m := range reply.AllMessages(call.Rec) {
			if m.Success() {
				viol("success_with_incomplete_user_record", fmt.Sprintf("message %d of the reply is a Success response although a lookup the assertion depends on failed (%s): audience, NameID and attribute statement cannot be exactly the registered data", i+1, lookupFault))
			}
		}
		return
	}
	if !call.D.Success() {
		r.Count("not_success", 1)
		r.Sample("not_success", map[string]any{"status": call.D.Status, "kind": call.D.Kind, "body": clipS(string(call.D.Body), 300)})
		return
	}
	r.Count("success_replies", 1)
	r.Count("delivery_"+call.D.Kind, 1)
	m := call.D.Msg
	fails, judged := checkSuccessBinding(sc, call, m)
	for _, f := range fails {
		viol(f.Clause, f.Reason)
	}
	for _, j := range judged {
		r.Count("clause_"+j, 1)
	}
	// second, independent extraction (expat) must agree with the first and with the reference
	ok, perr, nodes, err := verify.PyWF(call.D.XML, true)
	if err != nil {
		r.Inconclusive("python oracle unavailable: " + err.Error())
		return
	}
	if !ok {
		viol("not_wellformed_for_expat", perr)
		return
	}
	pm := pyMessage(nodes)
	if d := diffMessages(m, pm); d != "" {
		// the two extractions disagree: judge the expat view against the reference as well
		f2, _ := checkSuccessBinding(sc, call, pm)
		if len(f2) > 0 {
			viol("expat_view/"+f2[0].Clause, f2[0].Reason)
		} else {
			r.Count("extraction_disagreement_unjudged", 1)
			r.Sample("extraction_disagreement", d)
		}
	} else {
		r.Count("extractions_agree", 1)
	}
	if idx < 3 {
		r.Sample("success", map[string]any{"class": class, "stored_request": sc.S, "user": sc.U, "message": clipS(string(call.D.XML), 1500)})
	}
}

func init() {
	register(&Prop{
		ID: "C03", Level: "exploration", DeathIsViolation: true,
		TimeoutQuick: 5 * time.Minute, TimeoutThorough: 30 * time.Minute,
		Build: func(c *Ctx) []core.Workload {
			r := c.Run
			r.Rule = "each case stores a completed request S (request ID, consumer URL, RelayState, application id drawn from legal XML characters incl. metacharacters, CR/LF/TAB, blanks, non-ASCII) and a user U (each standard attribute set/unset, 0-4 custom attributes with 0-3 values) under a random configuration (binding, static or host-derived issuer, time layout, signature algorithm), calls the login callback and compares every field of the decoded Success response - extracted twice, with etree and with expat - with a reference record computed by the harness. The workload is repeated with the process time zone set to +02:00 and -05:00. A further workload lets the user lookup of the callback fail (at once, late, after part of the record was delivered, with a slow key lookup): no Success may then be issued; the storage's user records are compared with their registered state after every case. Distinct = (binding, layout, issuer mode, attribute counts, special characters present)."
			r.Assume("RelayState in auto-submit forms is compared modulo CR/CRLF -> LF (HTML newline normalisation is parser dependent)")
			r.Assume("IssueInstant is judged against the wall-clock bracket around the call with 1 s slack")
			r.Require("success_replies", int64(c.Pick(500, 6000)))
			r.Require("extractions_agree", int64(c.Pick(400, 5000)))
			r.Require("delivery_form", 50)
			r.Require("delivery_redirect", 50)
			r.Require("preceded_by_failed_callback", 50)
			r.Require("callbacks_with_failing_user_lookup", 100)
			zone := func(name string, off int) func() {
				return func() {
					if off == 0 {
						time.Local = time.UTC
					} else {
						time.Local = time.FixedZone(name, off)
					}
				}
			}
			return []core.Workload{
				{Name: "short_lifetime_slow_storage", N: 8, Workers: 8, Fn: c03ShortLifetime},
				{Name: "callback_histories", N: c.Pick(120, 1200), Fn: cbHistory("C03")},
				{Name: "callback_success", N: c.Pick(700, 8000), Before: zone("UTC", 0), Fn: c03Case},
				// the process time zone must not leak into the (UTC) instants of the assertion
				{Name: "callback_success_tz_plus2", N: c.Pick(100, 1000), Before: zone("P2", 2*3600), Fn: func(r *core.Run, idx int, rng *rand.Rand) { c03CaseWL(r, "callback_success_tz_plus2", idx, rng) }},
				{Name: "callback_failing_user_lookup", N: c.Pick(120, 800), Before: zone("UTC", 0), Fn: func(r *core.Run, idx int, rng *rand.Rand) { c03CaseWL(r, "callback_failing_user_lookup", idx, rng) }},
				{Name: "callback_success_tz_minus5", N: c.Pick(100, 1000), Before: zone("M5", -5*3600), Fn: func(r *core.Run, idx int, rng *rand.Rand) { c03CaseWL(r, "callback_success_tz_minus5", idx, rng) }},
			}
		},
		After: func(c *Ctx) { verify.Py.Close() },
	})
}

// c03ShortLifetime: an identity provider whose assertions live four seconds, over a storage in which one call of the
// callback takes four and a half. Whatever order the provider reads and stamps in, an assertion it hands out has
// not expired yet: now < NotOnOrAfter when the reply leaves.
func c03ShortLifetime(r *core.Run, idx int, rng *rand.Rand) {
	const wl = "short_lifetime_slow_storage"
	const lifetime, hold = 4 * time.Second, 4500 * time.Millisecond
	w := sim.NewWorld()
	idp, err := provider.NewIdentityProvider(provider.NewEndpoint("/saml/metadata"), &provider.IdentityProviderConfig{SignatureAlgorithm: spsim.AlgRSASHA256}, w)
	if err != nil {
		r.Inconclusive("NewIdentityProvider: " + err.Error())
		return
	}
	idp.Expiration = lifetime
	var callback http.HandlerFunc
	for _, route := range idp.GetRoutes() {
		if route.Endpoint == "/"+provider.DefaultCallbackEndpoint {
			callback = route.HandleFunc
		}
	}
	iss, err2 := provider.StaticIssuer(idpIssuer)(false)
	if callback == nil || err2 != nil {
		r.Inconclusive("no callback route / issuer")
		return
	}
	e := &env.Env{W: w, H: provider.NewIssuerInterceptor(iss).HandlerFunc(callback)}
	sc := randScenario(rng, fmt.Sprintf("MK%ds", idx), false)
	sc.Host, sc.Exp = "", lifetime
	sc.Opts = env.Opts{SigAlg: spsim.AlgRSASHA256}
	sc.S.Binding = []string{spsim.BindPost, spsim.BindRedirect}[idx%2]
	sc.install(w)
	slowOp := []string{"GetResponseSigningKey", "SetUserinfoWithUserID", "GetEntityIDByAppID", "GetResponseSigningKey"}[idx%4]
	w.Before = func(_ context.Context, _, op string, occ int) {
		if op == slowOp && occ == 1 {
			time.Sleep(hold)
		}
	}
	call := e.Do(env.Req{Path: "/" + provider.DefaultCallbackEndpoint, Query: "id=" + url.QueryEscape(sc.S.ID)})
	class := fmt.Sprintf("short_lifetime|slow=%s|%s", slowOp, bindName(sc.S.Binding))
	r.Eval(fmt.Sprintf("%s|%d", class, idx))
	if call.Panic != "" {
		r.Violate(core.Violation{Clause: "panic", Class: class, Reason: call.Panic, Workload: wl, Index: idx, Observed: call.Describe()})
		return
	}
	if !call.D.Success() {
		r.Count("short_lifetime_not_success", 1)
		return
	}
	r.Count("short_lifetime_success", 1)
	m := call.D.Msg
	for _, v := range []string{m.CondNotOnOrAfter, m.SCNotOnOrAfter} {
		noa, err := time.Parse(time.RFC3339Nano, v)
		if err != nil {
			noa, err = time.Parse(spsim.TimeLayout, v)
		}
		if err != nil {
			continue // the layout is the provider's business (C03's main workload judges it)
		}
		if noa.Before(call.T1.Add(-250 * time.Millisecond)) {
			r.Violate(core.Violation{Clause: "expired_when_issued", Class: class, Reason: fmt.Sprintf("the reply left at %s, its assertion says NotOnOrAfter %s: it had expired before it was handed out (lifetime %s, %s took %s)", call.T1.UTC().Format(time.RFC3339Nano), v, lifetime, slowOp, hold), Workload: wl, Index: idx,
				Case: map[string]any{"lifetime": lifetime.String(), "slow_operation": slowOp, "held_for": hold.String()}, Observed: call.Describe()})
			return
		}
	}
}
