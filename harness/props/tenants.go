package props

import (
	"context"
	"fmt"
	"math/rand"
	"sync"
	"sync/atomic"
	"time"

	"verif/harness/core"
	"verif/harness/env"
	"verif/harness/keys"
	"verif/harness/sim"
	"verif/harness/spsim"
)

// tenantWorld builds ONE provider with a host-derived issuer over a storage that scopes service-provider
// lookups by issuer: the same entity ID is registered independently (other endpoints, other key, other
// signing requirement) for each of the tenants' hosts.
type tenant struct {
	Host   string
	Issuer string
	Desc   *spsim.SPDesc
}

func tenantWorld(rng *rand.Rand) (*env.Env, []*tenant) {
	e, err := env.New(env.Opts{HostPath: "/saml"})
	if err != nil {
		panic(err)
	}
	e.W.Tenanted = true
	var ts []*tenant
	for i, h := range []string{"tenant-a.idp.example", "tenant-b.idp.example", "tenant-c.idp.example:8443"} {
		d := stdSP(0) // same entity ID everywhere
		d.Cert = keys.Get(fmt.Sprintf("sp%d", i))
		d.ACS = []spsim.ACS{{Binding: []string{spsim.BindPost, spsim.BindRedirect}[rng.Intn(2)], Location: fmt.Sprintf("https://sp.example/t%d/acs", i), Index: "0"}}
		d.SLO = []spsim.SLO{{Binding: spsim.BindPost, Location: fmt.Sprintf("https://sp.example/t%d/slo", i)}}
		d.AuthnRequestsSigned = []string{"", "true", "false"}[i]
		t := &tenant{Host: h, Issuer: "https://" + h + "/saml", Desc: d}
		if err := e.W.AddSPForTenant(t.Issuer, fmt.Sprintf("app-t%d", i), d.XML()); err != nil {
			panic(err)
		}
		ts = append(ts, t)
	}
	// the same entity ID is also registered in the default tenant: what a lookup made without the request's issuer
	// (a context that is not the request's) resolves to
	dd := stdSP(0)
	dd.Cert = keys.Get("attacker")
	dd.AuthnRequestsSigned = ""
	dd.ACS = []spsim.ACS{{Binding: spsim.BindPost, Location: "https://sp.example/default-tenant/acs", Index: "0"}}
	dd.SLO = []spsim.SLO{{Binding: spsim.BindPost, Location: "https://sp.example/default-tenant/slo"}}
	if err := e.W.AddSPForTenant("", "app-default", dd.XML()); err != nil {
		panic(err)
	}
	return e, ts
}

// tenantSequence sends a sequence of SSO and logout requests under alternating tenants and checks that
// everything follows the registration of the tenant the request arrived at.
func tenantSequence(r *core.Run, wl string, idx int, rng *rand.Rand, judgeTargets, judgeSigning bool) {
	e, ts := tenantWorld(rng)
	for k := 0; k < 9; k++ {
		ti := rng.Intn(len(ts))
		t := ts[ti]
		class := fmt.Sprintf("tenants|tenant=%d|step=%d", ti, k)
		desc := map[string]any{"step": k, "tenant_host": t.Host, "tenant_acs": t.Desc.ACS, "tenant_slo": t.Desc.SLO, "tenant_requires_signing": t.Desc.AuthnRequestsSigned}
		viol := func(call *env.Call, clause, reason string) {
			r.Violate(core.Violation{Clause: clause, Class: class, Reason: reason, Workload: wl, Index: idx, Case: desc, Observed: call.Describe()})
		}
		r.Count("tenant_sequence_requests", 1)
		r.Eval(fmt.Sprintf("%s|%d", class, idx))
		// now and then the first service-provider lookup of the request runs into the storage's own deadline
		e.W.Plan = nil
		if rng.Intn(4) == 0 {
			kind := []string{sim.FaultTimeout, sim.FaultTemporary, sim.FaultPoolClosed}[rng.Intn(3)]
			e.W.Plan = func(_, op string, occ int) string {
				if op == "GetEntityByID" && occ == 1 {
					return kind
				}
				return ""
			}
			class += "|first_lookup_" + kind
		}
		if rng.Intn(3) == 0 { // logout
			l := conformantLogout(rng, t.Desc)
			s := ssoSend{Path: env.PathSLO, Binding: "post", XML: l.XML(rng), HasRelay: true, Relay: "MKrelay", Host: t.Host}
			call, _ := s.do(e)
			if call.Panic != "" {
				viol(call, "panic", call.Panic)
				return
			}
			if judgeTargets && call.D.Kind == "form" && !onlyEncodes(t.Desc.SLO[0].Location, call.D.Target) {
				viol(call, "logout_target_of_other_tenant", fmt.Sprintf("LogoutResponse posted to %q, this tenant registered %q", call.D.Target, t.Desc.SLO[0].Location))
			}
			if judgeTargets && call.D.Msg != nil && call.D.Msg.Issuer != t.Issuer+"/metadata" {
				viol(call, "issuer_of_other_tenant", fmt.Sprintf("Issuer %q, this tenant is %q", call.D.Msg.Issuer, t.Issuer+"/metadata"))
			}
			continue
		}
		// SSO: signed with the key of a random tenant, or unsigned
		signer := rng.Intn(len(ts) + 1)
		a := validAuthn(rng, t.Desc)
		if a.Destination != "" {
			a.Destination = t.Issuer + "/SSO"
		}
		fail := rng.Intn(4) == 0
		if fail {
			a.Destination = "https://wrong.example/SSO"
		}
		s := ssoSend{Binding: "redirect", XML: a.XML(rng), HasRelay: true, Relay: "MKrelay", Host: t.Host}
		if signer < len(ts) {
			s.SignKey, s.Alg = ts[signer].Desc.Cert, spsim.AlgRSASHA256
		}
		call, _ := s.do(e)
		if call.Panic != "" {
			viol(call, "panic", call.Panic)
			return
		}
		if ev := call.First("CreateAuthRequest"); ev != nil && !ev.Err && len(ev.Args) >= 2 {
			r.Count("tenant_sequence_accepted", 1)
			if judgeTargets && (ev.Args[0] != t.Desc.ACS[0].Location || ev.Args[1] != t.Desc.ACS[0].Binding) {
				viol(call, "persisted_pair_of_other_tenant", fmt.Sprintf("CreateAuthRequest(%q, %q), this tenant registered %v", ev.Args[0], ev.Args[1], t.Desc.ACS))
			}
			if judgeSigning {
				if signer < len(ts) && signer != ti {
					viol(call, "R2_signature_of_other_tenants_key_accepted", fmt.Sprintf("accepted at tenant %d a request signed with the key registered at tenant %d", ti, signer))
				}
				if signer == len(ts) && t.Desc.AuthnRequestsSigned == "true" {
					viol(call, "R1_unsigned_accepted_although_this_tenant_requires_signing", "unsigned request accepted")
				}
			}
		} else if judgeTargets && (call.D.Kind == "form" || (call.D.Kind == "redirect" && call.D.Status == 302)) {
			if !deliveryTargetOK(call.D, t.Desc.ACS[0].Location) {
				viol(call, "error_reply_to_other_tenant", fmt.Sprintf("error reply delivered to %q, this tenant registered %q", call.D.Target, t.Desc.ACS[0].Location))
			}
		}
	}
}

// tenantOverlap: two tenants' requests for the SAME entity ID are in flight together; the service-provider lookup of
// the first is held inside the storage until the second has reached the storage as well (or clearly never will,
// because it waits for the first one's lookup instead of making its own). Each request must be served from its own
// tenant's registration: consumer endpoint, signing requirement and key.
func tenantOverlap(r *core.Run, wl string, idx int, rng *rand.Rand) {
	e, ts := tenantWorld(rng)
	ia := rng.Intn(len(ts))
	ib := (ia + 1 + rng.Intn(len(ts)-1)) % len(ts)
	var arrivals atomic.Int64
	second := make(chan struct{})
	var once sync.Once
	e.W.Before = func(_ context.Context, _, op string, _ int) {
		if op != "GetEntityByID" {
			return
		}
		if arrivals.Add(1) == 1 {
			select {
			case <-second:
			case <-time.After(60 * time.Millisecond):
			}
		} else {
			once.Do(func() { close(second) })
		}
	}
	mk := func(t *tenant) ssoSend {
		a := validAuthn(rng, t.Desc)
		a.ACSURL, a.ACSIndex, a.ProtocolBinding = "", "", ""
		if a.Destination != "" {
			a.Destination = t.Issuer + "/SSO"
		}
		return ssoSend{Binding: "redirect", XML: a.XML(rng), HasRelay: true, Relay: "MKrelay", Host: t.Host, SignKey: t.Desc.Cert, Alg: spsim.AlgRSASHA256}
	}
	sends := []ssoSend{mk(ts[ia]), mk(ts[ib])}
	calls := make([]*env.Call, 2)
	var wg sync.WaitGroup
	for i := range sends {
		wg.Add(1)
		go func(i int) {
			defer wg.Done()
			if i == 1 {
				for k := 0; k < 2000 && arrivals.Load() == 0; k++ {
					time.Sleep(50 * time.Microsecond)
				}
			}
			calls[i], _ = sends[i].do(e)
		}(i)
	}
	wg.Wait()
	for i, ti := range []int{ia, ib} {
		t, call := ts[ti], calls[i]
		class := fmt.Sprintf("tenants_overlapping|tenant=%d|request_%d", ti, i+1)
		desc := map[string]any{"tenant_host": t.Host, "tenant_acs": t.Desc.ACS, "other_tenant_in_flight": ts[[]int{ib, ia}[i]].Host}
		r.Eval(fmt.Sprintf("%s|%d", class, idx))
		r.Count("tenant_overlap_requests", 1)
		if call.Panic != "" {
			r.Violate(core.Violation{Clause: "panic", Class: class, Reason: call.Panic, Workload: wl, Index: idx, Case: desc, Observed: call.Describe()})
			continue
		}
		ev := call.First("CreateAuthRequest")
		if ev == nil || ev.Err || len(ev.Args) < 2 {
			r.Violate(core.Violation{Clause: "own_request_refused_beside_other_tenant", Class: class, Reason: fmt.Sprintf("a conformant request signed with this tenant's registered key was not accepted (status %d %s) while a request of another tenant for the same entity ID was in flight", call.D.Status, clipS(string(call.D.Body), 160)), Workload: wl, Index: idx, Case: desc, Observed: call.Describe()})
			continue
		}
		r.Count("tenant_overlap_accepted", 1)
		if ev.Args[0] != t.Desc.ACS[0].Location || ev.Args[1] != t.Desc.ACS[0].Binding {
			r.Violate(core.Violation{Clause: "persisted_pair_of_other_tenant", Class: class, Reason: fmt.Sprintf("CreateAuthRequest(%q, %q), this tenant registered %v (the other tenant's lookup was in flight)", ev.Args[0], ev.Args[1], t.Desc.ACS), Workload: wl, Index: idx, Case: desc, Observed: call.Describe()})
		}
	}
}
