package props

import (
	"fmt"
	"math/rand"

	"verif/harness/core"
	"verif/harness/env"
	"verif/harness/keys"
	"verif/harness/spsim"
)

// tenantWorld builds ONE provider with a host-derived issuer over a storage that scopes service-provider
// lookups by issuer: the same entity ID is registered independently (other endpoints, other key, other
// signing requirement) for each of the tenants' hosts.
type tenant struct {
	Host   string
	Issuer string
	Desc   *spsim.SPDesc
}

func tenantWorld(rng *rand.Rand) (*env.Env, []*tenant) {
	e, err := env.New(env.Opts{HostPath: "/saml"})
	if err != nil {
		panic(err)
	}
	e.W.Tenanted = true
	var ts []*tenant
	for i, h := range []string{"tenant-a.idp.example", "tenant-b.idp.example", "tenant-c.idp.example:8443"} {
		d := stdSP(0) // same entity ID everywhere
		d.Cert = keys.Get(fmt.Sprintf("sp%d", i))
		d.ACS = []spsim.ACS{{Binding: []string{spsim.BindPost, spsim.BindRedirect}[rng.Intn(2)], Location: fmt.Sprintf("https://sp.example/t%d/acs", i), Index: "0"}}
		d.SLO = []spsim.SLO{{Binding: spsim.BindPost, Location: fmt.Sprintf("https://sp.example/t%d/slo", i)}}
		d.AuthnRequestsSigned = []string{"", "true", "false"}[i]
		t := &tenant{Host: h, Issuer: "https://" + h + "/saml", Desc: d}
		if err := e.W.AddSPForTenant(t.Issuer, fmt.Sprintf("app-t%d", i), d.XML()); err != nil {
			panic(err)
		}
		ts = append(ts, t)
	}
	return e, ts
}

// tenantSequence sends a sequence of SSO and logout requests under alternating tenants and checks that
// everything follows the registration of the tenant the request arrived at.
func tenantSequence(r *core.Run, wl string, idx int, rng *rand.Rand, judgeTargets, judgeSigning bool) {
	e, ts := tenantWorld(rng)
	for k := 0; k < 9; k++ {
		ti := rng.Intn(len(ts))
		t := ts[ti]
		class := fmt.Sprintf("tenants|tenant=%d|step=%d", ti, k)
		desc := map[string]any{"step": k, "tenant_host": t.Host, "tenant_acs": t.Desc.ACS, "tenant_slo": t.Desc.SLO, "tenant_requires_signing": t.Desc.AuthnRequestsSigned}
		viol := func(call *env.Call, clause, reason string) {
			r.Violate(core.Violation{Clause: clause, Class: class, Reason: reason, Workload: wl, Index: idx, Case: desc, Observed: call.Describe()})
		}
		r.Count("tenant_sequence_requests", 1)
		r.Eval(fmt.Sprintf("%s|%d", class, idx))
		if rng.Intn(3) == 0 { // logout
			l := conformantLogout(rng, t.Desc)
			s := ssoSend{Path: env.PathSLO, Binding: "post", XML: l.XML(rng), HasRelay: true, Relay: "MKrelay", Host: t.Host}
			call, _ := s.do(e)
			if call.Panic != "" {
				viol(call, "panic", call.Panic)
				return
			}
			if judgeTargets && call.D.Kind == "form" && !onlyEncodes(t.Desc.SLO[0].Location, call.D.Target) {
				viol(call, "logout_target_of_other_tenant", fmt.Sprintf("LogoutResponse posted to %q, this tenant registered %q", call.D.Target, t.Desc.SLO[0].Location))
			}
			if judgeTargets && call.D.Msg != nil && call.D.Msg.Issuer != t.Issuer+"/metadata" {
				viol(call, "issuer_of_other_tenant", fmt.Sprintf("Issuer %q, this tenant is %q", call.D.Msg.Issuer, t.Issuer+"/metadata"))
			}
			continue
		}
		// SSO: signed with the key of a random tenant, or unsigned
		signer := rng.Intn(len(ts) + 1)
		a := validAuthn(rng, t.Desc)
		if a.Destination != "" {
			a.Destination = t.Issuer + "/SSO"
		}
		fail := rng.Intn(4) == 0
		if fail {
			a.Destination = "https://wrong.example/SSO"
		}
		s := ssoSend{Binding: "redirect", XML: a.XML(rng), HasRelay: true, Relay: "MKrelay", Host: t.Host}
		if signer < len(ts) {
			s.SignKey, s.Alg = ts[signer].Desc.Cert, spsim.AlgRSASHA256
		}
		call, _ := s.do(e)
		if call.Panic != "" {
			viol(call, "panic", call.Panic)
			return
		}
		if ev := call.First("CreateAuthRequest"); ev != nil && !ev.Err && len(ev.Args) >= 2 {
			r.Count("tenant_sequence_accepted", 1)
			if judgeTargets && (ev.Args[0] != t.Desc.ACS[0].Location || ev.Args[1] != t.Desc.ACS[0].Binding) {
				viol(call, "persisted_pair_of_other_tenant", fmt.Sprintf("CreateAuthRequest(%q, %q), this tenant registered %v", ev.Args[0], ev.Args[1], t.Desc.ACS))
			}
			if judgeSigning {
				if signer < len(ts) && signer != ti {
					viol(call, "R2_signature_of_other_tenants_key_accepted", fmt.Sprintf("accepted at tenant %d a request signed with the key registered at tenant %d", ti, signer))
				}
				if signer == len(ts) && t.Desc.AuthnRequestsSigned == "true" {
					viol(call, "R1_unsigned_accepted_although_this_tenant_requires_signing", "unsigned request accepted")
				}
			}
		} else if judgeTargets && (call.D.Kind == "form" || (call.D.Kind == "redirect" && call.D.Status == 302)) {
			if !deliveryTargetOK(call.D, t.Desc.ACS[0].Location) {
				viol(call, "error_reply_to_other_tenant", fmt.Sprintf("error reply delivered to %q, this tenant registered %q", call.D.Target, t.Desc.ACS[0].Location))
			}
		}
	}
}
