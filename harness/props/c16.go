package props

import (
	"fmt"
	"math/rand"
	"net/url"
	"strings"
	"sync"
	"time"

	"github.com/zitadel/saml/pkg/provider"
	"github.com/zitadel/saml/pkg/provider/xml/md"

	"verif/harness/core"
	"verif/harness/env"
	"verif/harness/sim"
	"verif/harness/spsim"
)

// C16 — consumer endpoint selection is a deterministic, documented function of metadata.

var (
	c16Bindings  = []string{spsim.BindPost, spsim.BindRedirect, spsim.BindArtifact, "urn:oasis:names:tc:SAML:2.0:bindings:HTTP-POST-SimpleSign"}
	c16Indexes   = []string{"0", "1", "2", "7", "65535"}
	c16Defaults  = []string{"", "true", "false", "1", "0"}
	c16Requested = []string{"", spsim.BindPost, spsim.BindRedirect, spsim.BindArtifact, "urn:oasis:names:tc:SAML:2.0:bindings:HTTP-POST-SimpleSign", spsim.BindPAOS}
	c16IndexVal  = []int{0, 1, 2, 7, 65535}
)

const c16Variants = 100 // 4 bindings x 5 indexes x 5 isDefault

func c16Entry(v int, pos int) md.IndexedEndpointType {
	return md.IndexedEndpointType{Binding: c16Bindings[v/25], Index: c16Indexes[(v/5)%5], IsDefault: c16Defaults[v%5], Location: c16URL[pos]}
}

var c16URL = []string{"https://sp.example/acs/0", "https://sp.example/acs/1", "https://sp.example/acs/2", "https://sp.example/acs/3"}

// c16Acceptable returns the set of positions the documented rule allows (-1 = nothing).
func c16Acceptable(vs []int, requested string) []int {
	if len(vs) == 0 {
		return []int{-1}
	}
	for i, v := range vs {
		if c16Bindings[v/25] == requested {
			return []int{i}
		}
	}
	for i, v := range vs {
		if d := c16Defaults[v%5]; d == "true" || d == "1" {
			return []int{i}
		}
	}
	min := 1 << 30
	for _, v := range vs {
		if x := c16IndexVal[(v/5)%5]; x < min {
			min = x
		}
	}
	var out []int
	for i, v := range vs {
		if c16IndexVal[(v/5)%5] == min {
			out = append(out, i)
		}
	}
	return out
}

func c16Check(r *core.Run, wl string, idx int, vs []int, list []md.IndexedEndpointType) bool {
	for _, req := range c16Requested {
		url, binding := provider.GetAcsUrlAndBindingForResponse(list, req)
		ok := false
		for _, p := range c16Acceptable(vs, req) {
			if p == -1 {
				ok = url == "" && binding == ""
			} else if url == list[p].Location && binding == list[p].Binding {
				ok = true
			}
		}
		if !ok {
			var d []string
			for _, e := range list {
				d = append(d, fmt.Sprintf("{%s index=%s isDefault=%q}", e.Binding[strings.LastIndexAny(e.Binding, ":")+1:], e.Index, e.IsDefault))
			}
			r.Violate(core.Violation{Clause: "selection", Class: fmt.Sprintf("len=%d", len(vs)), Reason: fmt.Sprintf("list %v requested %q: selected (%q, %q), acceptable positions %v", d, req, url, binding, c16Acceptable(vs, req)), Workload: wl, Index: idx, Case: map[string]any{"list": list, "requested": req}})
			return false
		}
	}
	return true
}

func c16Enumerate(maxLen int) func(r *core.Run, idx int, rng *rand.Rand) {
	return func(r *core.Run, idx int, _ *rand.Rand) {
		const wl = "enumerate"
		// idx selects the first entry; idx == c16Variants is the empty list
		if idx == c16Variants {
			c16Check(r, wl, idx, nil, nil)
			r.EvalBulk(int64(len(c16Requested)), 1)
			r.Count("lists_enumerated", 1)
			return
		}
		vs := make([]int, 0, 4)
		list := make([]md.IndexedEndpointType, 0, 4)
		var n int64
		bad := 0
		var rec func()
		rec = func() {
			if !c16Check(r, wl, idx, vs, list) {
				bad++
			}
			n++
			if len(vs) == maxLen || bad > 5 {
				return
			}
			for v := 0; v < c16Variants; v++ {
				vs = append(vs, v)
				list = append(list, c16Entry(v, len(list)))
				rec()
				vs = vs[:len(vs)-1]
				list = list[:len(list)-1]
			}
		}
		vs = append(vs, idx)
		list = append(list, c16Entry(idx, 0))
		rec()
		r.EvalBulk(n*int64(len(c16Requested)), n)
		r.Count("lists_enumerated", n)
		r.Count("selections_checked", n*int64(len(c16Requested)))
		if idx == 37 {
			r.Sample("list", map[string]any{"first_entry": c16Entry(idx, 0), "extended_by": "every list of up to max length starting with it", "requested": c16Requested})
		}
	}
}

func c16Random(r *core.Run, idx int, rng *rand.Rand) {
	const wl = "random_length4"
	var n int64
	for k := 0; k < 2000; k++ {
		vs := []int{rng.Intn(100), rng.Intn(100), rng.Intn(100), rng.Intn(100)}
		list := []md.IndexedEndpointType{c16Entry(vs[0], 0), c16Entry(vs[1], 1), c16Entry(vs[2], 2), c16Entry(vs[3], 3)}
		c16Check(r, wl, idx, vs, list)
		n++
	}
	r.EvalN(n*int64(len(c16Requested)), fmt.Sprintf("rand4|%d", idx))
	r.Count("random_lists", n)
}

// c16EndToEnd sends the same kind of lists as real SP metadata through the SSO handler.
func c16EndToEnd(r *core.Run, idx int, rng *rand.Rand) {
	const wl = "end_to_end"
	n := rng.Intn(5)
	vs := make([]int, n)
	c := conformantSSO(rng)
	c.Host = ""
	if c.Req.Destination != "" {
		c.Req.Destination = idpSSO
	}
	c.SPD.ACS = nil
	for i := range vs {
		vs[i] = rng.Intn(100)
		e := c16Entry(vs[i], i)
		c.SPD.ACS = append(c.SPD.ACS, spsim.ACS{Binding: e.Binding, Location: e.Location, Index: e.Index, IsDefault: e.IsDefault})
	}
	c.Req.ACSURL, c.Req.ACSIndex = "", ""
	nameLocation := rng.Intn(3) == 0
	c.Req.ProtocolBinding = c16Requested[rng.Intn(len(c16Requested))]
	if nameLocation && c.Req.ProtocolBinding != "" {
		// the request also names the location of one of the entries registered with the binding it asks for (a consistent
		// pair): the statement makes the choice a function of the metadata and the requested binding alone
		var same []string
		for _, a := range c.SPD.ACS {
			if a.Binding == c.Req.ProtocolBinding {
				same = append(same, a.Location)
			}
		}
		if len(same) > 0 {
			c.Req.ACSURL = same[rng.Intn(len(same))]
			r.Count("end_to_end_requests_naming_a_registered_location", 1)
		}
	}
	_, call := c.run(rng, nil)
	r.Eval(fmt.Sprintf("e2e|%v|%s", vs, c.Req.ProtocolBinding))
	acc := c16Acceptable(vs, c.Req.ProtocolBinding)
	desc := map[string]any{"acs": c.SPD.ACS, "requested": c.Req.ProtocolBinding}
	if ev := call.First("CreateAuthRequest"); ev != nil && len(ev.Args) >= 2 {
		r.Count("end_to_end_persisted", 1)
		ok := false
		for _, p := range acc {
			if p >= 0 && ev.Args[0] == c.SPD.ACS[p].Location && ev.Args[1] == c.SPD.ACS[p].Binding {
				ok = true
			}
		}
		if !ok {
			r.Violate(core.Violation{Clause: "end_to_end_selection", Class: fmt.Sprintf("len=%d", n), Reason: fmt.Sprintf("CreateAuthRequest(%q, %q), acceptable positions %v", ev.Args[0], ev.Args[1], acc), Workload: wl, Index: idx, Case: desc, Observed: call.Describe()})
		}
		return
	}
	r.Count("end_to_end_not_persisted", 1)
	// not persisted: every acceptable choice must be unanswerable (or the request was rejected for another reason by a stricter check)
	if call.D.Msg != nil && strings.HasSuffix(call.D.Msg.StatusCode, "UnsupportedBinding") {
		answerable := false
		for _, p := range acc {
			if p >= 0 && (c.SPD.ACS[p].Binding == spsim.BindPost || c.SPD.ACS[p].Binding == spsim.BindRedirect) {
				answerable = true
			} else {
				answerable = answerable || false
			}
		}
		all := true
		for _, p := range acc {
			if p < 0 || (c.SPD.ACS[p].Binding != spsim.BindPost && c.SPD.ACS[p].Binding != spsim.BindRedirect) {
				all = false
			}
		}
		if answerable && all {
			r.Violate(core.Violation{Clause: "end_to_end_unsupported_binding", Class: fmt.Sprintf("len=%d", n), Reason: fmt.Sprintf("answered UnsupportedBinding although the rule selects an answerable entry (positions %v)", acc), Workload: wl, Index: idx, Case: desc, Observed: call.Describe()})
		}
	}
}

func init() {
	register(&Prop{
		ID: "C16", Level: "exploration", DeathIsViolation: true,
		TimeoutQuick: 5 * time.Minute, TimeoutThorough: 60 * time.Minute,
		Build: func(c *Ctx) []core.Workload {
			r := c.Run
			maxLen := c.Pick(3, 4)
			r.Rule = fmt.Sprintf("every AssertionConsumerService list up to length %d over binding {POST, Redirect, Artifact, other} x index {0,1,2,7,65535} x isDefault {absent,true,false,1,0} (100 entry variants, unique Location per entry) is passed to the exported selection function for each requested binding {absent, the four listed, one unlisted}; a reference model gives the set of acceptable entries (requested binding: first match; else first isDefault true/1; else any entry of minimal index; empty list: nothing; URL and binding from the same entry). Quick adds 200 000 random length-4 lists. End-to-end: random lists as real SP metadata through the SSO handler, comparing the pair given to CreateAuthRequest; and freshly registered service providers whose first twelve requests arrive at the same time. Distinct = pairwise different lists by construction.", maxLen)
			r.SetExhaustive(true)
			r.Extra("exhaustive_max_length", maxLen)
			r.Require("lists_enumerated", 1000000)
			r.Require("end_to_end_persisted", int64(c.Pick(100, 1000)))
			wls := []core.Workload{{Name: "enumerate", N: c16Variants + 1, Fn: c16Enumerate(maxLen)}}
			if !c.Thorough {
				wls = append(wls, core.Workload{Name: "random_length4", N: 100, Fn: c16Random})
			}
			wls = append(wls, core.Workload{Name: "end_to_end", N: c.Pick(600, 6000), Fn: c16EndToEnd})
			wls = append(wls, core.Workload{Name: "registration_history", N: c.Pick(150, 1500), Fn: c16Registration})
			r.Require("registration_history_requests", 1000)
			wls = append(wls, core.Workload{Name: "concurrent_first_use", N: c.Pick(300, 1500), Fn: c16ConcurrentFirstUse})
			r.Require("concurrent_first_requests", 20000)
			wls = append(wls, core.Workload{Name: "tenants_overlapping", N: c.Pick(30, 300), Fn: func(r *core.Run, idx int, rng *rand.Rand) { tenantOverlap(r, "tenants_overlapping", idx, rng) }})
			return wls
		},
	})
}

// c16Registration: ONE provider while the registration of a service provider changes (new object, refreshed in place,
// revoked, registered again, also while a lookup fails in between): the pair persisted for a request is one the rule
// allows on the list registered AT THAT MOMENT, and nothing when nothing is registered.
func c16Registration(r *core.Run, idx int, rng *rand.Rand) {
	const wl = "registration_history"
	e := env.Static(env.Opts{})
	e.W.NilForUnknown = rng.Intn(2) == 0
	d := stdSP(0)
	d.AuthnRequestsSigned = ""
	registered := false
	newList := func() {
		n := 1 + rng.Intn(4)
		d.ACS = nil
		for i := 0; i < n; i++ {
			d.ACS = append(d.ACS, spsim.ACS{Binding: []string{spsim.BindPost, spsim.BindRedirect}[rng.Intn(2)], Location: fmt.Sprintf("https://sp0.example/acs/%d/%s", i, randHex(rng, 3)),
				Index: []string{"0", "1", "2", "7", "65535"}[rng.Intn(5)], IsDefault: []string{"", "", "", "true", "false", "1", "0"}[rng.Intn(7)]})
		}
	}
	for step := 0; step < 10; step++ {
		what := "request"
		switch op := rng.Intn(6); {
		case op == 0 || !registered && op < 3:
			newList()
			if registered && rng.Intn(2) == 0 {
				what = "refreshed_in_place"
				if err := e.W.ReplaceMetadataInPlace(d.EntityID, d.XML()); err != nil {
					panic(err)
				}
			} else {
				what = "registered"
				mustRegister(e.W, d, "appA")
			}
			registered = true
		case op == 1 && registered:
			what = "revoked"
			e.W.RemoveSP(d.EntityID)
			registered = false
		case op == 2 && registered:
			// a lookup fails (the request is refused); right after, the registration is replaced
			what = "lookup_failed_then_replaced"
			e.W.Plan = func(tag, o string, occ int) string {
				if o == "GetEntityByID" {
					return sim.FaultError
				}
				return ""
			}
			a := validAuthn(rng, d)
			e.Do(env.Req{Path: env.PathSSO, Query: "SAMLRequest=" + url.QueryEscape(spsim.DeflateB64(a.XML(rng)))})
			e.W.Plan = nil
			newList()
			mustRegister(e.W, d, "appA")
		}
		a := validAuthn(rng, d)
		a.ACSURL, a.ACSIndex = "", ""
		a.ProtocolBinding = []string{"", spsim.BindPost, spsim.BindRedirect, spsim.BindArtifact}[rng.Intn(4)]
		call := e.Do(env.Req{Path: env.PathSSO, Query: "SAMLRequest=" + url.QueryEscape(spsim.DeflateB64(a.XML(rng)))})
		r.Count("registration_history_requests", 1)
		class := fmt.Sprintf("registration_history|after=%s|registered=%v", what, registered)
		desc := map[string]any{"step": step, "registered_now": registered, "acs_now": d.ACS, "requested": a.ProtocolBinding}
		if call.Panic != "" {
			r.Violate(core.Violation{Clause: "panic", Class: class, Reason: call.Panic, Workload: wl, Index: idx, Case: desc, Observed: call.Describe()})
			return
		}
		ev := call.First("CreateAuthRequest")
		if !registered {
			if ev != nil {
				r.Violate(core.Violation{Clause: "end_to_end_selection", Class: class, Reason: fmt.Sprintf("CreateAuthRequest(%v) although no consumer service is registered for the requester at this moment", ev.Args), Workload: wl, Index: idx, Case: desc, Observed: call.Describe()})
				return
			}
			continue
		}
		acc := refConsumerChoice(d.ACS, a.ProtocolBinding)
		ok := false
		if ev != nil && len(ev.Args) >= 2 {
			for _, p := range acc {
				if p >= 0 && ev.Args[0] == d.ACS[p].Location && ev.Args[1] == d.ACS[p].Binding {
					ok = true
				}
			}
		}
		if !ok {
			got := "nothing persisted"
			if ev != nil {
				got = fmt.Sprintf("CreateAuthRequest(%v)", ev.Args)
			}
			r.Violate(core.Violation{Clause: "end_to_end_selection", Class: class, Reason: fmt.Sprintf("%s; the list registered at this moment allows position(s) %v", got, acc), Workload: wl, Index: idx, Case: desc, Observed: call.Describe()})
			return
		}
	}
	r.Eval(fmt.Sprintf("registration_history|%d", idx))
}

// c16ConcurrentFirstUse: a freshly registered service provider gets its first requests all at once (whatever a
// provider derives from a registration on first use is then derived under contention); the pair persisted for each of
// them must be one the documented rule allows for ITS requested binding.
func c16ConcurrentFirstUse(r *core.Run, idx int, rng *rand.Rand) {
	const wl = "concurrent_first_use"
	e := env.Static(env.Opts{})
	e.W.NoLog = false
	for round := 0; round < 12; round++ {
		d := stdSP(0)
		d.AuthnRequestsSigned = ""
		d.EntityID = fmt.Sprintf("https://sp-%d-%d.example/metadata", idx, round)
		n := 2 + rng.Intn(5)
		d.ACS = nil
		for i := 0; i < n; i++ {
			d.ACS = append(d.ACS, spsim.ACS{Binding: []string{spsim.BindPost, spsim.BindRedirect}[rng.Intn(2)], Location: fmt.Sprintf("https://sp-%d-%d.example/acs/%d", idx, round, i),
				Index: []string{"0", "1", "2", "7", "65535"}[rng.Intn(5)], IsDefault: []string{"", "", "", "true", "false", "1", "0"}[rng.Intn(7)]})
		}
		mustRegister(e.W, d, fmt.Sprintf("app-%d", round))
		type req struct {
			binding string
			rq      env.Req
		}
		var reqs []req
		for k := 0; k < 12; k++ {
			a := validAuthn(rng, d)
			a.ACSURL, a.ACSIndex = "", ""
			a.ProtocolBinding = []string{"", spsim.BindPost, spsim.BindRedirect, spsim.BindArtifact}[rng.Intn(4)]
			x := a.XML(rng)
			reqs = append(reqs, req{a.ProtocolBinding, env.Req{Path: env.PathSSO, Query: "SAMLRequest=" + url.QueryEscape(spsim.DeflateB64(x))}})
		}
		calls := make([]*env.Call, len(reqs))
		var wg sync.WaitGroup
		start := make(chan struct{})
		for k := range reqs {
			wg.Add(1)
			go func(k int) { defer wg.Done(); <-start; calls[k] = e.Do(reqs[k].rq) }(k)
		}
		close(start)
		wg.Wait()
		for k, call := range calls {
			r.Count("concurrent_first_requests", 1)
			desc := map[string]any{"acs": d.ACS, "requested": reqs[k].binding}
			if call.Panic != "" {
				r.Violate(core.Violation{Clause: "panic", Class: "concurrent_first_use", Reason: call.Panic, Workload: wl, Index: idx, Case: desc, Observed: call.Describe()})
				continue
			}
			acc := refConsumerChoice(d.ACS, reqs[k].binding)
			ev := call.First("CreateAuthRequest")
			if ev == nil || len(ev.Args) < 2 {
				// every entry here is answerable, so the rule always selects something a request can be accepted with
				r.Violate(core.Violation{Clause: "end_to_end_selection", Class: "concurrent_first_use", Reason: fmt.Sprintf("one of the first, simultaneous requests of a fresh registration was not persisted (status %d %s) although the rule selects position(s) %v", call.D.Status, clipS(string(call.D.Body), 160), acc), Workload: wl, Index: idx, Case: desc, Observed: call.Describe()})
				continue
			}
			ok := false
			for _, p := range acc {
				if p >= 0 && ev.Args[0] == d.ACS[p].Location && ev.Args[1] == d.ACS[p].Binding {
					ok = true
				}
			}
			if !ok {
				r.Violate(core.Violation{Clause: "end_to_end_selection", Class: "concurrent_first_use", Reason: fmt.Sprintf("CreateAuthRequest(%q, %q) for one of the first, simultaneous requests of a fresh registration; acceptable positions %v", ev.Args[0], ev.Args[1], acc), Workload: wl, Index: idx, Case: desc, Observed: call.Describe()})
			}
		}
	}
	r.Eval(fmt.Sprintf("first_use|%d", idx))
}
