package props

import (
	"encoding/base64"
	"fmt"
	"math/rand"
	"net/url"
	"strings"
	"sync/atomic"
	"time"

	"github.com/beevik/etree"

	"verif/harness/core"
	"verif/harness/env"
	"verif/harness/keys"
	"verif/harness/sim"
	"verif/harness/spsim"
)

// C05 — unsigned or forged AuthnRequests are never accepted when signing is required.
//
// Oracle: membership in the signed set. Everything the simulated SPs really
// signed is recorded (which key, which content); an accepted request that had
// to be / claimed to be signed must have been acted on with exactly recorded content.

// signedEntry is one thing a simulated SP really signed.
type signedEntry struct {
	Key      string // key pair name
	Binding  string // redirect | post
	Snap     sim.ReqSnapshot
	Relay    string
	HasRelay bool
	SigAlg   string
}

func snapFromNode(n *spsim.Node) sim.ReqSnapshot {
	g := func(k string) string { v, _ := n.Get(k); return v }
	s := sim.ReqSnapshot{
		ID: g("ID"), Version: g("Version"), IssueInstant: g("IssueInstant"), Destination: g("Destination"),
		ACSURL: g("AssertionConsumerServiceURL"), ACSIndex: g("AssertionConsumerServiceIndex"), ProtocolBinding: g("ProtocolBinding"),
		ForceAuthn: g("ForceAuthn"), IsPassive: g("IsPassive"), ProviderName: g("ProviderName"), Consent: g("Consent"),
		AttrIndex: g("AttributeConsumingServiceIndex"),
	}
	for _, k := range n.Kids {
		switch k.Local() {
		case "Issuer":
			s.Issuer = k.Text
		case "Conditions":
			s.NotBefore, _ = k.Get("NotBefore")
			s.NotOnOrAfter, _ = k.Get("NotOnOrAfter")
		}
	}
	return s
}

// sameContent compares the acted-on content of two snapshots (signature fields excluded).
func sameContent(a, b *sim.ReqSnapshot) string {
	type f struct{ n, x, y string }
	for _, c := range []f{
		{"ID", a.ID, b.ID}, {"Version", a.Version, b.Version}, {"IssueInstant", a.IssueInstant, b.IssueInstant},
		{"Destination", a.Destination, b.Destination}, {"Issuer", a.Issuer, b.Issuer}, {"AssertionConsumerServiceURL", a.ACSURL, b.ACSURL},
		{"AssertionConsumerServiceIndex", a.ACSIndex, b.ACSIndex}, {"ProtocolBinding", a.ProtocolBinding, b.ProtocolBinding},
		{"NotBefore", a.NotBefore, b.NotBefore}, {"NotOnOrAfter", a.NotOnOrAfter, b.NotOnOrAfter}, {"ForceAuthn", a.ForceAuthn, b.ForceAuthn},
		{"IsPassive", a.IsPassive, b.IsPassive}, {"ProviderName", a.ProviderName, b.ProviderName}, {"Consent", a.Consent, b.Consent},
		{"AttributeConsumingServiceIndex", a.AttrIndex, b.AttrIndex},
	} {
		if c.x != c.y {
			return fmt.Sprintf("%s: signed %q, acted on %q", c.n, c.x, c.y)
		}
	}
	return ""
}

type c05Case struct {
	rng     *rand.Rand
	ARS     string // AuthnRequestsSigned of SP A
	HasCert bool
	Want    string
	Binding string
	Alg     string
	A, B    *spsim.SPDesc
	Req     *spsim.AuthnReq
	Node    *spsim.Node
	Signed  []signedEntry
	Labels  []string

	Method, Query, Body string
	Relay               string
	HasRelay            bool
}

// required reports whether signing is required for a request whose Issuer names the given entity.
func (c *c05Case) required(issuer string) bool {
	if c.Want == "true" || c.Want == "1" {
		return true
	}
	return issuer == c.A.EntityID && (c.ARS == "true" || c.ARS == "1")
}

func (c *c05Case) keyA() *keys.Pair {
	if c.HasCert {
		return keys.Get("sp0")
	}
	return keys.Get("attacker")
}

func (c *c05Case) record(key *keys.Pair, binding string, n *spsim.Node, relay string, hasRelay bool, alg string) {
	c.Signed = append(c.Signed, signedEntry{Key: key.Name, Binding: binding, Snap: snapFromNode(n), Relay: relay, HasRelay: hasRelay, SigAlg: alg})
}

// signedRedirect returns the signed redirect message of node n.
func (c *c05Case) signedRedirect(n *spsim.Node, key *keys.Pair, relay string, hasRelay bool, alg string) *spsim.RedirectMsg {
	x := c.Req.Style.Finish(n.Clone(), c.rng)
	m := &spsim.RedirectMsg{Param: "SAMLRequest", Value: spsim.DeflateB64(x), RelayState: relay, HasRelay: hasRelay, SigAlg: alg, Pct: spsim.PctGo}
	if err := m.Sign(key.RSA); err != nil {
		panic(err)
	}
	c.record(key, "redirect", n, relay, hasRelay, alg)
	return m
}

// signedPost returns the enveloped-signed document of node n.
func (c *c05Case) signedPost(n *spsim.Node, key *keys.Pair, o spsim.XMLSignOpts) string {
	x := c.Req.Style.Finish(n.Clone(), c.rng)
	sx, err := spsim.SignEnveloped(x, key, o)
	if err != nil {
		panic(err)
	}
	c.record(key, "post", n, "", false, o.Alg)
	return sx
}

func (c *c05Case) unsignedXML(n *spsim.Node) string { return c.Req.Style.Finish(n.Clone(), c.rng) }

func (c *c05Case) setRedirect(m *spsim.RedirectMsg) {
	c.Method, c.Query, c.Body = "GET", m.RawQuery(), ""
}
func (c *c05Case) setPost(x string, kv ...string) {
	args := []string{"SAMLRequest", spsim.B64([]byte(x))}
	if c.HasRelay {
		args = append(args, "RelayState", c.Relay)
	}
	args = append(args, kv...)
	c.Method, c.Query, c.Body = "POST", "", spsim.FormBody(args...)
}

// editedNode returns a copy of the request with one field changed after signing.
func (c *c05Case) editedNode() (*spsim.Node, string) {
	n := c.Node.Clone()
	switch c.rng.Intn(6) {
	case 0:
		n.Set("ID", newID(c.rng))
		return n, "ID"
	case 1:
		n.Set("AssertionConsumerServiceURL", "https://evil-"+randHex(c.rng, 3)+".example/acs")
		return n, "ACSURL"
	case 2:
		n.Find("Issuer").Text = c.B.EntityID
		return n, "Issuer_to_other_SP"
	case 3:
		n.Set("ProtocolBinding", spsim.BindRedirect)
		return n, "ProtocolBinding"
	case 4:
		n.Set("ForceAuthn", "false")
		n.Set("IsPassive", "true")
		return n, "flags"
	default:
		n.Set("ProviderName", "Evil Corp")
		return n, "ProviderName"
	}
}

func flipB64(s string, rng *rand.Rand) string {
	if len(s) < 8 {
		return s + "A"
	}
	b := []byte(s)
	i := rng.Intn(len(b) - 4)
	for b[i] == '=' {
		i--
	}
	if b[i] == 'A' {
		b[i] = 'B'
	} else {
		b[i] = 'A'
	}
	return string(b)
}

var c05Algs = []string{
	spsim.AlgRSASHA1, spsim.AlgRSASHA256, "http://www.w3.org/2001/04/xmldsig-more#rsa-sha512", "http://www.w3.org/2000/09/xmldsig#dsa-sha1",
	"http://www.w3.org/2009/xmldsig11#dsa-sha256", "http://www.w3.org/2001/04/xmldsig-more#ecdsa-sha256", "http://www.w3.org/2000/09/xmldsig#hmac-sha1",
	"none", "", "RSA-SHA256", spsim.AlgRSASHA256 + " ", "http://www.w3.org/2001/04/xmldsig-more#rsa-md5",
}

type c05Mutation struct {
	Name  string
	Apply func(c *c05Case)
}

// etree helpers for document-level mutations
func parseDoc(x string) *etree.Document {
	d := etree.NewDocument()
	if err := d.ReadFromString(x); err != nil {
		panic("harness: cannot parse own document: " + err.Error())
	}
	return d
}
func docString(d *etree.Document) string {
	s, err := d.WriteToString()
	if err != nil {
		panic(err)
	}
	return s
}
func childTag(e *etree.Element, tag string) *etree.Element {
	for _, c := range e.ChildElements() {
		if c.Tag == tag {
			return c
		}
	}
	return nil
}
func removeTok(parent *etree.Element, tok etree.Token) {
	for i, t := range parent.Child {
		if t == tok {
			parent.Child = append(parent.Child[:i:i], parent.Child[i+1:]...)
			return
		}
	}
}

var unusualRelayStates = []string{"st\x00ate", "\x00", "st\xffate\xfe", "\xc3(", "caf\xe9", " padded ", "\ttab\r\n", "a+b&c=d%25", "désirée-€-𝄞", "trailing\n", "\ufeffbom", "a\u2028b"}

var c05Mutations = []c05Mutation{
	// ---- controls ----
	{"valid_signed", func(c *c05Case) {
		if c.Binding == "redirect" {
			c.setRedirect(c.signedRedirect(c.Node, c.keyA(), c.Relay, c.HasRelay, c.Alg))
		} else {
			c.setPost(c.signedPost(c.Node, c.keyA(), spsim.XMLSignOpts{Alg: c.Alg, DropKey: c.rng.Intn(3) == 0}))
		}
	}},
	// a validly signed redirect message whose RelayState has bytes a storage layer may not like: accepted or not, what
	// is acted on is what was signed
	{"valid_signed_unusual_relay_state", func(c *c05Case) {
		c.Binding = "redirect"
		c.HasRelay, c.Relay = true, unusualRelayStates[c.rng.Intn(len(unusualRelayStates))]+plainString(c.rng, 3)
		c.setRedirect(c.signedRedirect(c.Node, c.keyA(), c.Relay, c.HasRelay, c.Alg))
	}},
	{"unsigned", func(c *c05Case) {
		x := c.unsignedXML(c.Node)
		if c.Binding == "redirect" {
			m := &spsim.RedirectMsg{Param: "SAMLRequest", Value: spsim.DeflateB64(x), RelayState: c.Relay, HasRelay: c.HasRelay, Pct: spsim.PctGo}
			c.setRedirect(m)
		} else {
			c.setPost(x)
		}
	}},
	// ---- the XML declaration (which no signature covers) names another encoding after signing ----
	{"declared_encoding_changed_after_signing", func(c *c05Case) {
		c.Binding = "post"
		c.Node.Set("ProviderName", "Z\u00fcrcher Kantonalbank \u00e9\u4e2d "+plainString(c.rng, 3))
		sx := c.signedPost(c.Node, c.keyA(), spsim.XMLSignOpts{Alg: c.Alg})
		if strings.HasPrefix(sx, "<?xml") {
			sx = sx[strings.Index(sx, "?>")+2:]
		}
		enc := []string{"ISO-8859-1", "latin1", "US-ASCII", "windows-1252", "ISO-8859-15", "UTF-16", "utf-8"}[c.rng.Intn(7)]
		c.Labels = append(c.Labels, "encoding="+enc)
		c.setPost(`<?xml version="1.0" encoding="` + enc + `"?>` + sx)
	}},
	// ---- content edited after signing ----
	{"field_edit_after_signing", func(c *c05Case) {
		n, what := c.editedNode()
		c.Labels = append(c.Labels, what)
		if c.Binding == "redirect" {
			m := c.signedRedirect(c.Node, c.keyA(), c.Relay, c.HasRelay, c.Alg)
			m.Value = spsim.DeflateB64(c.unsignedXML(n))
			c.setRedirect(m)
		} else {
			sx := c.signedPost(c.Node, c.keyA(), spsim.XMLSignOpts{Alg: c.Alg})
			d := parseDoc(sx)
			root := d.Root()
			// transplant the signature of the original onto the edited document
			ed := parseDoc(c.unsignedXML(n))
			sig := childTag(root, "Signature")
			removeTok(root, sig)
			er := ed.Root()
			pos := 0
			for i, t := range er.Child {
				if e, ok := t.(*etree.Element); ok && e.Tag == "Issuer" {
					pos = i + 1
				}
			}
			er.InsertChildAt(pos, sig)
			c.setPost(docString(ed))
		}
	}},
	{"signature_bitflip", func(c *c05Case) {
		if c.Binding == "redirect" {
			m := c.signedRedirect(c.Node, c.keyA(), c.Relay, c.HasRelay, c.Alg)
			switch c.rng.Intn(4) {
			case 0:
				m.Signature = flipB64(m.Signature, c.rng)
			case 1:
				m.Signature = m.Signature[:len(m.Signature)/2]
			case 2:
				m.Signature = spsim.B64([]byte("not a signature"))
			default:
				m.Signature = "!!" + m.Signature
			}
			c.setRedirect(m)
		} else {
			sx := c.signedPost(c.Node, c.keyA(), spsim.XMLSignOpts{Alg: c.Alg})
			d := parseDoc(sx)
			sv := d.Root().FindElement("./Signature/SignatureValue")
			switch c.rng.Intn(3) {
			case 0:
				sv.SetText(flipB64(sv.Text(), c.rng))
			case 1:
				sv.SetText(spsim.B64([]byte("not a signature")))
			default:
				dv := d.Root().FindElement("./Signature/SignedInfo/Reference/DigestValue")
				dv.SetText(flipB64(dv.Text(), c.rng))
			}
			c.setPost(docString(d))
		}
	}},
	{"relaystate_swap", func(c *c05Case) {
		c.Binding = "redirect"
		m := c.signedRedirect(c.Node, c.keyA(), c.Relay, c.HasRelay, c.Alg)
		switch c.rng.Intn(3) {
		case 0:
			m.RelayState, m.HasRelay = "https://evil-"+randHex(c.rng, 3)+".example/landing", true
		case 1:
			m.RelayState, m.HasRelay = "", false
		default:
			m.RelayState, m.HasRelay = m.RelayState+"x", true
		}
		if m.RelayState == c.Relay && m.HasRelay == c.HasRelay {
			m.RelayState, m.HasRelay = "changed", true
		}
		c.setRedirect(m)
	}},
	{"sigalg_substitution", func(c *c05Case) {
		if c.Binding == "redirect" {
			m := c.signedRedirect(c.Node, c.keyA(), c.Relay, c.HasRelay, c.Alg)
			for {
				m.SigAlg = c05Algs[c.rng.Intn(len(c05Algs))]
				if m.SigAlg != c.Alg {
					break
				}
			}
			c.setRedirect(m)
		} else {
			sx := c.signedPost(c.Node, c.keyA(), spsim.XMLSignOpts{Alg: c.Alg})
			d := parseDoc(sx)
			switch c.rng.Intn(3) {
			case 0:
				sm := d.Root().FindElement("./Signature/SignedInfo/SignatureMethod")
				sm.CreateAttr("Algorithm", c05Algs[c.rng.Intn(len(c05Algs))])
			case 1:
				dm := d.Root().FindElement("./Signature/SignedInfo/Reference/DigestMethod")
				dm.CreateAttr("Algorithm", []string{"http://www.w3.org/2000/09/xmldsig#sha1", "http://www.w3.org/2001/04/xmlenc#sha512", "urn:none", ""}[c.rng.Intn(4)])
			default:
				cm := d.Root().FindElement("./Signature/SignedInfo/CanonicalizationMethod")
				cm.CreateAttr("Algorithm", []string{"http://www.w3.org/TR/2001/REC-xml-c14n-20010315", "http://www.w3.org/2006/12/xml-c14n11", "urn:none"}[c.rng.Intn(3)])
			}
			c.setPost(docString(d))
		}
	}},
	{"signature_stripped", func(c *c05Case) {
		if c.Binding == "redirect" {
			m := c.signedRedirect(c.Node, c.keyA(), c.Relay, c.HasRelay, c.Alg)
			switch c.rng.Intn(3) {
			case 0:
				m.Signature, m.SigAlg = "", ""
			case 1:
				m.Signature = "" // SigAlg kept
			default:
				q := m.RawQuery()
				c.Method, c.Query = "GET", strings.Replace(q, "&Signature=", "&Signature=&X=", 1)
				return
			}
			c.setRedirect(m)
		} else {
			sx := c.signedPost(c.Node, c.keyA(), spsim.XMLSignOpts{Alg: c.Alg})
			d := parseDoc(sx)
			sig := childTag(d.Root(), "Signature")
			switch c.rng.Intn(3) {
			case 0:
				removeTok(d.Root(), sig)
			case 1:
				sig.FindElement("./SignatureValue").SetText("")
			default:
				removeTok(sig, sig.FindElement("./SignatureValue"))
			}
			c.setPost(docString(d))
		}
	}},
	// ---- keys ----
	{"signed_by_attacker_key", func(c *c05Case) {
		att := keys.Get("attacker")
		if c.Binding == "redirect" {
			c.setRedirect(c.signedRedirect(c.Node, att, c.Relay, c.HasRelay, c.Alg))
		} else {
			sx := c.signedPost(c.Node, att, spsim.XMLSignOpts{Alg: c.Alg})
			d := parseDoc(sx)
			ce := d.Root().FindElement("./Signature/KeyInfo/X509Data/X509Certificate")
			switch c.rng.Intn(3) {
			case 0: // attacker certificate in KeyInfo
			case 1: // victim certificate in KeyInfo, attacker signature
				ce.SetText(keys.Get("sp0").B64())
			default: // no KeyInfo
				sig := childTag(d.Root(), "Signature")
				removeTok(sig, sig.FindElement("./KeyInfo"))
			}
			c.setPost(docString(d))
		}
	}},
	// an attacker's signature whose KeyInfo holds no certificate at all (a key name, a key value, an empty X509Data, a
	// KeyInfo in another namespace): nothing in it says whose key it is, and it is not the registered one
	{"attacker_signature_keyinfo_without_certificate", func(c *c05Case) {
		c.Binding = "post"
		sx := c.signedPost(c.Node, keys.Get("attacker"), spsim.XMLSignOpts{Alg: c.Alg})
		d := parseDoc(sx)
		ki := d.Root().FindElement("./Signature/KeyInfo")
		if ki != nil {
			for _, ch := range ki.ChildElements() {
				ki.RemoveChild(ch)
			}
			switch c.rng.Intn(5) {
			case 0:
				ki.CreateElement("ds:KeyName").SetText("sp-signing-key")
				c.Labels = append(c.Labels, "key_name_only")
			case 1:
				ki.CreateElement("ds:X509Data")
				c.Labels = append(c.Labels, "empty_x509data")
			case 2:
				kv := ki.CreateElement("ds:KeyValue").CreateElement("ds:RSAKeyValue")
				kv.CreateElement("ds:Modulus").SetText("AQAB")
				kv.CreateElement("ds:Exponent").SetText("AQAB")
				c.Labels = append(c.Labels, "key_value_only")
			case 3:
				ki.Space, ki.Tag = "", "KeyInfo"
				ki.CreateAttr("xmlns", "urn:example:foreign")
				ki.CreateElement("X509Data").CreateElement("X509Certificate").SetText(keys.Get("sp0").B64())
				c.Labels = append(c.Labels, "keyinfo_in_a_foreign_namespace")
			default:
				x := ki.CreateElement("ds:X509Data")
				x.CreateElement("ds:X509SubjectName").SetText("CN=sp0.example")
				c.Labels = append(c.Labels, "subject_name_only")
			}
		}
		c.setPost(docString(d))
	}},
	// a message of the redirect binding (everything in the URL query) asked for with POST and an empty body: the
	// Signature parameter it bears is verified like that of any other redirect message
	{"redirect_message_requested_with_post", func(c *c05Case) {
		m := c.signedRedirect(c.Node, c.keyA(), c.Relay, c.HasRelay, c.Alg)
		switch c.rng.Intn(4) {
		case 0: // as signed
			c.Labels = append(c.Labels, "as_signed")
		case 1:
			m.RelayState, m.HasRelay = "https://evil-"+randHex(c.rng, 3)+".example/landing", true
			c.Labels = append(c.Labels, "relaystate_swapped")
		case 2:
			m.Signature = spsim.B64([]byte("made up signature value " + randHex(c.rng, 8)))
			c.Labels = append(c.Labels, "made_up_signature")
		default:
			n, what := c.editedNode()
			c.Labels = append(c.Labels, what)
			m.Value = spsim.DeflateB64(c.unsignedXML(n))
		}
		if c.rng.Intn(2) == 0 {
			m.Encoding = spsim.EncDeflate
		}
		c.Binding = "redirect"
		c.Method, c.Query, c.Body = "POST", m.RawQuery(), ""
	}},
	{"signed_by_other_registered_sp", func(c *c05Case) {
		// SP B (registered, own key sp1) signs a request that names SP A as Issuer
		kb := keys.Get("sp1")
		if c.Binding == "redirect" {
			c.setRedirect(c.signedRedirect(c.Node, kb, c.Relay, c.HasRelay, c.Alg))
		} else {
			c.setPost(c.signedPost(c.Node, kb, spsim.XMLSignOpts{Alg: c.Alg, DropKey: c.rng.Intn(2) == 0}))
		}
	}},
	// ---- wrapping ----
	{"xsw_original_nested", func(c *c05Case) {
		c.Binding = "post"
		sx := c.signedPost(c.Node, c.keyA(), spsim.XMLSignOpts{Alg: c.Alg})
		orig := parseDoc(sx).Root()
		evil, _ := c.editedNode()
		evil.Set("ID", newID(c.rng))
		ed := parseDoc(c.unsignedXML(evil))
		er := ed.Root()
		variant := c.rng.Intn(4)
		c.Labels = append(c.Labels, fmt.Sprintf("v%d", variant))
		wrap := etree.NewElement("samlp:Extensions")
		wrap.CreateAttr("xmlns:samlp", spsim.NSP)
		switch variant {
		case 0: // forged outer request, original (with its signature) inside Extensions
			wrap.AddChild(orig.Copy())
			er.AddChild(wrap)
		case 1: // forged outer carries a copy of the signature, original inside Extensions without signature
			sig := childTag(orig, "Signature").Copy()
			oc := orig.Copy()
			removeTok(oc, childTag(oc, "Signature"))
			wrap.AddChild(oc)
			er.InsertChildAt(1, sig)
			er.AddChild(wrap)
		case 2: // original inside ds:Object of the copied signature
			sig := childTag(orig, "Signature").Copy()
			obj := etree.NewElement("ds:Object")
			oc := orig.Copy()
			removeTok(oc, childTag(oc, "Signature"))
			obj.AddChild(oc)
			sig.AddChild(obj)
			er.InsertChildAt(1, sig)
		default: // forged outer takes over the signed ID, original renamed inside Extensions
			sig := childTag(orig, "Signature").Copy()
			id := orig.SelectAttrValue("ID", "")
			er.CreateAttr("ID", id)
			er.InsertChildAt(1, sig)
		}
		c.setPost(docString(ed))
	}},
	{"xsw_duplicate_children", func(c *c05Case) {
		c.Binding = "post"
		sx := c.signedPost(c.Node, c.keyA(), spsim.XMLSignOpts{Alg: c.Alg})
		d := parseDoc(sx)
		root := d.Root()
		switch c.rng.Intn(4) {
		case 0: // second Issuer naming another SP
			iss := childTag(root, "Issuer").Copy()
			iss.SetText(c.B.EntityID)
			if c.rng.Intn(2) == 0 {
				root.InsertChildAt(0, iss)
			} else {
				root.AddChild(iss)
			}
		case 1: // two signatures: a bogus one first
			sig := childTag(root, "Signature").Copy()
			sig.FindElement("./SignatureValue").SetText(spsim.B64([]byte("bogus")))
			root.InsertChildAt(0, sig)
		case 2: // two signatures: the genuine one first, then one by the attacker over edited content
			sig := childTag(root, "Signature").Copy()
			root.AddChild(sig)
		default: // duplicated attribute-bearing child
			e := etree.NewElement("samlp:NameIDPolicy")
			e.CreateAttr("xmlns:samlp", spsim.NSP)
			e.CreateAttr("AllowCreate", "true")
			root.AddChild(e)
		}
		c.setPost(docString(d))
	}},
	{"reference_uri_games", func(c *c05Case) {
		c.Binding = "post"
		sx := c.signedPost(c.Node, c.keyA(), spsim.XMLSignOpts{Alg: c.Alg})
		d := parseDoc(sx)
		root := d.Root()
		ref := root.FindElement("./Signature/SignedInfo/Reference")
		switch c.rng.Intn(3) {
		case 0:
			ref.CreateAttr("URI", "")
			root.CreateAttr("ProviderName", "Evil Corp")
		case 1:
			ref.CreateAttr("URI", "#"+newID(c.rng))
		default:
			// reference points to a nested element carrying the signed ID
			id := root.SelectAttrValue("ID", "")
			root.CreateAttr("ID", newID(c.rng))
			ext := etree.NewElement("samlp:Extensions")
			ext.CreateAttr("xmlns:samlp", spsim.NSP)
			inner := etree.NewElement("x")
			inner.CreateAttr("ID", id)
			ext.AddChild(inner)
			root.AddChild(ext)
		}
		c.setPost(docString(d))
	}},
	// ---- cross-binding ----
	{"post_signed_sent_by_get", func(c *c05Case) {
		sx := c.signedPost(c.Node, c.keyA(), spsim.XMLSignOpts{Alg: c.Alg})
		edit := c.rng.Intn(2) == 0
		if edit {
			sx = strings.Replace(sx, `Version="2.0"`, `Version="2.0" ProviderName="Evil Corp"`, 1)
			c.Labels = append(c.Labels, "edited")
		}
		m := &spsim.RedirectMsg{Param: "SAMLRequest", Value: spsim.DeflateB64(sx), RelayState: c.Relay, HasRelay: c.HasRelay, Pct: spsim.PctGo}
		c.Binding = "redirect"
		c.setRedirect(m)
	}},
	{"redirect_signed_sent_by_post", func(c *c05Case) {
		m := c.signedRedirect(c.Node, c.keyA(), c.Relay, c.HasRelay, c.Alg)
		kv := []string{"SAMLRequest", m.Value, "SigAlg", m.SigAlg, "Signature", m.Signature}
		switch c.rng.Intn(3) {
		case 0: // deflated value in a POST body
		case 1: // plain XML in the POST body, query-style signature fields beside it
			kv[1] = spsim.B64([]byte(c.unsignedXML(c.Node)))
		default:
			n, what := c.editedNode()
			c.Labels = append(c.Labels, what)
			kv[1] = spsim.B64([]byte(c.unsignedXML(n)))
		}
		if c.HasRelay {
			kv = append(kv, "RelayState", c.Relay)
		}
		c.Binding = "post"
		c.Method, c.Query, c.Body = "POST", "", spsim.FormBody(kv...)
	}},
	{"split_query_and_body", func(c *c05Case) {
		// a validly signed triple in the query, different values in the body (or vice versa)
		m := c.signedRedirect(c.Node, c.keyA(), c.Relay, c.HasRelay, c.Alg)
		n, what := c.editedNode()
		c.Labels = append(c.Labels, what)
		evil := spsim.DeflateB64(c.unsignedXML(n))
		var kv []string
		switch c.rng.Intn(4) {
		case 0:
			kv = []string{"SAMLRequest", evil}
		case 1:
			kv = []string{"RelayState", "https://evil-" + randHex(c.rng, 3) + ".example/"}
		case 2:
			kv = []string{"SAMLRequest", evil, "RelayState", "evil", "Signature", m.Signature, "SigAlg", m.SigAlg}
		default:
			kv = []string{"Signature", "", "SigAlg", ""}
		}
		c.Binding = "redirect"
		c.Method, c.Query, c.Body = "POST", m.RawQuery(), spsim.FormBody(kv...)
	}},
	{"duplicate_query_parameters", func(c *c05Case) {
		m := c.signedRedirect(c.Node, c.keyA(), c.Relay, c.HasRelay, c.Alg)
		n, what := c.editedNode()
		c.Labels = append(c.Labels, what)
		evil := "SAMLRequest=" + url.QueryEscape(spsim.DeflateB64(c.unsignedXML(n)))
		c.Binding = "redirect"
		c.Method, c.Body = "GET", ""
		if c.rng.Intn(2) == 0 {
			c.Query = evil + "&" + m.RawQuery()
		} else {
			c.Query = m.RawQuery() + "&" + evil + "&RelayState=evil"
		}
	}},
	{"replayed_signature_of_other_message", func(c *c05Case) {
		// a genuine signature of SP A over a different request of SP A
		other := c.Node.Clone()
		other.Set("ID", newID(c.rng))
		if c.Binding == "redirect" {
			m1 := c.signedRedirect(other, c.keyA(), c.Relay, c.HasRelay, c.Alg)
			n, what := c.editedNode()
			c.Labels = append(c.Labels, what)
			m := &spsim.RedirectMsg{Param: "SAMLRequest", Value: spsim.DeflateB64(c.unsignedXML(n)), RelayState: c.Relay, HasRelay: c.HasRelay, SigAlg: c.Alg, Signature: m1.Signature, Pct: spsim.PctGo}
			c.setRedirect(m)
		} else {
			sx := c.signedPost(other, c.keyA(), spsim.XMLSignOpts{Alg: c.Alg})
			sig := childTag(parseDoc(sx).Root(), "Signature")
			n, what := c.editedNode()
			c.Labels = append(c.Labels, what)
			ed := parseDoc(c.unsignedXML(n))
			ed.Root().InsertChildAt(1, sig.Copy())
			c.setPost(docString(ed))
		}
	}},
	{"post_with_signature_parameter_only", func(c *c05Case) {
		// a POST-binding message without (or with a broken) enveloped signature, accompanied by a Signature form
		// parameter but no usable SigAlg: no procedure verifies that combination
		n, what := c.editedNode()
		c.Labels = append(c.Labels, what)
		x := c.unsignedXML(n)
		if c.rng.Intn(3) == 0 {
			x = c.unsignedXML(c.Node)
		}
		m := c.signedRedirect(c.Node, c.keyA(), c.Relay, c.HasRelay, c.Alg)
		sig := []string{"AAAA", m.Signature, spsim.B64([]byte("x")), "="}[c.rng.Intn(4)]
		kv := []string{"SAMLRequest", spsim.B64([]byte(x)), "Signature", sig}
		switch c.rng.Intn(3) {
		case 0:
			kv = append(kv, "SigAlg", "")
		case 1: // no SigAlg at all
		default:
			kv = append(kv, "sigalg", c.Alg) // a parameter of another name
		}
		if c.HasRelay {
			kv = append(kv, "RelayState", c.Relay)
		}
		c.Binding = "post"
		c.Method, c.Query, c.Body = "POST", "", spsim.FormBody(kv...)
		if c.rng.Intn(3) == 0 { // the Signature parameter travels in the query instead
			c.Query, c.Body = "Signature="+url.QueryEscape(sig), spsim.FormBody(kv[:2]...)
		}
	}},
	{"raw_query_smuggling", func(c *c05Case) {
		// the genuine signed triple is sent in an encoding style of its own (a verifier has to use the octets as
		// received); beside it the query carries forged values under names a form parser also maps to the parameters
		x := c.Req.Style.Finish(c.Node.Clone(), c.rng)
		m := &spsim.RedirectMsg{Param: "SAMLRequest", Value: spsim.DeflateB64(x), RelayState: c.Relay, HasRelay: c.HasRelay, SigAlg: c.Alg, Pct: []string{spsim.PctLower, spsim.Pct20, spsim.PctAll, spsim.PctGo}[c.rng.Intn(4)]}
		if err := m.Sign(c.keyA().RSA); err != nil {
			panic(err)
		}
		c.record(c.keyA(), "redirect", c.Node, c.Relay, c.HasRelay, c.Alg)
		n, what := c.editedNode()
		c.Labels = append(c.Labels, what)
		evilReq := url.QueryEscape(spsim.DeflateB64(c.unsignedXML(n)))
		evilRelay := url.QueryEscape("https://evil-" + randHex(c.rng, 3) + ".example/")
		var forged string
		switch c.rng.Intn(7) {
		case 0:
			forged = "SAMLReques%74=" + evilReq
		case 1:
			forged = "%53AMLRequest=" + evilReq
		case 2:
			forged = "RelaySta%74e=" + evilRelay
		case 3:
			forged = "SAMLRequest=" + evilReq
		case 4:
			forged = "RelayState=" + evilRelay
		case 5:
			forged = "x=1;SAMLRequest=" + evilReq
		default:
			forged = "SAMLRequest=" + evilReq + "&RelayState=" + evilRelay
		}
		c.Binding = "redirect"
		c.Method, c.Body = "GET", ""
		switch c.rng.Intn(3) {
		case 0:
			c.Query = forged + "&" + m.RawQuery()
		case 1:
			c.Query = m.RawQuery() + "&" + forged
		default: // forged values in a POST body, the signed triple in the query
			c.Method, c.Query, c.Body = "POST", m.RawQuery(), forged
		}
	}},
	{"arbitrary_parameter_bytes", func(c *c05Case) {
		m := c.signedRedirect(c.Node, c.keyA(), c.Relay, c.HasRelay, c.Alg)
		q := url.Values{}
		q.Set("SAMLRequest", m.Value)
		q.Set("SigAlg", m.SigAlg)
		q.Set("Signature", m.Signature)
		if c.HasRelay {
			q.Set("RelayState", c.Relay)
		}
		k := []string{"SAMLRequest", "SigAlg", "Signature", "RelayState", "SAMLEncoding"}[c.rng.Intn(5)]
		q.Set(k, arbitraryBytes(c.rng, 60))
		c.Binding = "redirect"
		c.Method, c.Query, c.Body = "GET", q.Encode(), ""
	}},
}

func formValues(raw string) map[string][]string {
	out := map[string][]string{}
	for _, kv := range strings.Split(raw, "&") {
		if kv == "" {
			continue
		}
		k, v := kv, ""
		if i := strings.IndexByte(kv, '='); i >= 0 {
			k, v = kv[:i], kv[i+1:]
		}
		dk, err1 := url.QueryUnescape(k)
		dv, err2 := url.QueryUnescape(v)
		if err1 != nil || err2 != nil {
			continue
		}
		out[dk] = append(out[dk], dv)
	}
	return out
}

// unambiguous returns the single value all occurrences of a parameter share ("" and false when they differ).
func unambiguous(q, b map[string][]string, k string) (string, bool) {
	all := append(append([]string{}, b[k]...), q[k]...)
	if len(all) == 0 {
		return "", true
	}
	for _, v := range all[1:] {
		if v != all[0] {
			return "", false
		}
	}
	return all[0], true
}

func c05Run(r *core.Run, idx int, rng *rand.Rand) {
	const wl = "forgeries"
	nm := len(c05Mutations)
	cfg := idx % 40
	mut := c05Mutations[(idx/40)%nm]
	if idx >= 40*nm {
		mut = c05Mutations[rng.Intn(nm)]
		cfg = rng.Intn(40)
	}
	c := &c05Case{rng: rng}
	c.ARS = []string{"", "false", "0", "true", "1"}[cfg%5]
	c.HasCert = (cfg/5)%2 == 0
	c.Want = []string{"", "false", "true", "1"}[cfg/10]
	c.Binding = []string{"redirect", "post"}[rng.Intn(2)]
	c.Alg = []string{spsim.AlgRSASHA1, spsim.AlgRSASHA256}[rng.Intn(2)]
	c.A = stdSP(0)
	c.A.AuthnRequestsSigned = c.ARS
	if !c.HasCert {
		c.A.Cert = nil
	}
	c.B = stdSP(1)
	c.B.AuthnRequestsSigned = ""
	c.Req = validAuthn(rng, c.A)
	if rng.Intn(2) == 0 {
		c.Req.ProviderName = "Genuine " + plainString(rng, 4)
	}
	c.Node = c.Req.Node()
	if rng.Intn(3) > 0 {
		c.HasRelay, c.Relay = true, "state-"+plainString(rng, 8)
		if rng.Intn(4) == 0 {
			// values a storage layer may not like (NUL, bytes that are no UTF-8, controls, blanks at the ends, characters
			// with a meaning in URLs): what was signed is what has to be acted on, byte for byte
			c.Relay = unusualRelayStates[rng.Intn(len(unusualRelayStates))] + plainString(rng, 3)
			r.Count("relay_states_with_unusual_bytes", 1)
		}
	}
	c.Labels = []string{mut.Name}
	mut.Apply(c)

	e := env.Static(env.Opts{WantSigned: c.Want})
	if idx%6 == 3 {
		withUnaskedNames(e, r)
	}
	mustRegister(e.W, c.A, "appA")
	mustRegister(e.W, c.B, "appB")
	// half of the cases are "primed": the genuine signed message is sent (and accepted) first on the same
	// provider and the same registered SP instance, then the forged variant follows - anything remembered
	// from a verified request must not vouch for different content
	primed := (idx/40/len(c05Mutations))%2 == 1 || (idx >= 40*len(c05Mutations) && rng.Intn(2) == 0)
	if primed && c.HasCert {
		var pq, pb, pm string
		if c.Binding == "redirect" || strings.Contains(c.Query, "SAMLRequest=") {
			m := c.signedRedirect(c.Node, c.keyA(), c.Relay, c.HasRelay, c.Alg)
			pm, pq = "GET", m.RawQuery()
		} else {
			sx := c.signedPost(c.Node, c.keyA(), spsim.XMLSignOpts{Alg: c.Alg})
			args := []string{"SAMLRequest", spsim.B64([]byte(sx))}
			if c.HasRelay {
				args = append(args, "RelayState", c.Relay)
			}
			pm, pb = "POST", spsim.FormBody(args...)
		}
		pc := e.Do(env.Req{Method: pm, Path: env.PathSSO, Query: pq, Body: pb})
		if pc.Accepted() {
			r.Count("primed_with_accepted_genuine_request", 1)
		}
		c.Labels = append(c.Labels, "primed")
	}
	// now and then the judged request is preceded by refused, unsigned messages whose DEFLATE stream breaks off behind
	// a complete AuthnRequest that names the same service provider but was never signed by anybody: nothing of a
	// refused message may be what the provider acts on afterwards
	if idx%7 == 3 {
		for k := 0; k < 1+rng.Intn(3); k++ {
			f := validAuthn(rng, c.A)
			f.ID = "forged-leftover-" + randHex(rng, 6)
			f.ProviderName = "Never signed"
			doc := f.XML(rng)
			if rng.Intn(3) == 0 {
				doc += strings.Repeat(" ", 1000+rng.Intn(100000))
			}
			payload := spsim.B64(spsim.DeflateUnfinished([]byte(doc)))
			path := []string{env.PathSSO, env.PathSSO, env.PathSLO}[rng.Intn(3)]
			var pc *env.Call
			if rng.Intn(2) == 0 {
				pc = e.Do(env.Req{Path: path, Query: "SAMLRequest=" + url.QueryEscape(payload) + "&RelayState=leftover"})
			} else {
				pc = e.Do(env.Req{Method: "POST", Path: path, Body: spsim.FormBody("SAMLRequest", payload, "SAMLEncoding", spsim.EncDeflate, "RelayState", "leftover")})
			}
			if pc.Panic == "" && !pc.Accepted() {
				r.Count("preceded_by_refused_broken_stream", 1)
			}
		}
		c.Labels = append(c.Labels, "after_refused_broken_stream")
	}
	// now and then the key storage fails while the request is served: whatever the handler falls back to, the
	// signing requirement stays in force (refusing the request is of course fine)
	if idx%9 == 5 {
		kind := []string{sim.FaultError, sim.FaultNilRecord, sim.FaultKeyNoCert, sim.FaultCertNoKey, sim.FaultEmptyCert}[rng.Intn(5)]
		transient := rng.Intn(2) == 0
		var nth atomic.Int64
		e.W.Plan = func(tag, op string, occ int) string {
			if op == "GetResponseSigningKey" && (nth.Add(1) == 1 || !transient) {
				return kind
			}
			return ""
		}
		c.Labels = append(c.Labels, "key_storage_fault")
		r.Count("requests_during_key_storage_fault", 1)
	}
	call := e.Do(env.Req{Method: c.Method, Path: env.PathSSO, Query: c.Query, Body: c.Body})
	lbl := strings.Join(c.Labels, ",")
	class := fmt.Sprintf("%s|ars=%s|cert=%v|want=%s|%s", lbl, c.ARS, c.HasCert, c.Want, c.Binding)
	desc := map[string]any{"mutation": c.Labels, "AuthnRequestsSigned": c.ARS, "sp_has_cert": c.HasCert, "WantAuthRequestsSigned": c.Want,
		"binding": c.Binding, "alg": c.Alg, "method": c.Method, "query": clipS(c.Query, 2500), "body": clipS(c.Body, 2500), "signed_set": c.Signed}
	out := judgeSSOOutcome(r, wl, idx, class, e, call, desc)
	r.Eval(fmt.Sprintf("%s|%s", class, out))
	r.Count("outcome_"+out, 1)
	r.Seen("mutations", mut.Name)
	r.Seen("configs", fmt.Sprint(cfg))
	if idx < 2*nm*40 && idx%41 == 0 {
		r.Sample("forgery_"+out, map[string]any{"mutation": c.Labels, "config": map[string]any{"ars": c.ARS, "cert": c.HasCert, "want": c.Want}, "binding": c.Binding, "status": call.D.Status})
	}
	if out != "accepted" {
		if mut.Name == "valid_signed" && c.HasCert {
			r.Count("valid_signed_rejected", 1)
		}
		return
	}
	r.Count("accepted_"+mut.Name, 1)
	ev := call.First("CreateAuthRequest")
	if ev == nil || ev.Req == nil {
		return
	}
	// binding as defined by where the message travels
	q, b := formValues(c.Query), formValues(c.Body)
	isRedirect := len(q["SAMLRequest"]) > 0
	bears := false
	judgedR2 := true
	if isRedirect {
		v, ok := unambiguous(q, b, "Signature")
		if !ok {
			judgedR2 = false
		}
		bears = v != ""
	} else {
		v, ok := unambiguous(q, b, "SAMLRequest")
		if !ok {
			judgedR2 = false
		} else if raw, err := base64.StdEncoding.DecodeString(v); err == nil {
			d := etree.NewDocument()
			if err := d.ReadFromBytes(raw); err == nil && d.Root() != nil {
				for _, ch := range d.Root().ChildElements() {
					if ch.Tag == "Signature" && ch.NamespaceURI() == spsim.NSDS {
						if sv := childTag(ch, "SignatureValue"); sv != nil && strings.TrimSpace(sv.Text()) != "" {
							bears = true
						}
					}
				}
			}
		}
	}
	if !judgedR2 {
		r.Count("accepted_ambiguous_parameters_r2_not_judged", 1)
	}
	needMember := c.required(ev.Req.Issuer) || (bears && judgedR2)
	if !needMember {
		r.Count("accepted_no_signature_needed", 1)
		return
	}
	// membership: content acted on == content signed by the key registered for the persisted Issuer
	regKey := ""
	switch ev.Req.Issuer {
	case c.A.EntityID:
		if c.HasCert {
			regKey = "sp0"
		}
	case c.B.EntityID:
		regKey = "sp1"
	}
	persistedRelay := ""
	if len(ev.Args) >= 3 {
		persistedRelay = ev.Args[2]
	}
	why := "nothing was signed with the key registered for the persisted Issuer " + ev.Req.Issuer
	member := false
	wantBinding := "post"
	if isRedirect {
		wantBinding = "redirect"
	}
	for i := range c.Signed {
		s := &c.Signed[i]
		if regKey == "" || s.Key != regKey {
			continue
		}
		if s.Binding != wantBinding {
			why = "the only matching signature was made for the other binding"
			continue
		}
		if d := sameContent(&s.Snap, ev.Req); d != "" {
			why = d
			continue
		}
		if isRedirect && s.Relay != persistedRelay {
			why = fmt.Sprintf("RelayState: signed %q, acted on %q", s.Relay, persistedRelay)
			continue
		}
		member = true
		break
	}
	if member {
		r.Count("accepted_member_of_signed_set", 1)
		return
	}
	clause := "R2_invalid_signature_accepted"
	if c.required(ev.Req.Issuer) {
		clause = "R1_required_but_not_validly_signed"
	}
	r.Violate(core.Violation{Clause: clause, Class: class, Reason: "accepted although " + why, Workload: wl, Index: idx, Case: desc, Observed: call.Describe()})
}

// c05Registration: ONE provider; the requester's registration (signing key, signing requirement) changes between
// requests. Acceptance must follow the CURRENT registration.
func c05Registration(r *core.Run, idx int, rng *rand.Rand) {
	const wl = "registration_changes"
	e := env.Static(env.Opts{})
	keyName, ars := "sp0", ""
	reg := func() {
		d := stdSP(0)
		d.Cert = keys.Get(keyName)
		d.AuthnRequestsSigned = ars
		mustRegister(e.W, d, "appA")
	}
	reg()
	d := stdSP(0)
	for k := 0; k < 8; k++ {
		switch rng.Intn(4) {
		case 0:
			keyName = []string{"sp0", "sp1", "sp2", "sp3"}[rng.Intn(4)]
			reg()
		case 1:
			ars = []string{"", "false", "true", "1"}[rng.Intn(4)]
			reg()
		}
		signWith := []string{"", "sp0", "sp1", "sp2", "sp3", "attacker"}[rng.Intn(6)]
		binding := []string{"redirect", "post"}[rng.Intn(2)]
		a := validAuthn(rng, d)
		x := a.XML(rng)
		s := ssoSend{Binding: binding, XML: x, HasRelay: true, Relay: "MKrelay"}
		if signWith != "" {
			if binding == "redirect" {
				s.SignKey, s.Alg = keys.Get(signWith), spsim.AlgRSASHA256
			} else {
				sx, err := spsim.SignEnveloped(x, keys.Get(signWith), spsim.XMLSignOpts{Alg: spsim.AlgRSASHA256, DropKey: rng.Intn(2) == 0})
				if err != nil {
					panic(err)
				}
				s.XML = sx
			}
		}
		call, _ := s.do(e)
		required := ars == "true" || ars == "1"
		class := fmt.Sprintf("registration|registered_key=%s|ars=%q|signed_with=%s|%s|step=%d", keyName, ars, signWith, binding, k)
		desc := map[string]any{"step": k, "registered_key": keyName, "AuthnRequestsSigned": ars, "signed_with": signWith, "binding": binding}
		r.Eval(fmt.Sprintf("%s|%d", class, idx))
		r.Count("registration_sequence_requests", 1)
		if call.Panic != "" {
			r.Violate(core.Violation{Clause: "panic", Class: class, Reason: call.Panic, Workload: wl, Index: idx, Case: desc, Observed: call.Describe()})
			return
		}
		if !call.Accepted() {
			continue
		}
		r.Count("registration_sequence_accepted", 1)
		if signWith != "" && signWith != keyName {
			r.Violate(core.Violation{Clause: "R2_signature_of_unregistered_key_accepted", Class: class, Reason: fmt.Sprintf("accepted a request signed with %s while the key currently registered for the requester is %s", signWith, keyName), Workload: wl, Index: idx, Case: desc, Observed: call.Describe()})
		}
		if signWith == "" && required {
			r.Violate(core.Violation{Clause: "R1_unsigned_accepted_although_currently_required", Class: class, Reason: "accepted an unsigned request while the current registration says AuthnRequestsSigned=" + ars, Workload: wl, Index: idx, Case: desc, Observed: call.Describe()})
		}
	}
}

func init() {
	register(&Prop{
		ID: "C05", Level: "exploration", DeathIsViolation: true,
		TimeoutQuick: 5 * time.Minute, TimeoutThorough: 30 * time.Minute,
		Build: func(c *Ctx) []core.Workload {
			r := c.Run
			r.Rule = "configuration grid AuthnRequestsSigned {absent,false,0,true,1} x SP certificate {none,one} x WantAuthRequestsSigned {'',false,true,1} (40) crossed with labelled mutations of a validly signed message (valid control, unsigned, field edits after signing, signature bit flips / truncation, RelayState swap, algorithm substitution, signature stripping, attacker key with foreign / victim / missing KeyInfo, other registered SP's key, signature wrapping variants, duplicated children / signatures, Reference URI games, cross-binding moves, parameters split between query and body, duplicated parameters, replayed signature, arbitrary parameter bytes). Oracle = membership of what was persisted in the set of contents the simulated SPs really signed (by key, binding, every request field, RelayState). A second workload keeps ONE provider alive while the requester's registered key and signing requirement change between requests; acceptance must follow the current registration. Distinct = (mutation, configuration, transport, outcome)."
			r.Assume("a signature located only where the other binding defines it, or parameters whose occurrences in query and body differ, are recorded but not judged by the second sentence of the property (R2); the first sentence (R1) is always judged")
			r.Require("distinct_mutations", int64(len(c05Mutations)))
			r.Require("distinct_configs", 40)
			r.Require("accepted_member_of_signed_set", 20)
			r.Require("accepted_no_signature_needed", 20)
			n := 40 * len(c05Mutations)
			r.Require("primed_with_accepted_genuine_request", 100)
			r.Require("registration_sequence_accepted", 100)
			r.Require("tenant_sequence_accepted", 100)
			return []core.Workload{
				{Name: "forgeries", N: n*c.Pick(2, 4) + c.Pick(400, 20000), Fn: c05Run},
				{Name: "registration_changes", N: c.Pick(200, 2000), Fn: c05Registration},
				{Name: "tenant_sequences", N: c.Pick(120, 1200), Fn: func(r *core.Run, idx int, rng *rand.Rand) {
					tenantSequence(r, "tenant_sequences", idx, rng, false, true)
				}},
			}
		},
	})
}
