package props

import (
	"context"
	"errors"
	"fmt"
	"io"
	"math/rand"
	"net/http"
	"net/url"
	"os"
	"os/exec"
	"path/filepath"
	"regexp"
	"runtime/debug"
	"strings"
	"time"

	"github.com/zitadel/saml/pkg/provider"
	"github.com/zitadel/saml/pkg/provider/key"
	"github.com/zitadel/saml/pkg/provider/serviceprovider"

	"verif/harness/core"
	"verif/harness/env"
	"verif/harness/keys"
	"verif/harness/spsim"
)

// C09 — no input crashes a handler or the SP-registration API.

// edit is one structural edit of a Node tree, addressed by pre-order element index.
type edit struct {
	Elem int    // pre-order index of the element
	Attr int    // -1 = the element itself, else attribute index
	Kind string // delete | duplicate | empty | blank (value replaced by white space only) | huge
}

func (e edit) String() string { return fmt.Sprintf("%s(el%d,attr%d)", e.Kind, e.Elem, e.Attr) }

// enumerateEdits lists every single edit of the tree.
func enumerateEdits(root *spsim.Node) []edit {
	var out []edit
	i := 0
	root.Walk(func(p *spsim.Node, _ int, el *spsim.Node) {
		for _, k := range []string{"delete", "duplicate", "empty"} {
			if p == nil && k != "empty" {
				continue // the root can only be emptied
			}
			out = append(out, edit{i, -1, k})
		}
		for a := range el.Attrs {
			for _, k := range []string{"delete", "duplicate", "empty", "blank", "blank_nl", "huge"} {
				out = append(out, edit{i, a, k})
			}
			// attributes that carry numbers get the boundary values of the usual integer types and other lexical forms
			if n := el.Attrs[a].Name; strings.Contains(strings.ToLower(n), "index") || strings.Contains(n, "Count") {
				for k := range c09Numbers {
					out = append(out, edit{i, a, fmt.Sprintf("number%d", k)})
				}
			}
		}
		if len(el.Kids) == 0 && el.Text != "" {
			out = append(out, edit{i, -1, "blank"}, edit{i, -1, "blank_nl"})
		}
		i++
	})
	return out
}

var c09Numbers = []string{"-1", "-0", "+1", "01", "1.0", "1e3", "0x10", " 1", "2", "7", "255", "256", "32767", "32768", "65535", "65536", "2147483647", "2147483648", "-2147483649", "4294967296", "9223372036854775807", "9223372036854775808", "-9223372036854775809", "18446744073709551616", "NaN"}

// applyEdit applies the edit to a clone of root; it returns nil when the address no longer exists.
func applyEdit(root *spsim.Node, ed edit) *spsim.Node {
	c := root.Clone()
	i := 0
	done := false
	c.Walk(func(p *spsim.Node, idx int, el *spsim.Node) {
		if done {
			return
		}
		if i != ed.Elem {
			i++
			return
		}
		i++
		done = true
		if ed.Attr >= 0 {
			if ed.Attr >= len(el.Attrs) {
				return
			}
			switch ed.Kind {
			case "delete":
				el.Attrs = append(el.Attrs[:ed.Attr:ed.Attr], el.Attrs[ed.Attr+1:]...)
			case "duplicate":
				el.Attrs = append(el.Attrs, el.Attrs[ed.Attr])
			case "empty":
				el.Attrs[ed.Attr].Value = ""
			case "blank":
				el.Attrs[ed.Attr].Value = " "
			case "blank_nl":
				el.Attrs[ed.Attr].Value = "\n\t "
			case "huge":
				el.Attrs[ed.Attr].Value = strings.Repeat(el.Attrs[ed.Attr].Value+"9", 3000)
			default:
				var k int
				if _, err := fmt.Sscanf(ed.Kind, "number%d", &k); err == nil && k < len(c09Numbers) {
					el.Attrs[ed.Attr].Value = c09Numbers[k]
				}
			}
			return
		}
		switch ed.Kind {
		case "delete":
			p.Kids = append(p.Kids[:idx:idx], p.Kids[idx+1:]...)
		case "duplicate":
			p.Kids = append(p.Kids, el.Clone())
		case "empty":
			el.Kids, el.Text, el.Raw = nil, "", ""
		case "blank":
			el.Text = " "
		case "blank_nl":
			el.Text = "\n  \t"
		}
	})
	if !done {
		return nil
	}
	return c
}

// c09Base is a message family the edits are applied to.
type c09Base struct {
	Name string
	Root *spsim.Node // the message (for soap: the whole envelope as nodes)
	Send func(e *env.Env, xml string) *env.Call
	Sign bool // sign the edited message with the SP key before sending (valid signature over an odd document)
}

// c09NoIndexSP is a registration whose consumer services carry no index attribute.
func c09NoIndexSP() *spsim.SPDesc {
	d := stdSP(2)
	d.AuthnRequestsSigned = ""
	d.ACS = []spsim.ACS{{Binding: spsim.BindPost, Location: "https://sp2.example/acs/a", NoIndex: true}, {Binding: spsim.BindRedirect, Location: "https://sp2.example/acs/b", NoIndex: true}}
	return d
}

func c09World() *env.Env {
	e := env.Static(env.Opts{})
	mustRegister(e.W, stdSP(0), "appA")
	mustRegister(e.W, c09NoIndexSP(), "appNoIndex")
	u := randUser(rand.New(rand.NewSource(3)), "U_MKc9x", false)
	u.Username = "c09user"
	e.W.AddUser(u)
	return e
}

func c09Bases(rng *rand.Rand) []c09Base {
	sp := stdSP(0)
	st := spsim.Style{PfxP: "samlp", PfxA: "saml"}
	a := validAuthn(rng, sp)
	a.Style = st
	a.Destination, a.ProtocolBinding, a.ACSURL = idpSSO, spsim.BindPost, sp.ACS[0].Location
	a.NameIDPolicy, a.Conditions, a.AuthnContext, a.Scoping, a.Extensions, a.Subject = true, true, true, true, true, "subj"
	a.NotBefore, a.NotOnOrAfter = tsNow(-time.Minute), tsNow(time.Hour)
	// the consumer service named by index instead of URL; once for a registration whose entries carry no index
	ai := *a
	ai.ACSURL, ai.ProtocolBinding, ai.ACSIndex = "", "", "1"
	an := ai
	an.Issuer = c09NoIndexSP().EntityID
	l := conformantLogout(rng, sp)
	l.Style = st
	l.Destination, l.NotOnOrAfter, l.Reason, l.SessionIndex = idpSLO, tsNow(time.Hour), "urn:x", []string{"s1", "s2"}
	q := conformantQuery(rng, sp, "c09user")
	q.Style = st
	q.SoapPfx, q.Header = "soap", true
	q.Destination = idpAttr
	q.Attrs = []spsim.QAttr{{Name: "Email", NameFormat: basicFormat, Friendly: "mail"}, {Name: "UserName", NameFormat: basicFormat}}
	// the envelope as a node tree
	env1 := spsim.El("soap:Envelope", spsim.Attr{Name: "xmlns:soap", Value: spsim.NSOAP}).Add(spsim.El("soap:Header"), spsim.El("soap:Body").Add(q.QueryNode()))

	signedDoc := func(n *spsim.Node) *spsim.Node {
		sx, err := spsim.SignEnveloped(n.Render(""), keys.Get("sp0"), spsim.XMLSignOpts{Alg: spsim.AlgRSASHA256})
		if err != nil {
			panic(err)
		}
		return nodeFromXML(sx)
	}
	sendSSO := func(binding string, signQuery bool) func(e *env.Env, x string) *env.Call {
		return func(e *env.Env, x string) *env.Call {
			s := ssoSend{Binding: binding, XML: x, HasRelay: true, Relay: "r"}
			if signQuery {
				s.SignKey, s.Alg = keys.Get("sp0"), spsim.AlgRSASHA256
			}
			c, _ := s.do(e)
			return c
		}
	}
	sendSLO := func(binding string) func(e *env.Env, x string) *env.Call {
		return func(e *env.Env, x string) *env.Call {
			s := ssoSend{Path: env.PathSLO, Binding: binding, XML: x, HasRelay: true, Relay: "r"}
			c, _ := s.do(e)
			return c
		}
	}
	sendAQ := func(e *env.Env, x string) *env.Call {
		return e.Do(env.Req{Method: "POST", Path: env.PathAttr, Body: x, CT: "text/xml"})
	}
	wrapAQ := func(n *spsim.Node) *spsim.Node {
		return spsim.El("soap:Envelope", spsim.Attr{Name: "xmlns:soap", Value: spsim.NSOAP}).Add(spsim.El("soap:Body").Add(n))
	}
	return []c09Base{
		{Name: "authn/redirect/unsigned", Root: a.Node(), Send: sendSSO("redirect", false)},
		{Name: "authn/post/consumer_index", Root: ai.Node(), Send: sendSSO("post", false)},
		{Name: "authn/redirect/consumer_index/sp_without_index_attributes", Root: an.Node(), Send: sendSSO("redirect", false)},
		{Name: "authn/redirect/query_signed", Root: a.Node(), Send: sendSSO("redirect", true)},
		{Name: "authn/post/unsigned", Root: a.Node(), Send: sendSSO("post", false)},
		{Name: "authn/post/signed_then_edited", Root: signedDoc(a.Node()), Send: sendSSO("post", false)},
		{Name: "authn/redirect/embedded_signature_edited", Root: signedDoc(a.Node()), Send: sendSSO("redirect", false)},
		{Name: "authn/post/edited_then_signed", Root: a.Node(), Send: sendSSO("post", false), Sign: true},
		{Name: "logout/post", Root: l.Node(), Send: sendSLO("post")},
		{Name: "logout/redirect", Root: l.Node(), Send: sendSLO("redirect")},
		{Name: "logout/post/signed_then_edited", Root: signedDoc(l.Node()), Send: sendSLO("post")},
		{Name: "attribute_query/soap", Root: env1, Send: sendAQ},
		{Name: "attribute_query/soap/signed_then_edited", Root: wrapAQ(signedDoc(q.QueryNode())), Send: sendAQ},
	}
}

// nodeFromXML converts a serialised document into the Node model (via etree).
func nodeFromXML(x string) *spsim.Node {
	d := parseDoc(x)
	var conv func(e interface{}) *spsim.Node
	_ = conv
	return etreeToNode(d.Root())
}

// c09PairsWithMissingChild (quick tier's share of the pairwise edits): one child of the document element is deleted
// and every single edit is applied on top of that - the pairs in which a step that reports about a defect (of a
// date, a number, a name ...) meets an element that is not there.
func c09PairsWithMissingChild(r *core.Run, idx int, rng *rand.Rand) {
	const wl = "edit_pairs_with_a_missing_child"
	bases := c09Bases(rand.New(rand.NewSource(11)))
	b := bases[idx%len(bases)]
	e := c09World()
	e.W.NoLog = true
	var firsts []edit
	i := 0
	b.Root.Walk(func(p *spsim.Node, _ int, el *spsim.Node) {
		if p == b.Root {
			firsts = append(firsts, edit{i, -1, "delete"})
		}
		i++
	})
	n := 0
	for _, e1 := range firsts {
		n1 := applyEdit(b.Root, e1)
		if n1 == nil {
			continue
		}
		for _, e2 := range enumerateEdits(n1) {
			n2 := applyEdit(n1, e2)
			if n2 == nil {
				continue
			}
			x := n2.Render("")
			if b.Sign {
				if sx, err := spsim.SignEnveloped(x, keys.Get("sp0"), spsim.XMLSignOpts{Alg: spsim.AlgRSASHA256}); err == nil {
					x = sx
				}
			}
			call := b.Send(e, x)
			n++
			if call.Panic != "" {
				r.Violate(core.Violation{Clause: "panic", Class: b.Name, Reason: firstLine(call.Panic) + " @ " + panicSite(call.Stack), Workload: wl, Index: idx,
					Case: map[string]any{"base": b.Name, "edit": e1.String() + "+" + e2.String(), "xml": clipS(x, 3000)}, Observed: call.Describe()})
			}
		}
	}
	r.EvalBulk(int64(n), int64(n))
	r.Count("requests", int64(n))
	r.Count("edit_pairs_with_a_missing_child", int64(n))
}

func c09Edits(pairs bool) func(r *core.Run, idx int, rng *rand.Rand) {
	return func(r *core.Run, idx int, rng *rand.Rand) {
		wl := "single_edits"
		if pairs {
			wl = "edit_pairs"
		}
		bases := c09Bases(rand.New(rand.NewSource(11)))
		b := bases[idx%len(bases)]
		part, parts := idx/len(bases), 1
		if pairs {
			parts = 16
		}
		e := c09World()
		e.W.NoLog = true
		edits := enumerateEdits(b.Root)
		run := func(n *spsim.Node, label string) {
			x := n.Render("")
			if b.Sign {
				if sx, err := spsim.SignEnveloped(x, keys.Get("sp0"), spsim.XMLSignOpts{Alg: spsim.AlgRSASHA256}); err == nil {
					x = sx
				}
			}
			call := b.Send(e, x)
			r.Count("requests", 1)
			if call.Panic != "" {
				r.Violate(core.Violation{Clause: "panic", Class: b.Name, Reason: firstLine(call.Panic) + " @ " + panicSite(call.Stack), Workload: wl, Index: idx,
					Case: map[string]any{"base": b.Name, "edit": label, "xml": clipS(x, 3000)}, Observed: call.Describe()})
			}
			r.Seen("reply_status", fmt.Sprintf("%s/%d", b.Name, call.D.Status))
		}
		if !pairs {
			run(b.Root, "none")
			for _, ed := range edits {
				if n := applyEdit(b.Root, ed); n != nil {
					run(n, ed.String())
				}
			}
			r.EvalBulk(int64(len(edits)+1), int64(len(edits)))
			r.Count("single_edits", int64(len(edits)))
			r.Sample("edited_message", map[string]any{"base": b.Name, "edits": len(edits), "example": edits[len(edits)/2].String()})
			return
		}
		n := 0
		for i, e1 := range edits {
			if i%parts != part {
				continue
			}
			n1 := applyEdit(b.Root, e1)
			if n1 == nil {
				continue
			}
			for _, e2 := range enumerateEdits(n1) {
				if n2 := applyEdit(n1, e2); n2 != nil {
					run(n2, e1.String()+"+"+e2.String())
					n++
				}
			}
		}
		r.EvalBulk(int64(n), int64(n))
		r.Count("edit_pairs", int64(n))
	}
}

func firstLine(s string) string {
	if i := strings.IndexByte(s, '\n'); i >= 0 {
		return s[:i]
	}
	return s
}

// panicSite returns the first repo frame of a stack.
func panicSite(stack string) string {
	lines := strings.Split(stack, "\n")
	for i, l := range lines {
		if strings.HasPrefix(l, "github.com/zitadel/saml/") && i+1 < len(lines) {
			f := strings.TrimSpace(lines[i+1])
			if j := strings.Index(f, " +0x"); j > 0 {
				f = f[:j]
			}
			return f
		}
	}
	return "?"
}

// ---------- SigAlg x key type ----------

var allSigAlgs = []string{
	"http://www.w3.org/2000/09/xmldsig#rsa-sha1", "http://www.w3.org/2001/04/xmldsig-more#rsa-sha256", "http://www.w3.org/2001/04/xmldsig-more#rsa-sha384",
	"http://www.w3.org/2001/04/xmldsig-more#rsa-sha512", "http://www.w3.org/2000/09/xmldsig#dsa-sha1", "http://www.w3.org/2009/xmldsig11#dsa-sha256",
	"http://www.w3.org/2001/04/xmldsig-more#ecdsa-sha1", "http://www.w3.org/2001/04/xmldsig-more#ecdsa-sha256", "http://www.w3.org/2001/04/xmldsig-more#ecdsa-sha384",
	"http://www.w3.org/2001/04/xmldsig-more#ecdsa-sha512", "http://www.w3.org/2021/04/xmldsig-more#eddsa-ed25519", "http://www.w3.org/2000/09/xmldsig#hmac-sha1", "", "garbage",
}

func c09KeyGrid(r *core.Run, idx int, rng *rand.Rand) {
	const wl = "sigalg_keytype_grid"
	keyNames := []string{"sp0", "ec", "ed", "dsa", ""}
	kn := keyNames[idx%len(keyNames)]
	alg := allSigAlgs[(idx/len(keyNames))%len(allSigAlgs)]
	e := env.Static(env.Opts{})
	d := stdSP(0)
	if kn == "" {
		d.Cert = nil
	} else {
		d.Cert = keys.Get(kn)
	}
	var regErr error
	var regPanic string
	func() {
		defer func() {
			if p := recover(); p != nil {
				regPanic = fmt.Sprint(p) + "\n" + string(debug.Stack())
			}
		}()
		_, regErr = e.W.AddSP("appA", d.XML())
	}()
	class := fmt.Sprintf("key=%s|alg=%s", kn, alg)
	r.Eval(class)
	if regPanic != "" {
		r.Violate(core.Violation{Clause: "panic_in_registration", Class: class, Reason: firstLine(regPanic) + " @ " + panicSite(regPanic), Workload: wl, Index: idx, Case: map[string]any{"metadata": clipS(string(d.XML()), 2500)}})
		return
	}
	if regErr != nil {
		r.Count("registration_refused", 1)
		return
	}
	a := validAuthn(rng, d)
	x := a.XML(rng)
	sigs := []string{spsim.B64([]byte("0123456789abcdef0123456789abcdef")), "MEUCIQDx", spsim.B64([]byte{0x30, 0x06, 0x02, 0x01, 0x01, 0x02, 0x01, 0x01}), "", "!"}
	for _, sig := range sigs {
		for _, binding := range []string{"redirect", "post"} {
			var call *env.Call
			if binding == "redirect" {
				q := "SAMLRequest=" + url.QueryEscape(spsim.DeflateB64(x)) + "&SigAlg=" + url.QueryEscape(alg) + "&Signature=" + url.QueryEscape(sig)
				call = e.Do(env.Req{Path: env.PathSSO, Query: q})
			} else {
				// embedded signature made with an RSA key (with and without KeyInfo), registered key of another type or none
				sx, err := spsim.SignEnveloped(x, keys.Get("sp1"), spsim.XMLSignOpts{Alg: spsim.AlgRSASHA256, DropKey: sig == "" || sig == "!"})
				if err != nil {
					panic(err)
				}
				if alg != "" {
					sx = strings.Replace(sx, spsim.AlgRSASHA256, alg, 1)
				}
				call = e.Do(env.Req{Method: "POST", Path: env.PathSSO, Body: spsim.FormBody("SAMLRequest", spsim.B64([]byte(sx)), "SigAlg", alg, "Signature", sig)})
			}
			r.Count("requests", 1)
			if call.Panic != "" {
				r.Violate(core.Violation{Clause: "panic", Class: class, Reason: firstLine(call.Panic) + " @ " + panicSite(call.Stack), Workload: wl, Index: idx, Case: map[string]any{"key": kn, "alg": alg, "signature": sig, "binding": binding}, Observed: call.Describe()})
			}
		}
	}
	r.Count("grid_cells", 1)
}

// ---------- endpoints x methods x parameters ----------

// contentTypes: what a request may announce about its body (media types of every family the form parsers of net/http
// distinguish, in several spellings, well-formed or not).
var contentTypes = []string{"", "application/x-www-form-urlencoded", "text/xml", "multipart/form-data; boundary=x", "application/json", "application/x-www-form-urlencoded; charset=bogus",
	"multipart/mixed; boundary=x", "multipart/related; boundary=x", "Multipart/Mixed; boundary=x", "multipart/form-data", "multipart/form-data; boundary=", "MULTIPART/FORM-DATA; BOUNDARY=x",
	"multipart/byteranges; boundary=x", "multipart/", "text/plain", "application/octet-stream", "application/soap+xml; charset=utf-8", "/;=", ";;;", "application/x-www-form-urlencoded;",
	"application/x-www-form-urlencoded; boundary=x", "text/xml; charset=utf-16", "*/*", "application/x-www-form-urlencoded, text/xml"}

func c09Endpoints(r *core.Run, idx int, rng *rand.Rand) {
	const wl = "endpoint_parameter_grid"
	e := c09World()
	paths := []string{env.PathSSO, env.PathLogin, env.PathSLO, env.PathAttr, env.PathMetadata, env.PathCert, "/healthz", "/ready", "/", "/unknown", "/SSO/", "//SSO", "/sso"}
	methods := []string{"GET", "POST", "HEAD", "PUT", "DELETE", "OPTIONS", "PATCH", "TRACE", "BOGUS"}
	path := paths[idx%len(paths)]
	method := methods[(idx/len(paths))%len(methods)]
	names := []string{"SAMLRequest", "SAMLEncoding", "RelayState", "SigAlg", "Signature", "id", "SAMLResponse"}
	vals := []string{"", "x", "%", "%zz", spsim.B64([]byte("<x/>")), spsim.DeflateB64("<x/>"), strings.Repeat("A", 70000), "\x00", "id=1&id=2"}
	for k := 0; k < 40; k++ {
		var q, body []string
		for i := rng.Intn(5); i > 0; i-- {
			kv := url.QueryEscape(names[rng.Intn(len(names))]) + "=" + url.QueryEscape(vals[rng.Intn(len(vals))])
			if rng.Intn(6) == 0 {
				kv = names[rng.Intn(len(names))] + "=" + vals[rng.Intn(4)] // raw, possibly malformed escapes
			}
			if rng.Intn(2) == 0 {
				q = append(q, kv)
			} else {
				body = append(body, kv)
			}
		}
		ct := contentTypes[rng.Intn(len(contentTypes))]
		r.Seen("content_types", ct)
		hdr := map[string][]string{}
		if rng.Intn(3) == 0 {
			hdr["Origin"] = []string{"https://evil.example"}
			hdr["Access-Control-Request-Method"] = []string{"POST"}
		}
		if rng.Intn(4) == 0 {
			hdr["Forwarded"] = []string{[]string{"host=a.example", "host=\"", "for=1;host", ";;;", "host=a, host=b"}[rng.Intn(5)]}
		}
		bodyText := strings.Join(body, "&")
		if strings.HasPrefix(strings.ToLower(ct), "multipart/") && rng.Intn(2) == 0 {
			// a body that really is multipart (boundary x), complete or cut off
			var mb strings.Builder
			for i := 0; i+1 <= len(body); i++ {
				n, v, _ := strings.Cut(body[i], "=")
				mb.WriteString("--x\r\nContent-Disposition: form-data; name=\"" + n + "\"\r\n\r\n" + v + "\r\n")
			}
			mb.WriteString("--x--\r\n")
			bodyText = mb.String()
			if rng.Intn(3) == 0 {
				bodyText = bodyText[:rng.Intn(len(bodyText))]
			}
		}
		call := e.Do(env.Req{Method: method, Path: path, Query: strings.Join(q, "&"), Body: bodyText, CT: ct, Headers: hdr, Host: []string{"", "idp.example", "x y", "[::1]:80", ""}[rng.Intn(5)]})
		r.Count("requests", 1)
		if call.Panic != "" {
			r.Violate(core.Violation{Clause: "panic", Class: path + "|" + method, Reason: firstLine(call.Panic) + " @ " + panicSite(call.Stack), Workload: wl, Index: idx, Observed: call.Describe()})
		}
		r.Seen("endpoint_status", fmt.Sprintf("%s/%s/%d", path, method, call.D.Status))
	}
	r.Eval(path + "|" + method)
}

// ---------- byte-level mutations ----------

func mutateBytes(rng *rand.Rand, b []byte) []byte {
	out := append([]byte(nil), b...)
	for n := 1 + rng.Intn(4); n > 0 && len(out) > 0; n-- {
		i := rng.Intn(len(out))
		switch rng.Intn(6) {
		case 0:
			out[i] ^= 1 << uint(rng.Intn(8))
		case 1:
			out = append(out[:i], out[i+1:]...)
		case 2:
			out = append(out[:i], append([]byte{byte(rng.Intn(256))}, out[i:]...)...)
		case 3:
			j := rng.Intn(len(out))
			if i > j {
				i, j = j, i
			}
			out = append(out[:i], out[j:]...)
		case 4:
			j := i + rng.Intn(40)
			if j > len(out) {
				j = len(out)
			}
			out = append(out[:j], append(append([]byte(nil), out[i:j]...), out[j:]...)...)
		default:
			out[i] = "<>&\"'/= \x00"[rng.Intn(9)]
		}
	}
	return out
}

func c09Bytes(r *core.Run, idx int, rng *rand.Rand) {
	const wl = "byte_mutations"
	bases := c09Bases(rand.New(rand.NewSource(11)))
	b := bases[idx%len(bases)]
	e := c09World()
	e.W.NoLog = true
	x := []byte(b.Root.Render(""))
	for k := 0; k < 50; k++ {
		m := mutateBytes(rng, x)
		call := b.Send(e, string(m))
		r.Count("requests", 1)
		if call.Panic != "" {
			r.Violate(core.Violation{Clause: "panic", Class: b.Name, Reason: firstLine(call.Panic) + " @ " + panicSite(call.Stack), Workload: wl, Index: idx, Case: map[string]any{"base": b.Name, "xml": clipS(string(m), 3000)}, Observed: call.Describe()})
		}
	}
	// mutations of the encoded parameter itself
	enc := spsim.DeflateB64(string(x))
	for k := 0; k < 20; k++ {
		m := mutateBytes(rng, []byte(enc))
		path := env.PathSSO
		if strings.HasPrefix(b.Name, "logout") {
			path = env.PathSLO
		}
		call := e.Do(env.Req{Path: path, Query: "SAMLRequest=" + url.QueryEscape(string(m))})
		r.Count("requests", 1)
		if call.Panic != "" {
			r.Violate(core.Violation{Clause: "panic", Class: b.Name + "/encoded", Reason: firstLine(call.Panic) + " @ " + panicSite(call.Stack), Workload: wl, Index: idx, Observed: call.Describe()})
		}
	}
	r.Eval(fmt.Sprintf("%s|%d", b.Name, idx))
}

// ---------- SP metadata ----------

func c09Metadata(r *core.Run, idx int, rng *rand.Rand) {
	const wl = "sp_metadata"
	d := stdSP(0)
	d.ACS = append(d.ACS, spsim.ACS{Binding: spsim.BindRedirect, Location: "https://sp0.example/acs2", Index: "1"})
	d.AuthnRequestsSigned, d.WantAssertionSigned = "true", "true"
	root := d.Node()
	edits := enumerateEdits(root)
	try := func(doc []byte, label string) {
		var pan string
		var sp *serviceprovider.ServiceProvider
		var err error
		func() {
			defer func() {
				if p := recover(); p != nil {
					pan = fmt.Sprint(p) + "\n" + string(debug.Stack())
				}
			}()
			sp, err = serviceprovider.NewServiceProvider("app", &serviceprovider.Config{Metadata: doc}, func(s string) string { return s })
			if err == nil && sp != nil {
				_ = sp.GetEntityID()
				_ = sp.ValidateRedirectSignature("req", "relay", spsim.AlgRSASHA256, spsim.B64([]byte("sig")))
				_ = sp.ValidatePostSignature("<a/>")
			}
		}()
		r.Count("metadata_documents", 1)
		if pan != "" {
			r.Violate(core.Violation{Clause: "panic_in_registration", Class: "metadata|" + label, Reason: firstLine(pan) + " @ " + panicSite(pan), Workload: wl, Index: idx, Case: map[string]any{"edit": label, "metadata": clipS(string(doc), 3000)}})
			return
		}
		if err != nil {
			r.Count("metadata_refused", 1)
			return
		}
		r.Count("metadata_accepted", 1)
		// an accepted registration must also survive a request naming it
		e := env.Static(env.Opts{})
		e.W.NoLog = true
		e.W.PutSP(sp, "app")
		a := validAuthn(rng, d)
		a.Issuer = sp.GetEntityID()
		s := ssoSend{Binding: []string{"redirect", "post"}[rng.Intn(2)], XML: a.XML(rng)}
		if rng.Intn(2) == 0 {
			s.SignKey, s.Alg = keys.Get("sp0"), spsim.AlgRSASHA256
		}
		call, _ := s.do(e)
		l := conformantLogout(rng, d)
		l.Issuer = sp.GetEntityID()
		s2 := ssoSend{Path: env.PathSLO, Binding: "post", XML: l.XML(rng)}
		call2, _ := s2.do(e)
		// replies that have to be delivered to the registered consumer: a request refused after its consumer was chosen,
		// and the callback of a stored request naming each registered consumer
		bad := validAuthn(rng, d)
		bad.Issuer = sp.GetEntityID()
		bad.Destination = "https://elsewhere.example/SSO"
		s3 := ssoSend{Binding: "redirect", XML: bad.XML(rng), HasRelay: true, Relay: "r"}
		call3, _ := s3.do(e)
		calls := []*env.Call{call, call2, call3}
		if sp.Metadata != nil && sp.Metadata.SPSSODescriptor != nil {
			for i, acs := range sp.Metadata.SPSSODescriptor.AssertionConsumerService {
				if i >= 4 {
					break
				}
				sc := randScenario(rng, fmt.Sprintf("MKc9m%d", i), false)
				sc.Host = ""
				sc.S.ACS, sc.S.Binding = acs.Location, acs.Binding
				sc.install(e.W)
				calls = append(calls, sc.callback(e))
			}
		}
		for _, c := range calls {
			r.Count("requests", 1)
			if c.Panic != "" {
				r.Violate(core.Violation{Clause: "panic", Class: "request_after_metadata|" + label, Reason: firstLine(c.Panic) + " @ " + panicSite(c.Stack), Workload: wl, Index: idx, Case: map[string]any{"edit": label, "metadata": clipS(string(doc), 3000)}, Observed: c.Describe()})
			}
		}
	}
	switch idx {
	case 0:
		try(d.XML(), "none")
		for _, ed := range edits {
			if n := applyEdit(root, ed); n != nil {
				try([]byte(n.Render("")), ed.String())
			}
		}
		r.EvalBulk(int64(len(edits)), int64(len(edits)))
	case 1:
		// certificates: garbled and of non-RSA type, wrapped, PEM armoured, empty
		certs := []string{"", " ", "AAAA", "not base64!", keys.Get("ec").B64(), keys.Get("ed").B64(), keys.Get("dsa").B64(),
			keys.Get("sp0").B64()[:100], "-----BEGIN CERTIFICATE-----\n" + keys.Get("sp0").B64Wrapped(64, "\n") + "\n-----END CERTIFICATE-----",
			spsim.B64([]byte("-----BEGIN CERTIFICATE-----\n" + keys.Get("sp0").B64Wrapped(64, "\n") + "\n-----END CERTIFICATE-----\n")),
			keys.Get("sp0").B64() + keys.Get("sp1").B64(), strings.Repeat("A", 100000)}
		for i, ct := range certs {
			n := root.Clone()
			n.Find("X509Certificate").Text = ct
			try([]byte(n.Render("")), fmt.Sprintf("cert%d", i))
			// two key descriptors
			n2 := root.Clone()
			kd := n2.Find("KeyDescriptor").Clone()
			kd.Find("X509Certificate").Text = ct
			n2.Find("SPSSODescriptor").Kids = append([]*spsim.Node{kd}, n2.Find("SPSSODescriptor").Kids...)
			try([]byte(n2.Render("")), fmt.Sprintf("cert%d+second_descriptor", i))
		}
		r.EvalBulk(int64(2*len(certs)), int64(2*len(certs)))
	case 2:
		// consumer and logout locations that are no URLs a parser accepts
		odd := []string{"https://sp.example/acs\nnext-line", " https://sp.example/acs", "https://sp.example/{tenant}/acs", "https://sp.example/%zz", "https://sp.example:port/acs", "http://[::1", "://", "%", "\x7f", "", "https://sp.example/a b", "https://user:pa ss@sp.example/", "https://sp.example/acs#frag", "mailto:x@sp.example", "//sp.example/acs", "https://sp.example/acs?%"}
		for i, loc := range odd {
			for _, b := range []string{spsim.BindRedirect, spsim.BindPost} {
				d2 := *d
				d2.ACS = []spsim.ACS{{Binding: b, Location: loc, Index: "0"}}
				d2.SLO = []spsim.SLO{{Binding: spsim.BindPost, Location: loc}}
				try(d2.XML(), fmt.Sprintf("odd_location%d", i))
			}
		}
		r.EvalBulk(int64(2*len(odd)), int64(2*len(odd)))
	default:
		x := d.XML()
		for k := 0; k < 200; k++ {
			try(mutateBytes(rng, x), "bytes")
		}
		// the same document under every kind of declared encoding: implemented, registered but exotic, unknown, empty
		for _, enc := range declaredEncodings {
			body := strings.TrimSpace(strings.TrimPrefix(strings.TrimSpace(string(x)), `<?xml version="1.0" encoding="UTF-8"?>`))
			try([]byte(`<?xml version="1.0" encoding="`+enc+`"?>`+"\n"+body), "declared_encoding")
			try([]byte(`<?xml version='1.1' encoding='`+enc+`' standalone='yes'?>`+body), "declared_encoding")
		}
		r.Count("metadata_with_declared_encoding", int64(2*len(declaredEncodings)))
		// aggregates: EntitiesDescriptor wrappers around the service provider's document, around other entities, around
		// nothing, nested
		inner := strings.TrimSpace(strings.TrimPrefix(strings.TrimSpace(string(x)), `<?xml version="1.0" encoding="UTF-8"?>`))
		idpEntity := `<md:EntityDescriptor xmlns:md="` + spsim.NSMD + `" entityID="https://partner-idp.example/metadata"><md:IDPSSODescriptor protocolSupportEnumeration="` + spsim.NSP + `"><md:SingleSignOnService Binding="` + spsim.BindRedirect + `" Location="https://partner-idp.example/sso"/></md:IDPSSODescriptor></md:EntityDescriptor>`
		grp := func(kids ...string) string {
			return `<md:EntitiesDescriptor xmlns:md="` + spsim.NSMD + `" Name="urn:example:federation">` + strings.Join(kids, "") + `</md:EntitiesDescriptor>`
		}
		for _, agg := range []string{grp(inner), grp(inner, idpEntity), grp(idpEntity, inner), grp(idpEntity), grp(), grp(grp()), grp(grp(idpEntity)), grp(grp(inner)), grp(grp(), grp()), grp(grp(grp(grp(grp(inner))))),
			grp(idpEntity, grp(inner)), grp(grp(idpEntity), grp(idpEntity)), grp(inner, inner), `<?xml version="1.0" encoding="UTF-8"?>` + "\n" + grp(inner, idpEntity)} {
			try([]byte(agg), "aggregate")
		}
		r.Count("aggregate_metadata_documents", 14)
		for _, s := range []string{"", "<", "<?xml version=\"1.0\"?>", "<EntityDescriptor/>", "<EntitiesDescriptor xmlns=\"" + spsim.NSMD + "\"/>", "<md:EntityDescriptor xmlns:md=\"" + spsim.NSMD + "\"><md:IDPSSODescriptor/></md:EntityDescriptor>", "\xff\xfe<\x00"} {
			try([]byte(s), "shape")
		}
		r.Eval(fmt.Sprintf("metadata_bytes|%d", idx))
	}
}

// declaredEncodings are names an XML declaration may carry (IANA character-set names and aliases, and a few that
// are none).
var declaredEncodings = []string{"UTF-8", "utf-8", "utf8", "UTF-16", "UTF-16LE", "UTF-16BE", "UTF-32", "UTF-32BE", "UTF-32LE", "UTF-7", "CESU-8", "US-ASCII", "ASCII",
	"ISO-8859-1", "latin1", "ISO-8859-15", "windows-1252", "cp1252", "windows-1251", "KOI8-R", "macintosh", "IBM437", "IBM037", "EBCDIC-US", "EBCDIC-CP-US",
	"Shift_JIS", "EUC-JP", "ISO-2022-JP", "ISO-2022-KR", "ISO-2022-CN", "EUC-KR", "GBK", "GB2312", "GB18030", "Big5", "Big5-HKSCS", "HZ-GB-2312",
	"ISO-10646-UCS-2", "ISO-10646-UCS-4", "UCS-2", "UNICODE-1-1-UTF-7", "SCSU", "BOCU-1", "TIS-620", "VISCII", "x-user-defined", "x-unknown", "none", "", " ", "binary", "utf-8 ", "UTF\u20138"}

// ---------- requests after a storage fault, tiny payloads ----------

// c09AfterFault serves, on ONE provider, a request during which a storage operation fails and then the
// same request again without fault (and a metadata request): none of them may panic.
func c09AfterFault(r *core.Run, idx int, rng *rand.Rand) {
	const wl = "requests_after_storage_faults"
	scs := c10Scenarios()
	sc := &scs[idx%len(scs)]
	o := sc.Opts
	if rng.Intn(2) == 0 {
		o.Org = &provider.Organisation{Name: "O", DisplayName: "D", URL: "https://o.example"}
		o.Contact = &provider.ContactPerson{ContactType: "technical", Company: "C"}
	}
	_, base := sc.Run(o, nil, false)
	for _, p := range opSequence(base) {
		for _, k := range faultKinds(p.Op) {
			e, send := sc.run(o)
			fired := map[string]bool{}
			f := faultPos{p.Op, p.Occ, k}
			e.W.Plan = planFor([]faultPos{f}, fired)
			calls := []*env.Call{send()}
			e.W.Plan = nil
			calls = append(calls, send(), e.Do(env.Req{Path: env.PathMetadata}), send())
			r.Count("requests", int64(len(calls)))
			r.Count("fault_then_good_sequences", 1)
			for i, c := range calls {
				if c.Panic != "" {
					r.Violate(core.Violation{Clause: "panic", Class: fmt.Sprintf("%s|after=%s|request=%d", sc.Name, f, i), Reason: firstLine(c.Panic) + " @ " + panicSite(c.Stack), Workload: wl, Index: idx,
						Case: map[string]any{"scenario": sc.Name, "fault": f.String(), "request_in_sequence": i}, Observed: c.Describe()})
				}
			}
		}
	}
	// the same with faults that persist over several requests of one provider (a storage operation that keeps
	// failing, key material that does not fit together, a signature algorithm the signer refuses), and recovery
	judge := func(class string, what map[string]any, calls []*env.Call) {
		r.Count("requests", int64(len(calls)))
		r.Count("persistent_fault_sequences", 1)
		for i, c := range calls {
			if c.Panic != "" {
				what["request_in_sequence"] = i
				r.Violate(core.Violation{Clause: "panic", Class: fmt.Sprintf("%s|%s|request=%d", sc.Name, class, i), Reason: firstLine(c.Panic) + " @ " + panicSite(c.Stack), Workload: wl, Index: idx, Case: what, Observed: c.Describe()})
			}
		}
	}
	seen := map[string]bool{}
	for _, p := range opSequence(base) {
		if seen[p.Op] {
			continue
		}
		seen[p.Op] = true
		for _, k := range faultKinds(p.Op) {
			e, send := sc.run(o)
			op, kind := p.Op, k
			e.W.Plan = func(tag, o string, occ int) string {
				if o == op {
					return kind
				}
				return ""
			}
			calls := []*env.Call{send(), send(), send(), e.Do(env.Req{Path: env.PathMetadata})}
			e.W.Plan = nil
			calls = append(calls, send(), e.Do(env.Req{Path: env.PathMetadata}))
			judge("persistent="+op+":"+kind, map[string]any{"scenario": sc.Name, "persistent_fault": op + ":" + kind}, calls)
		}
	}
	for _, conf := range []string{"alg_sha512", "alg_unknown", "alg_empty", "torn_response_pair", "torn_metadata_pair"} {
		o2 := o
		switch conf {
		case "alg_sha512":
			o2.SigAlg, o2.NoSigAlg = "http://www.w3.org/2001/04/xmldsig-more#rsa-sha512", true
		case "alg_unknown":
			o2.SigAlg, o2.NoSigAlg = "urn:unknown:algorithm", true
		case "alg_empty":
			o2.SigAlg, o2.NoSigAlg = "", true
		}
		e, send := sc.run(o2)
		good := [2]*key.CertificateAndKey{e.W.RespKey, e.W.MetaKey}
		switch conf {
		case "torn_response_pair":
			e.W.RespKey = &key.CertificateAndKey{Certificate: good[0].Certificate, Key: good[1].Key}
		case "torn_metadata_pair":
			e.W.MetaKey = &key.CertificateAndKey{Certificate: good[1].Certificate, Key: good[0].Key}
		}
		calls := []*env.Call{send(), send(), send(), e.Do(env.Req{Path: env.PathMetadata})}
		e.W.RespKey, e.W.MetaKey = good[0], good[1]
		calls = append(calls, send(), e.Do(env.Req{Path: env.PathMetadata}))
		judge("configuration="+conf, map[string]any{"scenario": sc.Name, "configuration": conf}, calls)
	}
	r.Eval(fmt.Sprintf("after_fault|%s|%d", sc.Name, idx))
}

// failingBody delivers n bytes of data and then fails.
type failingBody struct {
	data []byte
	n    int
	pos  int
	err  error
}

func (b *failingBody) Read(p []byte) (int, error) {
	if b.pos >= b.n {
		return 0, b.err
	}
	k := copy(p, b.data[b.pos:b.n])
	b.pos += k
	return k, nil
}

// c09Uploads: request bodies that break off with an IO error (connection reset, body limit of an interceptor) at
// every kind of position, and query strings with parts that are legal but odd (no value, no name, stray separators)
// beside a message that decodes and carries a signature.
// cancelAtEOF is a request body after whose last byte the client goes away.
type cancelAtEOF struct {
	r      io.Reader
	cancel context.CancelFunc
}

func (c *cancelAtEOF) Read(p []byte) (int, error) {
	n, err := c.r.Read(p)
	if err == io.EOF {
		c.cancel()
	}
	return n, err
}

func c09Uploads(r *core.Run, idx int, rng *rand.Rand) {
	const wl = "broken_uploads_and_odd_queries"
	e := c09World()
	e.W.NoLog = true
	sp := stdSP(0)
	a := validAuthn(rng, sp)
	l := conformantLogout(rng, sp)
	q := conformantQuery(rng, sp, "c09user")
	judge := func(class string, what map[string]any, c *env.Call) {
		r.Count("requests", 1)
		if c.Panic != "" {
			r.Violate(core.Violation{Clause: "panic", Class: class, Reason: firstLine(c.Panic) + " @ " + panicSite(c.Stack), Workload: wl, Index: idx, Case: what, Observed: c.Describe()})
		}
	}
	posts := []struct{ name, path, ct, body string }{
		{"sso_form", env.PathSSO, "", spsim.FormBody("SAMLRequest", spsim.B64([]byte(a.XML(rng))), "RelayState", "r")},
		{"logout_form", env.PathSLO, "", spsim.FormBody("SAMLRequest", spsim.B64([]byte(l.XML(rng))), "RelayState", "r")},
		{"attribute_query", env.PathAttr, "text/xml", q.XML(rng)},
		{"callback_form", env.PathLogin, "", "id=unknown"},
	}
	errs := []error{io.ErrUnexpectedEOF, errors.New("read tcp 192.0.2.1:443: connection reset by peer"), &http.MaxBytesError{Limit: 16}, context.Canceled}
	for _, p := range posts {
		for _, cut := range []int{0, 1, len(p.body) / 3, len(p.body) / 2, len(p.body) - 1, len(p.body)} {
			for _, er := range errs {
				fb := &failingBody{data: []byte(p.body), n: cut, err: er}
				c := e.Do(env.Req{Method: "POST", Path: p.path, CT: p.ct, BodyReader: fb, BodyLen: int64(len(p.body))})
				judge("broken_upload|"+p.name, map[string]any{"endpoint": p.name, "body_bytes_delivered": cut, "of": len(p.body), "error": er.Error()}, c)
				r.Count("broken_uploads", 1)
			}
		}
	}
	// the same bodies, complete, but of unknown length (chunked upload: ContentLength is -1)
	for _, p := range posts {
		c := e.Do(env.Req{Method: "POST", Path: p.path, CT: p.ct, BodyReader: strings.NewReader(p.body), BodyLen: -1})
		judge("upload_of_unknown_length|"+p.name, map[string]any{"endpoint": p.name}, c)
		c = e.Do(env.Req{Method: "POST", Path: p.path, CT: p.ct, BodyReader: strings.NewReader(p.body), BodyLen: 0})
		judge("upload_with_wrong_length|"+p.name, map[string]any{"endpoint": p.name}, c)
		c = e.Do(env.Req{Method: "POST", Path: p.path, CT: p.ct, BodyReader: strings.NewReader(p.body), BodyLen: int64(len(p.body)) * 1000})
		judge("upload_with_wrong_length|"+p.name, map[string]any{"endpoint": p.name}, c)
		r.Count("uploads_of_unknown_length", 1)
	}
	// the client goes away (the request's context is cancelled) at every kind of moment: before the handler starts,
	// when the body has just been read, inside the k-th storage call. Valid and undecodable messages alike.
	gone := 0
	mredir := &spsim.RedirectMsg{Param: "SAMLRequest", Value: spsim.DeflateB64(a.XML(rng)), RelayState: "r", HasRelay: true, Pct: spsim.PctGo}
	lredir := &spsim.RedirectMsg{Param: "SAMLRequest", Value: spsim.DeflateB64(l.XML(rng)), RelayState: "r", HasRelay: true, Pct: spsim.PctGo}
	type greq struct{ name, method, path, ct, query, body string }
	greqs := []greq{
		{"sso_query", "GET", env.PathSSO, "", mredir.RawQuery(), ""},
		{"logout_query", "GET", env.PathSLO, "", lredir.RawQuery(), ""},
		{"sso_query_undecodable", "GET", env.PathSSO, "", "SAMLRequest=%21%21", ""},
		{"logout_query_undecodable", "GET", env.PathSLO, "", "SAMLRequest=AAAA", ""},
		{"callback_query", "GET", env.PathLogin, "", "id=unknown", ""},
		{"metadata", "GET", env.PathMetadata, "", "", ""},
		{"certificate", "GET", env.PathCert, "", "", ""},
	}
	for _, p := range posts {
		greqs = append(greqs, greq{p.name, "POST", p.path, p.ct, "", p.body})
	}
	for _, g := range greqs {
		for moment := 0; moment <= 6; moment++ {
			ctx, cancel := context.WithCancel(context.Background())
			rq := env.Req{Method: g.method, Path: g.path, CT: g.ct, Query: g.query, Ctx: ctx}
			what := ""
			switch {
			case moment == 0:
				what = "before the handler starts"
				cancel()
				rq.Body = g.body
			case moment == 1:
				if g.body == "" {
					cancel()
					continue
				}
				what = "when the body has been read"
				rq.BodyReader, rq.BodyLen = &cancelAtEOF{r: strings.NewReader(g.body), cancel: cancel}, int64(len(g.body))
			default:
				k := moment - 1
				what = fmt.Sprintf("inside storage call %d", k)
				rq.Body = g.body
				n := 0
				e.W.Before = func(context.Context, string, string, int) {
					if n++; n == k {
						cancel()
					}
				}
			}
			c := e.Do(rq)
			e.W.Before = nil
			cancel()
			judge("client_gone|"+g.name, map[string]any{"endpoint": g.name, "client_went_away": what}, c)
			gone++
		}
	}
	r.Count("requests_whose_client_went_away", int64(gone))
	// odd query parts beside a signed (or unsigned) message on the redirect binding
	odd := []string{"nocache", "&", "&&", "=", "=x", "x=", "%", "a=%zz", "%zz=a", ";", "a;b=c", "&=&", "?", "#", "SAMLRequest", "Signature", "SigAlg", "RelayState", "SAMLEncoding", "+", "a=b=c", "\u00e4", "a[]=1", "=" + strings.Repeat("A", 3000)}
	for _, signed := range []bool{true, false} {
		for _, kind := range []string{"authn", "logout"} {
			x, path := a.XML(rng), env.PathSSO
			if kind == "logout" {
				x, path = l.XML(rng), env.PathSLO
			}
			m := &spsim.RedirectMsg{Param: "SAMLRequest", Value: spsim.DeflateB64(x), RelayState: "r", HasRelay: true, Pct: spsim.PctGo}
			if signed {
				m.SigAlg = spsim.AlgRSASHA256
				if err := m.Sign(keys.Get("sp0").RSA); err != nil {
					panic(err)
				}
			}
			base := m.RawQuery()
			for _, o := range odd {
				for _, qs := range []string{base + "&" + o, o + "&" + base, strings.Replace(base, "&", "&"+o+"&", 1)} {
					c := e.Do(env.Req{Path: path, Query: qs})
					judge(fmt.Sprintf("odd_query|%s|signed=%v", kind, signed), map[string]any{"odd_part": o, "query": clipS(qs, 400)}, c)
					r.Count("odd_queries", 1)
				}
			}
		}
	}
	r.EvalBulk(int64(len(posts)*6*len(errs)+4*len(odd)*3), int64(len(posts)*6*len(errs)+4*len(odd)*3))
}

// c09SlowStorage: a storage call hangs, the client gives up (the request context is cancelled), and the call returns
// only afterwards. Whatever the handler started for the request must cope with that: a panic on a goroutine of its own
// is not recovered by anybody and ends the process (which this check reports as the death of its child process, the
// journal naming this case).
func c09SlowStorage(r *core.Run, idx int, rng *rand.Rand) {
	const wl = "storage_calls_outliving_the_request"
	e := env.Static(env.Opts{MetaSigAlg: spsim.AlgRSASHA256})
	sp := stdSP(0)
	sp.AuthnRequestsSigned = ""
	mustRegister(e.W, sp, "appA")
	sc := randScenario(rng, fmt.Sprintf("MK%dx", idx), false)
	sc.Host = ""
	sc.install(e.W)
	a := validAuthn(rng, sp)
	reqs := []env.Req{
		{Path: "/ready"}, {Path: "/healthz"}, {Path: env.PathMetadata}, {Path: env.PathCert},
		{Path: env.PathLogin, Query: "id=" + url.QueryEscape(sc.S.ID)},
		{Path: env.PathSSO, Query: "SAMLRequest=" + url.QueryEscape(spsim.DeflateB64(a.XML(rng)))},
	}
	for ri, base := range reqs {
		// which storage operations does the request use?
		probe := e.Do(base)
		ops := map[string]bool{}
		for _, ev := range probe.Events {
			ops[ev.Op] = true
		}
		for op := range ops {
			ctx, cancel := context.WithCancel(context.Background())
			release := make(chan struct{})
			tag := fmt.Sprintf("slow-%d-%d-%s", idx, ri, op)
			e.W.IgnoreCtx = true
			e.W.Before = func(_ context.Context, t, o string, occ int) {
				if t == tag && o == op && occ == 1 {
					<-release
				}
			}
			rq := base
			rq.Ctx, rq.Tag = ctx, tag
			done := make(chan *env.Call, 1)
			go func() { done <- e.Do(rq) }()
			time.Sleep(3 * time.Millisecond)
			cancel() // the client is gone
			var call *env.Call
			select {
			case call = <-done: // the handler did not wait for the storage
			case <-time.After(15 * time.Millisecond):
			}
			close(release) // now the storage call returns
			if call == nil {
				call = <-done
			}
			time.Sleep(3 * time.Millisecond) // goroutines the handler left behind get to run
			e.W.Before, e.W.IgnoreCtx = nil, false
			r.Count("requests", 1)
			r.Count("storage_calls_outliving_their_request", 1)
			if call.Panic != "" {
				r.Violate(core.Violation{Clause: "panic", Class: "slow_storage|" + base.Path + "|" + op, Reason: firstLine(call.Panic) + " @ " + panicSite(call.Stack), Workload: wl, Index: idx, Case: map[string]any{"path": base.Path, "hanging_operation": op}, Observed: call.Describe()})
			}
		}
	}
	r.Eval(fmt.Sprintf("slow_storage|%d", idx))
}

// c09Tiny sends every one-byte message and many 2-4 byte messages through every decoding endpoint.
func c09Tiny(r *core.Run, idx int, rng *rand.Rand) {
	const wl = "tiny_payloads"
	e := c09World()
	e.W.NoLog = true
	send := func(raw []byte) {
		v := url.QueryEscape(spsim.B64(raw))
		reqs := []env.Req{
			{Path: env.PathSSO, Query: "SAMLRequest=" + v},
			{Path: env.PathSLO, Query: "SAMLRequest=" + v},
			{Method: "POST", Path: env.PathSSO, Body: "SAMLRequest=" + v},
			{Method: "POST", Path: env.PathSLO, Body: "SAMLRequest=" + v},
			{Method: "POST", Path: env.PathSSO, Body: "SAMLEncoding=" + url.QueryEscape(spsim.EncDeflate) + "&SAMLRequest=" + v},
			{Method: "POST", Path: env.PathSLO, Body: "SAMLEncoding=" + url.QueryEscape(spsim.EncDeflate) + "&SAMLRequest=" + v},
			{Method: "POST", Path: env.PathAttr, Body: string(raw), CT: "text/xml"},
		}
		for _, rq := range reqs {
			c := e.Do(rq)
			r.Count("requests", 1)
			if c.Panic != "" {
				r.Violate(core.Violation{Clause: "panic", Class: fmt.Sprintf("tiny|%s|%s|len=%d", rq.Method, rq.Path, len(raw)), Reason: firstLine(c.Panic) + " @ " + panicSite(c.Stack), Workload: wl, Index: idx,
					Case: map[string]any{"payload_bytes": fmt.Sprintf("%x", raw)}, Observed: c.Describe()})
			}
		}
	}
	if idx == 0 {
		send(nil)
		for b := 0; b < 256; b++ {
			send([]byte{byte(b)})
		}
		r.EvalBulk(257, 257)
		r.Count("one_byte_payloads", 256)
		return
	}
	for k := 0; k < 300; k++ {
		raw := make([]byte, 2+rng.Intn(3))
		for i := range raw {
			raw[i] = byte(rng.Intn(256))
		}
		if rng.Intn(3) == 0 {
			raw[0] = []byte{0x78, 0x1f, 0x08, 0x58}[rng.Intn(4)] // container magic numbers
		}
		send(raw)
	}
	r.Eval(fmt.Sprintf("tiny|%d", idx))
}

// ---------- native fuzzing (thorough) ----------

var fuzzExecsRe = regexp.MustCompile(`execs: (\d+)`)
var fuzzFailRe = regexp.MustCompile(`Failing input written to (\S+)`)

// c09Fuzz runs one coverage-guided go fuzzing target with an execution-count budget.
func c09Fuzz(budget int) func(r *core.Run, idx int, rng *rand.Rand) {
	targets := []string{"FuzzDecoders", "FuzzNewServiceProvider", "FuzzSSOHandler", "FuzzLogoutAndQuery"}
	return func(r *core.Run, idx int, _ *rand.Rand) {
		const wl = "native_fuzzing"
		t := targets[idx]
		cmd := exec.Command("go", "test", "-tags", "verif", "-run", "^$", "-fuzz", "^"+t+"$", "-fuzztime", fmt.Sprintf("%dx", budget), "./fuzz/")
		cmd.Dir = filepath.Join(core.Root, "harness")
		cmd.Env = append(os.Environ(), "GOFLAGS=-mod=mod", "GOPROXY=off")
		out, err := cmd.CombinedOutput()
		execs := int64(0)
		for _, m := range fuzzExecsRe.FindAllStringSubmatch(string(out), -1) {
			var n int64
			fmt.Sscan(m[1], &n)
			if n > execs {
				execs = n
			}
		}
		r.Count("fuzz_executions", execs)
		r.Count("fuzz_targets_run", 1)
		r.EvalBulk(execs, 1)
		if err == nil {
			r.Sample("fuzz_target", map[string]any{"target": t, "executions": execs})
			return
		}
		if m := fuzzFailRe.FindStringSubmatch(string(out)); m != nil || strings.Contains(string(out), "panic:") || strings.Contains(string(out), "--- FAIL") {
			crasher := ""
			if m != nil {
				b, _ := os.ReadFile(filepath.Join(core.Root, "harness", "fuzz", m[1]))
				crasher = string(b)
			}
			r.Violate(core.Violation{Clause: "fuzz_crash", Class: t, Reason: "coverage-guided fuzzing found a crashing input: " + firstLine(tailOf(string(out), 1500)), Workload: wl, Index: idx,
				Case: map[string]any{"target": t, "crasher": clipS(crasher, 4000)}, Observed: tailOf(string(out), 3000)})
			return
		}
		r.Inconclusive(fmt.Sprintf("go test -fuzz %s could not run: %v: %s", t, err, tailOf(string(out), 400)))
	}
}

func tailOf(s string, n int) string {
	if len(s) > n {
		return s[len(s)-n:]
	}
	return s
}

func init() {
	register(&Prop{
		ID: "C09", Level: "exploration", DeathIsViolation: true,
		TimeoutQuick: 8 * time.Minute, TimeoutThorough: 60 * time.Minute,
		Build: func(c *Ctx) []core.Workload {
			r := c.Run
			r.Rule = "(a) every single deletion / duplication / emptying of each element and attribute of valid AuthnRequest, LogoutRequest, AttributeQuery and SOAP envelopes (unsigned, query-signed, signed then edited, edited then signed) on all transports, thorough: all pairs of such edits; (b) every SigAlg URI known to the libraries x registered key type {RSA, ECDSA, Ed25519, DSA, none} x signature shapes x both bindings; (c) every routed and unrouted path x 9 methods x missing / duplicated / malformed parameters, content types, Forwarded / Origin headers, Host values; (d) byte-level mutations of messages and of the encoded parameter; (e) SP metadata: the same edit families on EntityDescriptor documents, garbled / wrapped / PEM-armoured / non-RSA certificates, byte mutations, followed by requests naming an accepted registration; (e2) on one provider: a request during which each storage operation fails in each way, followed by the same request and a metadata request without fault; the same with faults that persist over three requests (an operation that keeps failing, certificate and key that do not belong together, a refused signature algorithm) and recovery; (e3) request bodies that break off with an IO error at every kind of position and odd-but-legal query parts beside decodable (signed) messages; every one-byte and many 2-4 byte payloads (raw and with container magic numbers) on every decoding endpoint; thorough (f): coverage-guided go test -fuzz on the decoders, NewServiceProvider and a whole-handler target. Monitor: recover() around ServeHTTP and NewServiceProvider, child-process death, watchdog. Distinct = structurally different inputs (by construction for the enumerations)."
			n := len(c09Bases(rand.New(rand.NewSource(11))))
			r.Require("single_edits", 1500)
			r.Require("grid_cells", 40)
			r.Require("metadata_documents", 300)
			r.Require("requests", 5000)
			r.Require("fault_then_good_sequences", 80)
			r.Require("persistent_fault_sequences", 100)
			r.Require("broken_uploads", 100)
			r.Require("odd_queries", 200)
			r.Require("storage_calls_outliving_their_request", 30)
			r.Require("one_byte_payloads", 256)
			wls := []core.Workload{
				{Name: "single_edits", N: n, Fn: c09Edits(false)},
				{Name: "sigalg_keytype_grid", N: 5 * len(allSigAlgs), Fn: c09KeyGrid},
				{Name: "endpoint_parameter_grid", N: 13 * 9, Fn: c09Endpoints},
				{Name: "byte_mutations", N: c.Pick(44, 1100), Fn: c09Bytes},
				{Name: "sp_metadata", N: c.Pick(6, 60), Fn: c09Metadata},
				{Name: "requests_after_storage_faults", N: c.Pick(17, 68), Fn: c09AfterFault},
				{Name: "tiny_payloads", N: c.Pick(4, 40), Fn: c09Tiny},
				{Name: "broken_uploads_and_odd_queries", N: c.Pick(2, 10), Fn: c09Uploads},
				{Name: "storage_calls_outliving_the_request", N: c.Pick(4, 20), Fn: c09SlowStorage},
				{Name: "names_in_other_scripts", N: 4, Fn: c09Names},
				{Name: "many_oversized_then_regular", N: 1, Fn: c09ManyOversized},
			}
			if !c.Thorough {
				wls = append(wls, core.Workload{Name: "edit_pairs_with_a_missing_child", N: n, Fn: c09PairsWithMissingChild})
				r.Require("edit_pairs_with_a_missing_child", 5000)
			}
			if c.Thorough {
				wls = append(wls, core.Workload{Name: "edit_pairs", N: n * 16, Fn: c09Edits(true)})
				r.Require("edit_pairs", 100000)
				wls = append(wls, core.Workload{Name: "native_fuzzing", N: 4, Workers: 1, Fn: c09Fuzz(1500000)})
				r.Require("fuzz_executions", 4000000)
			}
			return wls
		},
	})
}

// c09Names: principals and attribute names in other scripts and of every length (bytes, runes and grapheme clusters
// differ), through every endpoint that reads, logs or echoes them.
func c09Names(r *core.Run, idx int, rng *rand.Rand) {
	const wl = "names_in_other_scripts"
	e := c09World()
	e.W.NoLog = true
	sp := stdSP(0)
	units := []string{"a", "é", "ü", "я", "ω", "中", "한", "あ", "😀", "👨‍👩‍👧", "é", "‮", "ß", "İ", "ﬁ", " ", "𝔘"}
	var names []string
	for _, u := range units {
		for _, n := range []int{1, 16, 17, 21, 22, 32, 33, 59, 60, 61, 63, 64, 65, 100, 255, 256, 1024} {
			names = append(names, strings.Repeat(u, n))
		}
	}
	names = append(names, "Владимир Владимирович Маяковский-Иванов", "Ελευθέριος Κυριάκου Βενιζέλος ο πρεσβύτερος", "김수한무 거북이와 두루미 삼천갑자 동방삭", "山田太郎左衛門尉藤原朝臣宗近之助三郎四郎五郎", "😀😀😀😀😀😀😀😀😀😀😀😀😀😀😀😀😀😀😀😀")
	n := 0
	for i, name := range names {
		if i%4 != idx%4 {
			continue
		}
		l := conformantLogout(rng, sp)
		l.NameID = name
		a := validAuthn(rng, sp)
		a.Subject = name
		a.ProviderName = name
		q := conformantQuery(rng, sp, name)
		q.Attrs = append(q.Attrs, spsim.QAttr{Name: name, NameFormat: basicFormat, Friendly: name})
		calls := []*env.Call{
			e.Do(env.Req{Method: "POST", Path: env.PathSLO, Body: spsim.FormBody("SAMLRequest", spsim.B64([]byte(l.XML(rng))), "RelayState", name)}),
			e.Do(env.Req{Path: env.PathSLO, Query: "SAMLRequest=" + url.QueryEscape(spsim.DeflateB64(l.XML(rng))) + "&RelayState=" + url.QueryEscape(name)}),
			e.Do(env.Req{Path: env.PathSSO, Query: "SAMLRequest=" + url.QueryEscape(spsim.DeflateB64(a.XML(rng))) + "&RelayState=" + url.QueryEscape(name)}),
			e.Do(env.Req{Method: "POST", Path: env.PathAttr, Body: q.XML(rng), CT: "text/xml"}),
			e.Do(env.Req{Path: env.PathLogin, Query: "id=" + url.QueryEscape(name)}),
		}
		for ci, c := range calls {
			n++
			if c.Panic != "" {
				r.Violate(core.Violation{Clause: "panic", Class: fmt.Sprintf("name_in_other_script|endpoint%d", ci), Reason: firstLine(c.Panic) + " @ " + panicSite(c.Stack), Workload: wl, Index: idx, Case: map[string]any{"name": clipS(name, 200), "bytes": len(name), "runes": len([]rune(name))}, Observed: c.Describe()})
				return
			}
		}
	}
	r.EvalBulk(int64(n), int64(n))
	r.Count("requests_with_names_in_other_scripts", int64(n))
}

// c09ManyOversized: a long row of requests whose payload exceeds the inflate limit, then ordinary ones. Every one of
// them is answered (a request that is not is reported by the per-request monitor).
func c09ManyOversized(r *core.Run, idx int, rng *rand.Rand) {
	e := c09World()
	e.W.NoLog = true
	sp := stdSP(0)
	big := bomb("<!--", "-->", ' ', 11<<20)
	for k := 0; k < 40; k++ {
		var c *env.Call
		if k%2 == 0 {
			c = e.Do(env.Req{Path: env.PathSLO, Query: "SAMLRequest=" + url.QueryEscape(big)})
		} else {
			c = e.Do(env.Req{Path: env.PathSSO, Query: "SAMLRequest=" + url.QueryEscape(big)})
		}
		if c.Panic != "" {
			r.Violate(core.Violation{Clause: "panic", Class: "many_oversized_payloads", Reason: firstLine(c.Panic) + " @ " + panicSite(c.Stack), Workload: "many_oversized_then_regular", Index: idx})
			return
		}
	}
	l := conformantLogout(rng, sp)
	c := e.Do(env.Req{Path: env.PathSLO, Query: "SAMLRequest=" + url.QueryEscape(spsim.DeflateB64(l.XML(rng)))})
	if c.Panic != "" {
		r.Violate(core.Violation{Clause: "panic", Class: "regular_request_after_many_oversized", Reason: firstLine(c.Panic), Workload: "many_oversized_then_regular", Index: idx})
	}
	r.EvalBulk(41, 2)
	r.Count("oversized_payloads_in_a_row", 40)
}
