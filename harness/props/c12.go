package props

import (
	"context"
	"fmt"
	"math/rand"
	"regexp"
	"sort"
	"strings"
	"sync"
	"sync/atomic"
	"time"

	"github.com/zitadel/saml/pkg/provider"
	"github.com/zitadel/saml/pkg/provider/key"

	"verif/harness/core"
	"verif/harness/env"
	"verif/harness/keys"
	"verif/harness/sim"
	"verif/harness/spsim"
	"verif/harness/verify"
)

// C12 — attribute queries disclose only requested data, to registered requesters.

func c12Case(r *core.Run, idx int, rng *rand.Rand) {
	const wl = "attribute_queries"
	host := ""
	o := env.Opts{SigAlg: []string{spsim.AlgRSASHA1, spsim.AlgRSASHA256}[rng.Intn(2)]}
	if rng.Intn(3) == 0 {
		host = []string{"h1.idp.example", "h2.example:8443"}[rng.Intn(2)]
		o.HostPath = "/saml"
	}
	// now and then the attribute service is advertised under an external URL (a gateway in front of the provider)
	extAttr := ""
	if host == "" && idx%7 == 3 {
		extAttr = "https://gateway.example/idp/attributes/" + plainString(rng, 3)
		ep := provider.NewEndpointWithURL("/attribute", extAttr)
		o.Endpoints = &provider.EndpointConfig{Attribute: &ep}
	}
	var e *env.Env
	if host != "" {
		var err error
		if e, err = env.New(o); err != nil {
			panic(err)
		}
	} else {
		e = env.Static(o)
	}
	if idx%5 == 2 {
		withUnaskedNames(e, r)
	}
	attrLoc, ssoLoc, entity := idpAttr, idpSSO, idpEntityID
	if extAttr != "" {
		attrLoc = extAttr
	}
	if host != "" {
		attrLoc, ssoLoc, entity = "https://"+host+"/saml/attribute", "https://"+host+"/saml/SSO", "https://"+host+"/saml/metadata"
	}
	d := stdSP(0)
	// what the requester's own metadata says about signed assertions changes nothing: user data leaves in a signed one
	d.WantAssertionsSigned = []string{"", "", "true", "false", "0", "1"}[rng.Intn(6)]
	mustRegister(e.W, d, "appA")
	mustRegister(e.W, stdSP(1), "appB")
	hostile := idx%4 == 0
	u := randUser(rng, fmt.Sprintf("U_MK%dx", idx), hostile)
	// some custom attributes share the name of a standard one or use an empty format
	if rng.Intn(3) == 0 {
		u.Custom = append(u.Custom, sim.Custom{Name: "Email", Format: "urn:oasis:names:tc:SAML:2.0:attrname-format:uri", Values: []string{fmt.Sprintf("U_MK%dxalt", idx)}})
	}
	if rng.Intn(3) == 0 {
		u.Custom = append(u.Custom, sim.Custom{Name: fmt.Sprintf("U_MK%dxnoformat", idx), Format: "", Values: []string{fmt.Sprintf("U_MK%dxnf", idx)}})
	}
	e.W.AddUser(u)
	other := randUser(rng, fmt.Sprintf("U_MK%dxother", idx), false)
	e.W.AddUser(other)

	q := conformantQuery(rng, d, u.Username)
	q.ID = "MKq" + randHex(rng, 6)
	q.Attrs = nil
	ref := refAttributes(u)
	for i := rng.Intn(7); i > 0; i-- {
		var a spsim.QAttr
		switch rng.Intn(8) {
		case 0, 1: // matching
			x := ref[rng.Intn(len(ref))]
			a = spsim.QAttr{Name: x.Name, NameFormat: x.Format}
		case 2: // name matches, format does not
			x := ref[rng.Intn(len(ref))]
			a = spsim.QAttr{Name: x.Name, NameFormat: []string{"urn:oasis:names:tc:SAML:2.0:attrname-format:uri", "urn:oasis:names:tc:SAML:2.0:attrname-format:unspecified", "", "x"}[rng.Intn(4)]}
		case 3: // format matches, name does not
			a = spsim.QAttr{Name: "Nope" + plainString(rng, 3), NameFormat: basicFormat}
		case 4: // duplicate of an earlier one
			if len(q.Attrs) > 0 {
				a = q.Attrs[rng.Intn(len(q.Attrs))]
			} else {
				a = spsim.QAttr{Name: "UserName", NameFormat: basicFormat}
			}
		case 5: // another split of the same Name+NameFormat concatenation
			x := ref[rng.Intn(len(ref))]
			full := x.Name + x.Format
			k := rng.Intn(len(full) + 1)
			a = spsim.QAttr{Name: full[:k], NameFormat: full[k:]}
			if a.Name == "" {
				a.Name = full
				a.NameFormat = ""
			}
		case 6: // designators without a usable name (must match nothing; they are not "no attribute requested")
			a = spsim.QAttr{Name: "", NameFormat: []string{basicFormat, ""}[rng.Intn(2)]}
		default: // case / blank near-misses
			x := ref[rng.Intn(len(ref))]
			a = spsim.QAttr{Name: []string{strings.ToLower(x.Name), x.Name + " ", " " + x.Name}[rng.Intn(3)], NameFormat: x.Format}
		}
		if rng.Intn(4) == 0 {
			a.Friendly = "fr" + plainString(rng, 3)
		}
		q.Attrs = append(q.Attrs, a)
	}
	if rng.Intn(6) == 0 && askForSomeValues(rng, q, u) {
		r.Count("queries_naming_attribute_values", 1)
	}
	if rng.Intn(12) == 0 {
		q.Attrs = nil
		for i := 1 + rng.Intn(3); i > 0; i-- {
			q.Attrs = append(q.Attrs, spsim.QAttr{Name: "", NameFormat: []string{basicFormat, "", "urn:x"}[rng.Intn(3)]})
		}
	}
	// labels
	issuerReg, dest, sig, subj := true, "absent", "none", "known"
	switch rng.Intn(8) {
	case 0:
		issuerReg = false
		q.Issuer = "https://unknown-" + randHex(rng, 3) + ".example/metadata"
		if rng.Intn(3) == 0 {
			q.Issuer = ""
		}
		if rng.Intn(2) == 0 {
			// nobody (or a stranger) asks, while a registered service provider is named in the subject's qualifiers
			q.SubjectSPNameQualifier, q.SubjectNameQualifier = d.EntityID, []string{"", d.EntityID}[rng.Intn(2)]
			r.Count("unregistered_issuer_with_a_registered_entity_named_elsewhere", 1)
		}
	}
	switch rng.Intn(6) {
	case 0:
		dest, q.Destination = "attribute_service", attrLoc
	case 1:
		dest, q.Destination = "sso_location", ssoLoc
	case 2:
		dest, q.Destination = "foreign", []string{evilURL(rng), attrLoc + "/", strings.ToUpper(attrLoc), "https://other.example/saml/attribute", idpAttr + "x"}[rng.Intn(5)]
		if extAttr != "" && rng.Intn(2) == 0 {
			q.Destination = idpAttr // the route below the issuer, which is not what the metadata advertises
		}
		if q.Destination == attrLoc {
			dest = "attribute_service"
		}
	case 3:
		if host != "" {
			dest, q.Destination = "other_host", idpAttr
		}
	default:
		q.Destination = ""
	}
	switch rng.Intn(10) {
	case 0:
		subj = "unknown"
		q.Subject = "nobody-" + randHex(rng, 4)
	case 1:
		subj = "other_user"
		q.Subject = other.Username
		u, ref = other, refAttributes(other)
	}
	var body, evilID string
	switch rng.Intn(7) {
	case 0, 1:
		key := keys.Get("sp0")
		sig = "valid"
		if rng.Intn(2) == 0 {
			key, sig = keys.Get("attacker"), "foreign_key"
		}
		sx, err := spsim.SignEnveloped(q.QueryNode().Render(q.Style.Indent), key, spsim.XMLSignOpts{Alg: spsim.AlgRSASHA256, DropKey: rng.Intn(3) == 0})
		if err != nil {
			panic(err)
		}
		if rng.Intn(3) == 0 && sig == "valid" {
			sig = "invalid"
			sx = strings.Replace(sx, q.ID, q.ID+"x", 1)
		}
		body = q.Envelope(strings.TrimSpace(strings.TrimPrefix(sx, `<?xml version="1.0" encoding="UTF-8"?>`)))
	case 2:
		// signature wrapping: a genuine signed query about the known user travels together with an
		// unsigned query (other ID, other subject); whatever is answered must be covered by the signature
		if subj != "known" || !issuerReg {
			body = q.XML(rng)
			break
		}
		sx, err := spsim.SignEnveloped(q.QueryNode().Render(q.Style.Indent), keys.Get("sp0"), spsim.XMLSignOpts{Alg: spsim.AlgRSASHA256, DropKey: rng.Intn(3) == 0})
		if err != nil {
			panic(err)
		}
		signed := strings.TrimSpace(strings.TrimPrefix(sx, `<?xml version="1.0" encoding="UTF-8"?>`))
		q2 := *q
		q2.ID = "MKevil" + randHex(rng, 6)
		q2.Subject = other.Username
		q2.Attrs = nil
		evilID = q2.ID
		forged := q2.QueryNode().Render(q.Style.Indent)
		withSig := forged
		if m := sigElementRE.FindString(signed); m != "" {
			if i := issuerEndRE.FindStringIndex(forged); i != nil {
				withSig = forged[:i[1]] + m + forged[i[1]:]
			}
		}
		variant := rng.Intn(7)
		sig = fmt.Sprintf("wrapped_%d", variant)
		switch variant {
		case 0:
			body = q.Envelope(signed + forged)
		case 1:
			body = q.Envelope(forged + signed)
		case 2:
			body = q.Envelope(signed + withSig)
		case 3:
			body = q.Envelope(withSig + signed)
		case 4: // two SOAP bodies
			first, second := q.Envelope(signed), bodyElementRE.FindString(q.Envelope(withSig))
			i := strings.LastIndex(first, "</")
			body = first[:i] + second + first[i:]
			if rng.Intn(2) == 0 {
				first, second = q.Envelope(withSig), bodyElementRE.FindString(q.Envelope(signed))
				i = strings.LastIndex(first, "</")
				body = first[:i] + second + first[i:]
			}
		case 5: // the signed query rides in the SOAP header, the forged one in the body
			b := q.Envelope(withSig)
			i := bodyElementRE.FindStringIndex(b)
			pfx := ""
			if q.SoapPfx != "" {
				pfx = q.SoapPfx + ":"
			}
			body = strings.Replace(b[:i[0]], "<"+pfx+"Header></"+pfx+"Header>", "", 1) + "<" + pfx + "Header>" + signed + "</" + pfx + "Header>" + b[i[0]:]
		default: // the signed query nested inside the forged one
			i := strings.LastIndex(withSig, "</")
			body = q.Envelope(withSig[:i] + "<Extensions xmlns=\"urn:oasis:names:tc:SAML:2.0:protocol\">" + signed + "</Extensions>" + withSig[i:])
		}
	default:
		body = q.XML(rng)
	}
	// now and then the storage hands out a certificate and a private key that do not belong together (read in the
	// middle of a key rotation): whatever is answered must still verify under the published certificate
	// a storage that answers "no record, no error" for unknown entities; and now and then the key storage fails for
	// the first call of the request only (whatever a handler skips or retries then, the guards stay in force)
	e.W.NilForUnknown = rng.Intn(2) == 0
	if idx%11 == 7 {
		kind := []string{sim.FaultError, sim.FaultTimeout, sim.FaultNilRecord}[rng.Intn(3)]
		var nth atomic.Int64
		e.W.Plan = func(tag, op string, occ int) string {
			if op == "GetResponseSigningKey" && nth.Add(1) == 1 {
				return kind
			}
			return ""
		}
		r.Count("queries_during_transient_key_fault", 1)
	}
	torn := idx%13 == 5
	if torn {
		e.W.RespKey = &key.CertificateAndKey{Certificate: e.W.RespKey.Certificate, Key: keys.Get("idp_meta").RSA}
		r.Count("queries_with_torn_key_pair", 1)
	}
	call := e.Do(env.Req{Method: "POST", Path: env.PathAttr, Body: body, CT: "text/xml", Host: host})
	class := fmt.Sprintf("issuer_reg=%v|dest=%s|sig=%s|subject=%s|n_req=%d|host=%v", issuerReg, dest, sig, subj, len(q.Attrs), host != "")
	if torn {
		class += "|torn_key_pair"
	}
	desc := map[string]any{"class": class, "body": clipS(body, 2500), "user": u}
	viol := func(clause, reason string) {
		r.Violate(core.Violation{Clause: clause, Class: class, Reason: reason, Workload: wl, Index: idx, Case: desc, Observed: call.Describe()})
	}
	r.Eval(fmt.Sprintf("%s|%v", class, hostile))
	if call.Panic != "" {
		viol("panic", call.Panic)
		return
	}
	dd := call.D
	leaked := strings.Contains(dd.FullText(), "U_MK")
	if leaked {
		r.Count("replies_with_user_data", 1)
		if !issuerReg {
			viol("disclosed_to_unregistered_issuer", "user data in the reply to an unregistered Issuer")
		}
		if sig == "invalid" || sig == "foreign_key" {
			viol("disclosed_despite_bad_signature", "user data in the reply although the query carries a signature value ("+sig+") that does not verify under the registered certificate")
		}
		if dest != "absent" && dest != "attribute_service" {
			viol("disclosed_despite_wrong_destination", fmt.Sprintf("user data in the reply although Destination is %q (advertised attribute service: %q)", q.Destination, attrLoc))
		}
		if subj == "unknown" {
			viol("disclosed_for_unknown_subject", "user data although the subject is unknown")
		}
	} else {
		r.Count("replies_without_user_data", 1)
		r.Count("refused_"+firstRefusal(issuerReg, dest, sig, subj), 1)
	}
	if strings.HasPrefix(sig, "wrapped_") {
		// rejection is always allowed; an answer must be the answer to the signed query
		full := dd.FullText()
		if strings.Contains(full, fmt.Sprintf("U_MK%dxother", idx)) || (dd.Success() && (dd.Msg.InResponseTo == evilID || dd.Msg.SCInResponseTo == evilID)) {
			viol("disclosed_despite_bad_signature", "the reply answers content that is not covered by the signature the query carries (data of the other user or the ID of the unsigned query)")
		}
		if dd.Success() {
			r.Count("wrapped_answered_for_signed_query", 1)
		} else {
			r.Count("wrapped_refused", 1)
		}
		return
	}
	if mut := e.W.Mutated(); mut != "" {
		viol("storage_record_changed", mut)
	}
	if !dd.Success() {
		if leaked {
			viol("user_data_in_error_reply", "non-Success reply contains user data")
		}
		return
	}
	r.Count("answered_queries", 1)
	m := dd.Msg
	// the answer describes exactly the user storage resolved for the queried subject
	ev := call.First("SetUserinfoWithLoginName")
	if ev == nil || len(ev.Args) != 1 || ev.Args[0] != q.Subject {
		viol("lookup_argument", fmt.Sprintf("SetUserinfoWithLoginName argument %v, queried subject %q", ev, q.Subject))
	}
	if m.NameID != u.Username {
		viol("name_id", fmt.Sprintf("NameID %q, resolved user %q", m.NameID, u.Username))
	}
	if m.InResponseTo != q.ID || m.SCInResponseTo != q.ID {
		viol("in_response_to", fmt.Sprintf("InResponseTo %q / %q, query ID %q", m.InResponseTo, m.SCInResponseTo, q.ID))
	}
	if len(m.Audiences) != 1 || m.Audiences[0] != d.EntityID {
		viol("audience", fmt.Sprintf("Audience %q, requester %q", m.Audiences, d.EntityID))
	}
	if m.Issuer != entity || m.AssertionIssuer != entity {
		viol("issuer", fmt.Sprintf("Issuer %q / %q, IdP entity ID %q", m.Issuer, m.AssertionIssuer, entity))
	}
	// reference filter, compared as sets
	d2, excluded := queryFilterDiff(ref, q.Attrs, msgAttrs(m))
	if d2 != "" {
		viol("attribute_filter", d2)
	}
	r.Count("filter_checked", 1)
	if len(q.Attrs) > 0 {
		r.Count("filter_checked_with_request_list", 1)
		if excluded {
			r.Count("filter_excluded_something", 1)
		}
	}
	// signed assertion
	texts := []string{u.Username, u.Email, u.FullName, u.GivenName, u.Surname, u.UserID, d.EntityID}
	var attrs []string
	for _, c := range u.Custom {
		texts = append(texts, c.Values...)
		attrs = append(attrs, c.Name, c.Friendly, c.Format)
	}
	attrs = append(attrs, q.ID)
	c14n := c14nClass(texts, attrs)
	fails, _, oerr := verifyEmitted(dd, respCert())
	if oerr != nil {
		r.Inconclusive("python oracle unavailable: " + oerr.Error())
		return
	}
	for _, f := range fails {
		viol("signature/"+f.Clause, f.Reason)
	}
	r.Count("answers_"+c14n, 1)
	if len(fails) == 0 {
		r.Count("signatures_verified", 1)
	}
	if idx < 4 {
		r.Sample("answered", map[string]any{"class": class, "requested": q.Attrs, "returned": attrMultiset(msgAttrs(m))})
	}
	// a second query on the same provider, for the other user: nothing of the first answer may stick
	second := other
	if u == other {
		second = e.W.UserByLogin(q.Subject)
	}
	if second == nil || subj != "known" {
		return
	}
	q2 := conformantQuery(rng, d, second.Username)
	q2.ID = "MKq2" + randHex(rng, 6)
	q2.Attrs, q2.Destination = nil, ""
	call2 := e.Do(env.Req{Method: "POST", Path: env.PathAttr, Body: q2.XML(rng), CT: "text/xml", Host: host})
	if call2.Panic != "" || !call2.D.Success() {
		r.Violate(core.Violation{Clause: "second_query_not_answered", Class: class, Reason: fmt.Sprintf("follow-up query for another user not answered (status %d) %s", call2.D.Status, call2.Panic), Workload: wl, Index: idx, Case: desc, Observed: call2.Describe()})
		return
	}
	want2, got2 := map[string]bool{}, map[string]bool{}
	for _, a := range refAttributes(second) {
		want2[a.key()] = true
	}
	for _, a := range msgAttrs(call2.D.Msg) {
		got2[a.key()] = true
	}
	if d := setDiff(want2, got2); d != "" || call2.D.Msg.NameID != second.Username {
		r.Violate(core.Violation{Clause: "second_query_carries_foreign_data", Class: class, Reason: fmt.Sprintf("follow-up query for user %q: NameID %q, %s", second.Username, call2.D.Msg.NameID, d), Workload: wl, Index: idx, Case: desc, Observed: call2.Describe()})
	}
	r.Count("follow_up_queries_checked", 1)
}

// c12Registration: ONE provider; the requester is deregistered / re-registered between queries and users change.
func c12Registration(r *core.Run, idx int, rng *rand.Rand) {
	const wl = "registration_changes"
	e := env.Static(env.Opts{})
	d := stdSP(0)
	mustRegister(e.W, d, "appA")
	registered := true
	users := []*sim.User{randUser(rng, fmt.Sprintf("U_MK%dax", idx), false), randUser(rng, fmt.Sprintf("U_MK%dbx", idx), false), randUser(rng, fmt.Sprintf("U_MK%dcx", idx), false)}
	for _, u := range users {
		e.W.AddUser(u)
	}
	for k := 0; k < 8; k++ {
		switch rng.Intn(4) {
		case 0:
			e.W.RemoveSP(d.EntityID)
			registered = false
		case 1:
			mustRegister(e.W, d, "appA")
			registered = true
		}
		u := users[rng.Intn(len(users))]
		q := conformantQuery(rng, d, u.Username)
		q.Attrs, q.Destination = nil, ""
		call := e.Do(env.Req{Method: "POST", Path: env.PathAttr, Body: q.XML(rng), CT: "text/xml"})
		class := fmt.Sprintf("registration|registered=%v|step=%d", registered, k)
		r.Eval(fmt.Sprintf("%s|%d", class, idx))
		r.Count("registration_sequence_queries", 1)
		viol := func(clause, reason string) {
			r.Violate(core.Violation{Clause: clause, Class: class, Reason: reason, Workload: wl, Index: idx, Observed: call.Describe()})
		}
		if call.Panic != "" {
			viol("panic", call.Panic)
			return
		}
		leaked := strings.Contains(call.D.FullText(), "U_MK")
		if !registered {
			if leaked || call.D.Success() {
				viol("disclosed_to_deregistered_requester", "user data although the Issuer is no longer registered")
			}
			r.Count("deregistered_queries_checked", 1)
			continue
		}
		if !call.D.Success() {
			viol("registered_requester_refused", fmt.Sprintf("status %d", call.D.Status))
			continue
		}
		want, got := map[string]bool{}, map[string]bool{}
		for _, a := range refAttributes(u) {
			want[a.key()] = true
		}
		for _, a := range msgAttrs(call.D.Msg) {
			got[a.key()] = true
		}
		if df := setDiff(want, got); df != "" || call.D.Msg.NameID != u.Username {
			viol("answer_not_exactly_the_queried_user", fmt.Sprintf("NameID %q (queried %q): %s", call.D.Msg.NameID, u.Username, df))
		}
		r.Count("registered_queries_checked", 1)
	}
}

var (
	sigElementRE  = regexp.MustCompile(`(?s)<([A-Za-z0-9_.-]+:)?Signature[ >].*</([A-Za-z0-9_.-]+:)?Signature>`)
	issuerEndRE   = regexp.MustCompile(`</([A-Za-z0-9_.-]+:)?Issuer>`)
	bodyElementRE = regexp.MustCompile(`(?s)<([A-Za-z0-9_.-]+:)?Body>.*</([A-Za-z0-9_.-]+:)?Body>`)
)

func firstRefusal(issuerReg bool, dest, sig, subj string) string {
	switch {
	case !issuerReg:
		return "issuer"
	case sig != "none":
		return "signature_" + sig
	case dest != "absent" && dest != "attribute_service":
		return "destination"
	case subj == "unknown":
		return "subject"
	}
	return "other"
}

func setDiff(want, got map[string]bool) string {
	var miss, extra []string
	for k := range want {
		if !got[k] {
			miss = append(miss, k)
		}
	}
	for k := range got {
		if !want[k] {
			extra = append(extra, k)
		}
	}
	if len(miss)+len(extra) == 0 {
		return ""
	}
	sort.Strings(miss)
	sort.Strings(extra)
	return fmt.Sprintf("missing %q, not requested but returned %q", miss, extra)
}

func init() {
	register(&Prop{
		ID: "C12", Level: "exploration", DeathIsViolation: true,
		TimeoutQuick: 5 * time.Minute, TimeoutThorough: 30 * time.Minute,
		Build: func(c *Ctx) []core.Workload {
			r := c.Run
			r.Rule = "SOAP attribute queries with labelled Issuer (registered / unregistered), Destination (absent / advertised attribute service / SSO location / foreign / another host's), signature (none / valid / invalid / unregistered key), subject (known / other user / unknown) and 0-6 requested attributes (matching, name-only, format-only, duplicates, near misses) against random user records; static and host-derived issuers. Monitor: any user canary in a reply implies registered Issuer, no non-verifying signature, acceptable Destination; answered queries: lookup argument, NameID, InResponseTo, Audience, Issuer, attribute set = reference filter (as sets), assertion signature verified by V1 and V2. A second workload keeps ONE provider alive while the requester is deregistered / re-registered and the queried users alternate. Distinct = label tuple."
			r.Require("answered_queries", 100)
			r.Require("filter_excluded_something", 30)
			r.Require("refused_issuer", 20)
			r.Require("refused_destination", 20)
			r.Require("signatures_verified", 50)
			r.Require("follow_up_queries_checked", 50)
			r.Require("deregistered_queries_checked", 100)
			r.Require("registered_queries_checked", 100)
			r.Require("queries_whose_client_went_away", 100)
			return []core.Workload{
				{Name: "attribute_queries", N: c.Pick(900, 9000), Fn: c12Case},
				{Name: "registration_changes", N: c.Pick(150, 1500), Fn: c12Registration},
				{Name: "overlapping_queries", N: c.Pick(60, 600), Fn: c12Overlap},
				{Name: "client_gone", N: c.Pick(80, 800), Fn: c12ClientGone},
			}
		},
		After: func(c *Ctx) { verify.Py.Close() },
	})
}

// c12Overlap: two attribute queries of two service providers about two users are in flight on one provider; the first
// is held inside its service-provider lookup until the second has been answered completely. Each answer is about its
// own query: InResponseTo, subject, audience and every attribute value.
func c12Overlap(r *core.Run, idx int, rng *rand.Rand) {
	const wl = "overlapping_queries"
	e := env.Static(env.Opts{})
	spA, spB := stdSP(0), stdSP(1)
	mustRegister(e.W, spA, "appA")
	mustRegister(e.W, spB, "appB")
	uA := randUser(rng, fmt.Sprintf("U_MK%doa", idx), false)
	uB := randUser(rng, fmt.Sprintf("U_MK%dob", idx), false)
	e.W.AddUser(uA)
	e.W.AddUser(uB)
	qA, qB := conformantQuery(rng, spA, uA.Username), conformantQuery(rng, spB, uB.Username)
	qA.ID, qB.ID = fmt.Sprintf("_qa%d%s", idx, randHex(rng, 4)), fmt.Sprintf("_qb%d%s", idx, randHex(rng, 4))
	bodyA, bodyB := qA.XML(rng), qB.XML(rng)
	heldOp := []string{"GetEntityByID", "SetUserinfoWithLoginName", "GetResponseSigningKey"}[idx%3]
	tagA := fmt.Sprintf("ovA%d", idx)
	inside, bDone := make(chan struct{}), make(chan struct{})
	var once sync.Once
	e.W.Before = func(_ context.Context, tag, op string, _ int) {
		if tag == tagA && op == heldOp {
			first := false
			once.Do(func() { first = true; close(inside) })
			if first {
				select {
				case <-bDone:
				case <-time.After(500 * time.Millisecond):
				}
			}
		}
	}
	var callA *env.Call
	doneA := make(chan struct{})
	go func() {
		callA = e.Do(env.Req{Method: "POST", Path: env.PathAttr, Body: bodyA, CT: "text/xml", Tag: tagA})
		close(doneA)
	}()
	select {
	case <-inside:
	case <-doneA:
	}
	callB := e.Do(env.Req{Method: "POST", Path: env.PathAttr, Body: bodyB, CT: "text/xml"})
	close(bDone)
	<-doneA
	for _, x := range []struct {
		name       string
		call       *env.Call
		q          *spsim.AttrQuery
		own, other *sim.User
		sp         *spsim.SPDesc
	}{{"held_query", callA, qA, uA, uB, spA}, {"query_answered_meanwhile", callB, qB, uB, uA, spB}} {
		class := fmt.Sprintf("overlap|%s|held_in=%s", x.name, heldOp)
		desc := map[string]any{"held_operation": heldOp, "query_id": x.q.ID, "subject": x.own.Username, "other_query_id": map[bool]string{true: qB.ID, false: qA.ID}[x.name == "held_query"]}
		r.Eval(fmt.Sprintf("%s|%d", class, idx))
		r.Count("overlapping_queries", 1)
		if x.call.Panic != "" {
			r.Violate(core.Violation{Clause: "panic", Class: class, Reason: x.call.Panic, Workload: wl, Index: idx, Case: desc, Observed: x.call.Describe()})
			continue
		}
		d := x.call.D
		full := d.FullText()
		otherCanary := x.other.UserID[:strings.Index(x.other.UserID, "uid")]
		if strings.Contains(full, otherCanary) {
			r.Violate(core.Violation{Clause: "data_of_another_query", Class: class, Reason: fmt.Sprintf("the answer to the query about %q carries data of %q, the subject of the other query in flight", x.own.Username, x.other.Username), Workload: wl, Index: idx, Case: desc, Observed: x.call.Describe()})
			continue
		}
		if d.Msg != nil && d.Success() {
			r.Count("overlapping_queries_answered", 1)
			if d.Msg.InResponseTo != x.q.ID || d.Msg.NameID != x.own.Username || len(d.Msg.Audiences) != 1 || d.Msg.Audiences[0] != x.sp.EntityID {
				r.Violate(core.Violation{Clause: "answer_to_another_query", Class: class, Reason: fmt.Sprintf("InResponseTo %q (query %q), subject %q (queried %q), audience %v (requester %q)", d.Msg.InResponseTo, x.q.ID, d.Msg.NameID, x.own.Username, d.Msg.Audiences, x.sp.EntityID), Workload: wl, Index: idx, Case: desc, Observed: x.call.Describe()})
			}
		}
	}
}

// c12ClientGone: the requester goes away while its query is being served - the request's context is cancelled at the
// n-th storage call, a storage that honours the context fails that call and every later one, the connection can
// still be written to (a deadline set by a middleware). Whatever is sent then, user data only ever leaves inside a
// signed assertion of a Success answer that is about this query.
func c12ClientGone(r *core.Run, idx int, rng *rand.Rand) {
	const wl = "client_gone"
	o := env.Opts{SigAlg: []string{spsim.AlgRSASHA1, spsim.AlgRSASHA256}[rng.Intn(2)]}
	e := env.Static(o)
	e.Cancellable = true
	d := stdSP(0)
	mustRegister(e.W, d, "appA")
	canary := fmt.Sprintf("U_MK%dg", idx)
	u := randUser(rng, canary, false)
	e.W.AddUser(u)
	q := conformantQuery(rng, d, u.Username)
	q.ID = "MKg" + randHex(rng, 6)
	body := q.XML(rng)
	if rng.Intn(3) == 0 {
		sx, err := spsim.SignEnveloped(q.QueryNode().Render(q.Style.Indent), d.Cert, spsim.XMLSignOpts{Alg: spsim.AlgRSASHA256})
		if err == nil {
			body = q.Envelope(strings.TrimSpace(strings.TrimPrefix(sx, `<?xml version="1.0" encoding="UTF-8"?>`)))
		}
	}
	send := func() *env.Call { return e.Do(env.Req{Method: "POST", Path: env.PathAttr, Body: body, CT: "text/xml"}) }
	base := send()
	if base.Panic != "" || !base.D.Success() {
		r.Count("client_gone_baseline_not_answered", 1)
		return
	}
	for _, p := range opSequence(base) {
		gone := false
		e.W.Before = func(ctx context.Context, _, op string, occ int) {
			if op == p.Op && occ == p.Occ {
				gone = env.CancelRequest(ctx)
			}
		}
		call := send()
		e.W.Before = nil
		if !gone {
			continue
		}
		class := fmt.Sprintf("client_gone|at=%s#%d", p.Op, p.Occ)
		desc := map[string]any{"query_id": q.ID, "subject": u.Username, "cancelled_at": fmt.Sprintf("%s#%d", p.Op, p.Occ)}
		r.Eval(fmt.Sprintf("%s|%d", class, idx))
		r.Count("queries_whose_client_went_away", 1)
		viol := func(clause, reason string) {
			r.Violate(core.Violation{Clause: clause, Class: class, Reason: reason, Workload: wl, Index: idx, Case: desc, Observed: call.Describe()})
		}
		if call.Panic != "" {
			viol("panic", call.Panic)
			continue
		}
		dd := call.D
		if !strings.Contains(dd.FullText(), canary) && !dd.Success() {
			r.Count("client_gone_refused_without_user_data", 1)
			continue
		}
		if !dd.Success() {
			viol("user_data_in_refusal", "the reply is not a Success answer and carries data of the queried user")
			continue
		}
		fails, _, oerr := verifyEmitted(dd, respCert())
		if oerr != nil {
			r.Inconclusive("python oracle unavailable: " + oerr.Error())
			return
		}
		for _, f := range fails {
			viol("signature/"+f.Clause, f.Reason)
		}
		if dd.Msg.InResponseTo != q.ID || dd.Msg.NameID != u.Username {
			viol("answer_to_another_query", fmt.Sprintf("InResponseTo %q (query %q), subject %q (queried %q)", dd.Msg.InResponseTo, q.ID, dd.Msg.NameID, u.Username))
		}
		r.Count("client_gone_answered_all_the_same", 1)
	}
}
