package props

import (
	"context"
	"fmt"
	"math/rand"
	"net/url"
	"runtime"
	"strings"
	"sync"
	"sync/atomic"
	"time"

	"github.com/anishathalye/porcupine"

	"github.com/zitadel/saml/pkg/provider/key"
	"verif/harness/core"

	"verif/harness/env"
	"verif/harness/keys"
	"verif/harness/reply"
	"verif/harness/sim"
	"verif/harness/spsim"
)

// C01 — no Success assertion without completed authentication.

// leakScan looks for user data in a reply that is not a Success response.
func leakScan(d *reply.Decoded, userMarker string) string {
	full := d.FullText()
	if userMarker != "" && strings.Contains(full, userMarker) {
		return "reply contains a user canary token (" + userMarker + "…)"
	}
	if d.Msg != nil {
		if d.Msg.HasNameID {
			return "reply carries a Subject NameID: " + d.Msg.NameID
		}
		if d.Msg.AttrValueCount > 0 {
			return fmt.Sprintf("reply carries %d attribute values", d.Msg.AttrValueCount)
		}
		if d.Msg.SignatureCount > 0 {
			return "reply carries a Signature element"
		}
	}
	if d.Sig != "" {
		return "reply carries a Signature parameter"
	}
	return ""
}

// completionObserved implements clause 1 on the tagged storage log slice.
func completionObserved(call *env.Call, supplied []string) string {
	found := map[string]bool{}
	for _, e := range call.Events {
		if e.Op == "AuthRequestByID" && !e.Err && len(e.Args) == 1 {
			found[e.Args[0]] = true
		}
	}
	for _, e := range call.Events {
		if e.Op == "Done" && e.Res == "true" && len(e.Args) == 1 && found[e.Args[0]] {
			for _, s := range supplied {
				if s == e.Args[0] {
					return ""
				}
			}
			return fmt.Sprintf("completion observed for %q, which the caller did not supply (%q)", e.Args[0], supplied)
		}
	}
	return fmt.Sprintf("no 'record found and Done()=true' observation for any supplied id %q in this request's storage log", supplied)
}

// undeliverableBindings: values of a stored request's binding through which the callback cannot deliver a reply.
var undeliverableBindings = []string{spsim.BindArtifact, "urn:oasis:names:tc:SAML:2.0:bindings:HTTP-POST-SimpleSign", "urn:oasis:names:tc:SAML:2.0:bindings:SOAP", "", "HTTP-POST", " " + spsim.BindPost}

func c01Sequential(r *core.Run, idx int, rng *rand.Rand) {
	const wl = "callback_states"
	canary := fmt.Sprintf("MK%dx", idx)
	sc := randScenario(rng, canary, rng.Intn(2) == 0)
	state := []string{"absent", "pending", "done"}[idx%3]
	// stored requests whose binding the callback cannot deliver through (idx%16 == 9, below) are completed sessions
	// half of the time, and then meet the failures of signing more often than the others
	undeliverable := idx%16 == 9
	lateSel := (idx / 3) % 9
	if undeliverable && (idx/16)%2 == 0 {
		state = "done"
		lateSel = []int{4, 6, 3, 0}[(idx/32)%4]
	}
	late := ""
	switch state {
	case "absent":
	case "pending":
		sc.Done = false
	case "done":
		// late failures after the gate
		switch lateSel {
		case 1:
			late = "user_unknown"
		case 2:
			late = "user_lookup_error"
		case 3:
			late = "key_fault"
		case 4:
			late = "sigalg_unusable"
			sc.Opts.SigAlg, sc.Opts.NoSigAlg = []string{"", "urn:unknown:alg", "http://www.w3.org/2001/04/xmldsig-more#rsa-md5"}[rng.Intn(3)], true
		case 5:
			late = "app_unknown"
		case 6:
			late = "key_mismatch"
		case 7:
			late = "storage_panics"
		case 8:
			late = "user_id_is_a_login_name"
		}
	}
	if idx%10 == 4 || idx%10 == 7 {
		// a user record of several kilobytes of poorly compressible data (a reply that no longer fits a short URL)
		vals := make([]string, 300+rng.Intn(600))
		for i := range vals {
			vals[i] = "U_" + canary + "g" + randHex(rng, 16)
		}
		sc.U.Custom = append(sc.U.Custom, sim.Custom{Name: "groups", Format: basicFormat, Values: vals})
		sc.S.Binding = spsim.BindRedirect
	}
	if undeliverable {
		// a stored request whose binding is none the callback can deliver through (written by another version, by hand,
		// by an SSO endpoint of another deployment): whatever is answered, a non-Success reply carries no user data
		sc.S.Binding = undeliverableBindings[rng.Intn(len(undeliverableBindings))]
		if rng.Intn(3) == 0 {
			sc.S.ACS = ""
		}
	}
	e := sc.build()
	if idx%4 == 1 {
		withUnaskedNames(e, r)
	}
	// a second, completed session of another user lives in the same world
	other := randScenario(rng, canary+"o", false)
	other.install(e.W)
	if state == "absent" {
		e.W.ForgetRequest(sc.S.ID)
	}
	switch late {
	case "user_unknown":
		e.W.ForgetUser(sc.U.UserID)
	case "user_lookup_error":
		// the lookup fails at once, after delivering part of the record, late, or while the key lookup is slow
		kind := []string{sim.FaultError, sim.FaultPartial, sim.FaultPartial, sim.FaultError, sim.FaultTimeout, sim.FaultPoolClosed}[rng.Intn(6)]
		switch rng.Intn(3) {
		case 0:
			e.W.PartialDelay = 20 * time.Millisecond
		case 1:
			e.W.Before = func(_ context.Context, _, op string, _ int) {
				if op == "GetResponseSigningKey" {
					time.Sleep(20 * time.Millisecond)
				}
			}
		}
		e.W.Plan = func(tag, op string, occ int) string {
			if op == "SetUserinfoWithUserID" {
				return kind
			}
			return ""
		}
	case "key_fault":
		kind := []string{sim.FaultError, sim.FaultNilRecord, sim.FaultKeyNoCert, sim.FaultCertNoKey, sim.FaultEmptyCert, sim.FaultTimeout, sim.FaultPoolClosed}[rng.Intn(7)]
		if rng.Intn(3) == 0 { // the user lookup is slower than the failing key lookup
			e.W.Before = func(_ context.Context, _, op string, _ int) {
				if op == "SetUserinfoWithUserID" {
					time.Sleep(20 * time.Millisecond)
				}
			}
		}
		e.W.Plan = func(tag, op string, occ int) string {
			if op == "GetResponseSigningKey" {
				return kind
			}
			return ""
		}
	case "storage_panics":
		// the storage itself crashes inside one of the calls the callback makes after the gate; the request may end
		// without a reply, but never in a Success
		op := []string{"SetUserinfoWithUserID", "SetUserinfoWithUserID", "GetResponseSigningKey", "GetEntityIDByAppID"}[rng.Intn(4)]
		kind := []string{sim.FaultPanicString, sim.FaultPanicError}[rng.Intn(2)]
		e.W.Plan = func(tag, o string, occ int) string {
			if o == op {
				return kind
			}
			return ""
		}
	case "user_id_is_a_login_name":
		// the user of the session cannot be looked up by id (removed or locked after the login), while the same string
		// is the login name of somebody else
		if rng.Intn(2) == 0 {
			e.W.ForgetUser(sc.U.UserID)
		} else {
			e.W.Plan = func(tag, op string, occ int) string {
				if op == "SetUserinfoWithUserID" {
					return sim.FaultError
				}
				return ""
			}
		}
		name := randUser(rng, "U_"+canary+"n", false)
		name.Username = sc.U.UserID
		e.W.AddUser(name)
	case "app_unknown":
		e.W.ForgetApp(sc.S.AppID)
	case "key_mismatch":
		// certificate and private key that do not belong together (e.g. read in the middle of a key rotation)
		e.W.RespKey = &key.CertificateAndKey{Certificate: keys.Get("idp_meta").CertDER, Key: keys.Get("idp_resp").RSA}
	}
	// id placement
	id := sc.S.ID
	placement := []string{"query", "body", "both_same", "query_other_body_own", "query_own_body_other", "duplicate_query", "empty", "blank", "overlong", "none", "case_changed", "padded", "percent_alias_of_other", "escaped_twice", "percent_alias_of_other_body"}[rng.Intn(15)]
	if undeliverable && (idx/16)%2 == 0 {
		placement = []string{"query", "body", "both_same"}[rng.Intn(3)]
		r.Count("completed_sessions_whose_stored_binding_cannot_be_delivered_through", 1)
	}
	method := []string{"GET", "GET", "POST", "POST", "HEAD", "PUT"}[rng.Intn(6)]
	var q, body string
	supplied := []string{}
	esc := url.QueryEscape
	switch placement {
	case "query":
		q = "id=" + esc(id)
		supplied = []string{id}
	case "body":
		body = "id=" + esc(id)
		supplied = []string{id}
		if method == "GET" || method == "HEAD" {
			method = "POST"
		}
	case "both_same":
		q, body = "id="+esc(id), "id="+esc(id)
		supplied = []string{id}
		method = "POST"
	case "query_other_body_own":
		q, body = "id="+esc(other.S.ID), "id="+esc(id)
		supplied = []string{id, other.S.ID}
		method = "POST"
	case "query_own_body_other":
		q, body = "id="+esc(id), "id="+esc(other.S.ID)
		supplied = []string{id, other.S.ID}
		method = "POST"
	case "duplicate_query":
		q = "id=" + esc(id) + "&id=" + esc(other.S.ID)
		supplied = []string{id, other.S.ID}
	case "empty":
		q = "id="
	case "blank":
		q = "id=+"
		supplied = []string{" "}
	case "overlong":
		long := id + strings.Repeat("A", 5000)
		q = "id=" + esc(long)
		supplied = []string{long}
	case "none":
		q = "x=1"
	case "case_changed":
		alt := strings.ToUpper(id)
		q = "id=" + esc(alt)
		supplied = []string{alt}
	case "padded":
		q = "id=" + esc(id+" ")
		supplied = []string{id + " "}
	case "percent_alias_of_other", "percent_alias_of_other_body":
		// a value that still contains a percent sequence after form decoding and whose second decoding would be the
		// id of the other, completed session: it names no stored request
		o := other.S.ID
		k := rng.Intn(len(o))
		alias := o[:k] + fmt.Sprintf("%%%02X", o[k]) + o[k+1:]
		if rng.Intn(2) == 0 {
			alias = o[:k] + fmt.Sprintf("%%%02x", o[k]) + o[k+1:]
		}
		supplied = []string{alias}
		if placement == "percent_alias_of_other" {
			q = "id=" + esc(alias)
		} else {
			body, method = "id="+esc(alias), "POST"
		}
	case "escaped_twice":
		q = "id=" + esc(esc(id))
		supplied = []string{esc(id)}
	}
	// the same callback once, or (every third case) three times in a row on the same provider: how the earlier ones
	// ended changes nothing about the later ones
	repeats := 1
	if idx%3 == 1 && late != "storage_panics" {
		repeats = 3
		r.Count("callbacks_repeated_on_the_same_provider", 1)
	}
	for rep := 0; rep < repeats; rep++ {
		c01JudgeOne(r, wl, idx, rep, e, sc, other, state, late, placement, method, q, body, supplied)
	}
}

func c01JudgeOne(r *core.Run, wl string, idx, rep int, e *env.Env, sc, other *cbScenario, state, late, placement, method, q, body string, supplied []string) {
	call := e.Do(env.Req{Method: method, Path: env.PathLogin, Query: q, Body: body, Host: sc.Host})
	class := fmt.Sprintf("%s|%s|%s|%s|%s", state, late, placement, method, sc.S.Binding[strings.LastIndex(sc.S.Binding, ":")+1:])
	if rep > 0 {
		class += fmt.Sprintf("|repeat=%d", rep)
	}
	desc := map[string]any{"state": state, "late_failure": late, "placement": placement, "method": method, "session": sc.S, "other_session": other.S.ID, "query": clipS(q, 300), "body": clipS(body, 300)}
	viol := func(clause, reason string) {
		r.Violate(core.Violation{Clause: clause, Class: class, Reason: reason, Workload: wl, Index: idx, Case: desc, Observed: call.Describe()})
	}
	r.Eval(class)
	if call.Panic != "" && !(late == "storage_panics" && sim.IsInjectedPanic(call.Panic)) {
		viol("panic", call.Panic)
		return
	}
	if call.Panic != "" {
		r.Count("requests_ended_by_a_crash_of_the_storage", 1)
	}
	d := call.D
	if d.Success() {
		r.Count("success_replies", 1)
		if why := completionObserved(call, supplied); why != "" {
			viol("success_without_completion", why)
		}
		// the late failures (user lookup, signing) must end in a non-Success reply
		if ev := call.First("AuthRequestByID"); late != "" && ev != nil && len(ev.Args) == 1 && ev.Args[0] == sc.S.ID {
			viol("success_despite_late_failure", "Success response although the "+late+" failure was injected for this session")
		}
		// whose data is it? the session the observation was made for
		if strings.Contains(d.FullText(), "U_MK") {
			owner := sc
			if ev := call.First("AuthRequestByID"); ev != nil && len(ev.Args) == 1 && ev.Args[0] == other.S.ID {
				owner = other
			}
			if d.Msg.NameID != owner.U.Username {
				viol("success_for_wrong_user", fmt.Sprintf("NameID %q, user of the looked-up session %q", d.Msg.NameID, owner.U.Username))
			}
		}
		return
	}
	r.Count("non_success_replies", 1)
	r.Count("non_success_"+state+"_"+late, 1)
	r.Seen("non_success_shapes", fmt.Sprintf("%d/%s", d.Status, d.Kind))
	if why := leakScan(d, "U_MK"); why != "" {
		viol("leak_in_non_success_reply", why)
	}
	if d.Msg != nil && d.Msg.StatusCode == "" {
		viol("no_status", "SAML reply without status code")
	}
	if idx < 24 {
		r.Sample("callback_"+state, map[string]any{"class": class, "status": d.Status, "kind": d.Kind, "saml_status": func() string {
			if d.Msg != nil {
				return d.Msg.StatusCode
			}
			return ""
		}()})
	}
}

// c01NamedValues: callbacks for a session that has not completed (or does not exist) which carry, besides the id,
// every name the library's source mentions as a parameter and as a header, all with one value that has a meaning in
// the protocol (each status code, binding, format ... in turn). Whatever a name and a value may switch on, the reply
// is no Success and carries no user data.
func c01NamedValues(r *core.Run, idx int, rng *rand.Rand) {
	const wl = "named_parameters_with_protocol_values"
	vals := dictValues()
	v := vals[idx%len(vals)]
	state := []string{"pending", "absent", "pending_post"}[(idx/len(vals))%3]
	canary := fmt.Sprintf("MK%dv", idx)
	sc := randScenario(rng, canary, false)
	sc.Done = false
	e := sc.build()
	if state == "absent" {
		e.W.ForgetRequest(sc.S.ID)
	}
	extra := dictQueryWith(v, protocolParams...)
	e.ExtraHeaders = dictHeadersWith(v)
	rq := env.Req{Path: env.PathLogin, Query: "id=" + url.QueryEscape(sc.S.ID) + "&" + extra, Host: sc.Host}
	if state == "pending_post" {
		rq = env.Req{Method: "POST", Path: env.PathLogin, Body: "id=" + url.QueryEscape(sc.S.ID) + "&" + extra, Host: sc.Host}
	}
	call := e.Do(rq)
	class := fmt.Sprintf("named_values|%s|%s", state, v)
	desc := map[string]any{"state": state, "value_of_every_name": v, "session": sc.S}
	r.Eval(class)
	r.Count("callbacks_with_every_name_set_to_a_protocol_value", 1)
	viol := func(clause, reason string) {
		r.Violate(core.Violation{Clause: clause, Class: class, Reason: reason, Workload: wl, Index: idx, Case: desc, Observed: call.Describe()})
	}
	if call.Panic != "" {
		viol("panic", call.Panic)
		return
	}
	d := call.D
	if d.Success() {
		viol("success_without_completion", "Success although the session named by the caller is "+state)
		return
	}
	if why := leakScan(d, "U_MK"); why != "" {
		viol("leak_in_non_success_reply", why)
	}
}

// c01Live: the stored request is a live record (the object the login UI works on). While the callback is reading
// it - after its n-th accessor call - the person at the login UI switches to another account and completes the
// login (or completes it as the same user, or only switches). A Success may only be about the user the record named
// when it reported completion.
func c01Live(r *core.Run, idx int, rng *rand.Rand) {
	const wl = "live_record"
	canary := fmt.Sprintf("MK%dl", idx)
	sc := randScenario(rng, canary, rng.Intn(3) == 0)
	sc.Done = false
	e := sc.build()
	other := randUser(rng, "U_"+canary+"o", false)
	e.W.AddUser(other)
	n := 1 + idx%8
	what := []string{"switch_and_complete", "switch_and_complete", "complete", "switch_only", "complete_then_revert"}[(idx/8)%5]
	rec := e.W.Request(sc.S.ID)
	var firstField atomic.Value
	rec.AfterRead = func(field string, k int) {
		if k == 1 {
			firstField.Store(field)
		}
		if k != n {
			return
		}
		switch what {
		case "switch_and_complete":
			rec.SwitchUser(other.UserID)
			rec.SetDone(true)
		case "complete":
			rec.SetDone(true)
		case "switch_only":
			rec.SwitchUser(other.UserID)
		case "complete_then_revert": // completed, then the session was ended again right away
			rec.SetDone(true)
			rec.SetDone(false)
		}
	}
	call := sc.callback(e)
	class := fmt.Sprintf("%s|after_read=%d|%s", what, n, sc.S.Binding[strings.LastIndex(sc.S.Binding, ":")+1:])
	ff, _ := firstField.Load().(string)
	desc := map[string]any{"what": what, "after_accessor_call": n, "first_accessor_called": ff, "session": sc.S.ID, "bound_user_at_start": sc.U.Username, "other_user": other.Username}
	viol := func(clause, reason string) {
		r.Violate(core.Violation{Clause: clause, Class: class, Reason: reason, Workload: wl, Index: idx, Case: desc, Observed: call.Describe()})
	}
	r.Eval(class)
	r.Seen("live_first_accessor", ff)
	if call.Panic != "" {
		viol("panic", call.Panic)
		return
	}
	d := call.D
	if !d.Success() {
		r.Count("live_non_success", 1)
		if why := leakScan(d, "U_MK"); why != "" {
			viol("leak_in_non_success_reply", why)
		}
		return
	}
	r.Count("live_success", 1)
	if why := completionObserved(call, []string{sc.S.ID}); why != "" {
		viol("success_without_completion", why)
		return
	}
	// the record said "done" only while it named this user:
	want := sc.U
	if what == "switch_and_complete" {
		want = other
	}
	if d.Msg.NameID != want.Username {
		viol("success_for_wrong_user", fmt.Sprintf("the record reported completion while it named %q; the Success assertion is about %q (the user read before the account was switched and the login completed, after accessor call %d)", want.Username, d.Msg.NameID, n))
	}
	foreign := "U_" + canary + "o"
	if want == other {
		foreign = "U_" + canary
		if strings.Contains(strings.ReplaceAll(d.FullText(), "U_"+canary+"o", ""), foreign) {
			viol("success_for_wrong_user", "the Success reply carries data of the user who did not complete authentication")
		}
	} else if strings.Contains(d.FullText(), foreign) {
		viol("success_for_wrong_user", "the Success reply carries data of the user who did not complete authentication")
	}
}

// ---------- concurrent histories ----------

type c01Op struct {
	Session int
	Write   bool
}

var c01Model = porcupine.Model{
	Partition: func(history []porcupine.Operation) [][]porcupine.Operation {
		m := map[int][]porcupine.Operation{}
		var keys []int
		for _, op := range history {
			k := op.Input.(c01Op).Session
			if _, ok := m[k]; !ok {
				keys = append(keys, k)
			}
			m[k] = append(m[k], op)
		}
		out := make([][]porcupine.Operation, 0, len(keys))
		for _, k := range keys {
			out = append(out, m[k])
		}
		return out
	},
	Init: func() any { return false },
	Step: func(state, input, output any) (bool, any) {
		in := input.(c01Op)
		if in.Write {
			return true, true
		}
		// a callback may succeed only if authentication has completed; failing is always allowed
		if output.(bool) && !state.(bool) {
			return false, state
		}
		return true, state
	},
	DescribeOperation: func(input, output any) string {
		in := input.(c01Op)
		if in.Write {
			return fmt.Sprintf("complete(s%d)", in.Session)
		}
		return fmt.Sprintf("callback(s%d) -> success=%v", in.Session, output)
	},
}

func c01History(r *core.Run, idx int, rng *rand.Rand) {
	const wl = "concurrent_histories"
	const K, M = 8, 6
	nops := 30 + rng.Intn(30)
	e := env.Static(env.Opts{})
	e.Name = fmt.Sprintf("h%d-", idx)
	var seedCtr atomic.Int64
	e.W.Delay = func(op string) {
		switch seedCtr.Add(1) % 5 {
		case 0:
			runtime.Gosched()
		case 1:
			time.Sleep(time.Duration(20+seedCtr.Load()%80) * time.Microsecond)
		}
	}
	spd := stdSP(0)
	spd.ACS = []spsim.ACS{{Binding: spsim.BindPost, Location: "https://sp0.example/acs", Index: "0"}, {Binding: spsim.BindRedirect, Location: "https://sp0.example/acs-r", Index: "1"}}
	mustRegister(e.W, spd, "app0")
	type session struct {
		id   string
		user *sim.User
	}
	sessions := make([]*session, K)
	users := map[string]*sim.User{}
	var umu sync.Mutex
	nextUser := 0
	e.W.UserFor = func(reqID, appID string) string {
		umu.Lock()
		defer umu.Unlock()
		u := randUser(rand.New(rand.NewSource(int64(idx*1000+nextUser))), fmt.Sprintf("U_MK%dx%dx", idx, nextUser), false)
		nextUser++
		users[reqID] = u
		e.W.AddUser(u)
		return u.UserID
	}
	// sessions are created through the real SSO endpoint
	for i := 0; i < K; i++ {
		a := validAuthn(rng, spd)
		a.ProtocolBinding = []string{spsim.BindPost, spsim.BindRedirect}[rng.Intn(2)]
		s := ssoSend{Binding: "redirect", XML: a.XML(rng), HasRelay: true, Relay: fmt.Sprintf("MK%dxs%drelay", idx, i)}
		call, _ := s.do(e)
		ev := call.First("CreateAuthRequest")
		if ev == nil || ev.Err {
			r.Inconclusive(fmt.Sprintf("history %d: session %d could not be created through the SSO endpoint (status %d)", idx, i, call.D.Status))
			return
		}
		umu.Lock()
		sessions[i] = &session{id: ev.Res, user: users[ev.Res]}
		umu.Unlock()
	}
	var hmu sync.Mutex
	var hist []porcupine.Operation
	var wg sync.WaitGroup
	type vio struct {
		clause, reason string
		obs            any
	}
	var vios []vio
	seeds := make([]int64, M)
	for c := range seeds {
		seeds[c] = rng.Int63()
	}
	var inflight, maxInflight atomic.Int64
	for c := 0; c < M; c++ {
		wg.Add(1)
		go func(c int) {
			defer wg.Done()
			lr := rand.New(rand.NewSource(seeds[c]))
			for k := 0; k < nops/M+1; k++ {
				si := lr.Intn(K)
				s := sessions[si]
				if lr.Intn(4) == 0 {
					t0 := e.W.Clock()
					e.W.Request(s.id).SetDone(true)
					t1 := e.W.Clock()
					hmu.Lock()
					hist = append(hist, porcupine.Operation{ClientId: c, Input: c01Op{si, true}, Call: t0, Output: true, Return: t1})
					hmu.Unlock()
					continue
				}
				n := inflight.Add(1)
				for {
					m := maxInflight.Load()
					if n <= m || maxInflight.CompareAndSwap(m, n) {
						break
					}
				}
				t0 := e.W.Clock()
				call := e.Do(env.Req{Path: env.PathLogin, Query: "id=" + url.QueryEscape(s.id)})
				t1 := e.W.Clock()
				inflight.Add(-1)
				ok := call.Panic == "" && call.D.Success()
				hmu.Lock()
				hist = append(hist, porcupine.Operation{ClientId: c, Input: c01Op{si, false}, Call: t0, Output: ok, Return: t1})
				if call.Panic != "" {
					vios = append(vios, vio{"panic", call.Panic, call.Describe()})
				} else if ok {
					if why := completionObserved(call, []string{s.id}); why != "" {
						vios = append(vios, vio{"success_without_completion", why, call.Describe()})
					}
					if call.D.Msg.NameID != s.user.Username {
						vios = append(vios, vio{"success_for_wrong_user", fmt.Sprintf("NameID %q, session user %q", call.D.Msg.NameID, s.user.Username), call.Describe()})
					}
				} else if why := leakScan(call.D, "U_MK"); why != "" {
					vios = append(vios, vio{"leak_in_non_success_reply", why, call.Describe()})
				}
				hmu.Unlock()
			}
		}(c)
	}
	wg.Wait()
	r.Max("max_in_flight_callbacks", maxInflight.Load())
	for _, v := range vios {
		r.Violate(core.Violation{Clause: v.clause, Class: "concurrent", Reason: v.reason, Workload: wl, Index: idx, Observed: v.obs})
	}
	res, info := porcupine.CheckOperationsVerbose(c01Model, hist, 30*time.Second)
	succ, writes := 0, 0
	for _, op := range hist {
		if op.Input.(c01Op).Write {
			writes++
		} else if op.Output.(bool) {
			succ++
		}
	}
	r.Count("history_operations", int64(len(hist)))
	r.Count("history_success_callbacks", int64(succ))
	r.Count("history_completions", int64(writes))
	r.Eval(fmt.Sprintf("hist|%d|%d|%d|%d", idx, len(hist), succ, writes))
	switch res {
	case porcupine.Ok:
		r.Count("histories_linearizable", 1)
	case porcupine.Unknown:
		r.Inconclusive(fmt.Sprintf("porcupine timed out on history %d", idx))
	case porcupine.Illegal:
		var lines []string
		for _, op := range hist {
			lines = append(lines, fmt.Sprintf("c%d [%d,%d] %s", op.ClientId, op.Call, op.Return, c01Model.DescribeOperation(op.Input, op.Output)))
		}
		_ = info
		r.Violate(core.Violation{Clause: "history_not_linearizable", Class: "concurrent", Reason: "a callback reported Success in a position where the session's authentication had not completed (register model)", Workload: wl, Index: idx, Observed: lines})
	}
	if idx == 0 {
		var lines []string
		for i, op := range hist {
			if i < 12 {
				lines = append(lines, fmt.Sprintf("c%d [%d,%d] %s", op.ClientId, op.Call, op.Return, c01Model.DescribeOperation(op.Input, op.Output)))
			}
		}
		r.Sample("history_prefix", lines)
	}
}

func init() {
	register(&Prop{
		ID: "C01", Level: "exploration", DeathIsViolation: true,
		TimeoutQuick: 8 * time.Minute, TimeoutThorough: 40 * time.Minute,
		Build: func(c *Ctx) []core.Workload {
			r := c.Run
			r.Rule = "(a) sequential: a stored request in state absent / pending / done (plus the late failures user unknown, user lookup error, signing-key fault, unusable algorithm, unknown application) is called back with the id in query, body, both with different values, duplicated, empty, blank, overlong, case-changed, padded, escaped twice or as a percent-sequence alias of the other session's id, by GET/POST/HEAD/PUT; a second completed session of another user lives in the same world. Online monitor on the request's tagged storage-log slice: Success => 'found and Done()=true' was observed for a supplied id; non-Success => no NameID, attribute value, signature or user canary anywhere in the fully decoded reply. (b) concurrent histories: 8 sessions created through the real SSO endpoint, 6 clients racing completions and callbacks with delays injected in storage calls; each history is checked with porcupine against a per-session register model (a callback may succeed only after completion). (c) live records: the stored request is the object the login UI works on; after the n-th accessor call of the callback (n = 1..8) the login is completed, the account switched, both, or completed and ended again: a Success needs an observed Done()=true and must be about the user the record named when it said so. Distinct = (state, late failure, placement, method, binding) resp. histories."
			r.Require("success_replies", 30)
			r.Require("non_success_replies", 200)
			r.Require("distinct_non_success_shapes", 2)
			r.Require("histories_linearizable", int64(c.Pick(30, 400)))
			r.Require("history_success_callbacks", 100)
			r.Require("max_in_flight_callbacks", 2)
			r.Require("live_non_success", 20)
			return []core.Workload{
				{Name: "callback_states", N: c.Pick(720, 7200), Fn: c01Sequential},
				{Name: "named_parameters_with_protocol_values", N: c.Pick(3*len(dictValues()), 12*len(dictValues())), Fn: c01NamedValues},
				{Name: "live_record", N: c.Pick(240, 2400), Fn: c01Live},
				{Name: "concurrent_histories", N: c.Pick(40, 500), Workers: 4, Fn: c01History},
			}
		},
	})
}
