package props

import (
	"context"
	"fmt"
	"math/rand"
	"net/url"
	"regexp"
	"strings"
	"sync"
	"sync/atomic"
	"time"

	"github.com/zitadel/saml/pkg/provider"

	"verif/harness/core"
	"verif/harness/env"
	"verif/harness/keys"
	"verif/harness/sim"
	"verif/harness/spsim"
)

// C07 — conformant requests from registered service providers are accepted.

func c07SSO(r *core.Run, idx int, rng *rand.Rand) {
	const wl = "conformant_authn"
	c := conformantSSO(rng)
	if rng.Intn(14) == 0 {
		// a RelayState parameter that is present and empty (and part of what was signed, as for every present parameter)
		c.HasRel, c.Relay = true, ""
		c.Labels = append(c.Labels, "empty_relay_state")
	}
	// percent-encoding style and KeyInfo / base64 layout a conformant SP may choose
	c.Pct = []string{spsim.PctGo, spsim.PctGo, spsim.PctLower, spsim.Pct20, spsim.PctAll}[rng.Intn(5)]
	c.XS.DropKey = rng.Intn(3) == 0
	// xs:base64Binary may be broken anywhere by blanks, tabs, CR and LF
	seps := []string{"\n", "\n", "\r\n", "\n        ", "\n\t\t", " "}
	if !c.XS.DropKey {
		c.XS.WrapCert = []int{0, 0, 64, 76}[rng.Intn(4)]
		c.XS.WrapSep = seps[rng.Intn(len(seps))]
	}
	if c.SPD.CertWrap > 0 {
		c.SPD.CertSep = seps[rng.Intn(len(seps))]
	}
	c.XS.KeepAtEnd = false
	class := []string{"authn", c.Binding}
	if c.Signed {
		class = append(class, "signed", c.Alg[strings.LastIndexAny(c.Alg, "#")+1:])
		if c.Binding == "redirect" {
			class = append(class, "pct="+c.Pct)
		} else {
			if c.XS.DropKey {
				class = append(class, "no_keyinfo")
			} else if c.XS.WrapCert > 0 {
				class = append(class, "wrapped_keyinfo_cert")
				if strings.ContainsAny(c.XS.WrapSep, " \t") {
					class = append(class, "indented")
				}
			}
		}
	} else {
		class = append(class, "unsigned")
		if c.Binding == "redirect" {
			class = append(class, "pct="+c.Pct)
		}
	}
	if c.SPD.CertWrap > 0 {
		class = append(class, "wrapped_metadata_cert")
	}
	c.Labels = class
	e, call := c.run(rng, nil)
	out := judgeSSOOutcome(r, wl, idx, c.label(), e, call, c.describe())
	r.Count("authn_"+out, 1)
	r.Eval(fmt.Sprintf("%s|%s|%s|%s|%v|%v|%d", c.label(), c.Req.Style.String(), c.SPD.AuthnRequestsSigned, c.Want, c.HasRel, c.Req.Conditions, len(c.SPD.ACS)))
	if out != "accepted" {
		reason := "not accepted: " + out
		if call.D.Msg != nil {
			reason = "rejected with " + call.D.Msg.StatusCode + ": " + call.D.Msg.StatusMessage
		}
		r.Violate(core.Violation{Clause: "conformant_authn_rejected", Class: c.label(), Reason: reason, Workload: wl, Index: idx, Case: c.describe(), Observed: call.Describe()})
		return
	}
	if idx < 4 {
		r.Sample("accepted_authn", c.describe())
	}
}

// conformantLogout draws a LogoutRequest a conformant SP can produce.
func conformantLogout(rng *rand.Rand, sp *spsim.SPDesc) *spsim.LogoutReq {
	l := &spsim.LogoutReq{
		ID: newID(rng), Version: "2.0", IssueInstant: tsFrac(time.Now().Add(-time.Duration(rng.Intn(30))*time.Second), rng.Intn(10)),
		Issuer: sp.EntityID, NameID: "user-" + plainString(rng, 6) + "@example.com", Style: spsim.RandStyle(rng),
	}
	if rng.Intn(2) == 0 {
		l.Destination = idpSLO
	}
	if rng.Intn(2) == 0 {
		l.NotOnOrAfter = tsFrac(time.Now().Add(time.Duration(60+rng.Intn(3600))*time.Second), rng.Intn(10))
	}
	if rng.Intn(3) == 0 {
		l.Reason = "urn:oasis:names:tc:SAML:2.0:logout:user"
	}
	if rng.Intn(3) == 0 {
		l.NameIDFormat = "urn:oasis:names:tc:SAML:1.1:nameid-format:emailAddress"
	}
	ns := rng.Intn(3)
	if rng.Intn(20) == 0 {
		ns = 10 + rng.Intn(30)
	}
	for i := ns; i > 0; i-- {
		l.SessionIndex = append(l.SessionIndex, newID(rng))
	}
	return l
}

func c07Logout(r *core.Run, idx int, rng *rand.Rand) {
	const wl = "conformant_logout"
	e := env.Static(env.Opts{})
	d := stdSP(rng.Intn(4))
	d.SLO = nil
	for k := rng.Intn(3); k > 0; k-- {
		d.SLO = append(d.SLO, spsim.SLO{Binding: spsim.BindPost, Location: fmt.Sprintf("https://sp.example/slo/%d", k)})
	}
	mustRegister(e.W, d, "app1")
	l := conformantLogout(rng, d)
	x := l.XML(rng)
	binding := []string{"redirect", "post"}[rng.Intn(2)]
	signed := rng.Intn(2) == 0
	class := []string{"logout", binding}
	s := ssoSend{Path: env.PathSLO, Binding: binding, XML: x}
	if rng.Intn(2) == 0 {
		s.HasRelay, s.Relay = true, relayAlphabet(rng)
	}
	if signed {
		class = append(class, "signed")
		if binding == "redirect" {
			s.SignKey, s.Alg = d.Cert, []string{spsim.AlgRSASHA1, spsim.AlgRSASHA256}[rng.Intn(2)]
		} else {
			sx, err := spsim.SignEnveloped(x, d.Cert, spsim.XMLSignOpts{Alg: spsim.AlgRSASHA256})
			if err != nil {
				panic(err)
			}
			s.XML = sx
		}
	}
	if binding == "redirect" {
		s.Pct = []string{spsim.PctGo, spsim.PctLower, spsim.Pct20, spsim.PctAll}[rng.Intn(4)]
		if rng.Intn(3) == 0 {
			s.Encoding = spsim.EncDeflate
			class = append(class, "explicit_encoding")
		}
	}
	call, _ := s.do(e)
	lbl := strings.Join(class, ",")
	r.Eval(fmt.Sprintf("%s|%s|%d|%v|%v", lbl, l.Style.String(), len(d.SLO), l.NotOnOrAfter != "", s.HasRelay))
	desc := map[string]any{"class": class, "xml": clipS(s.XML, 2000), "slo": d.SLO}
	if call.Panic != "" {
		r.Violate(core.Violation{Clause: "panic", Class: lbl, Reason: call.Panic, Workload: wl, Index: idx, Case: desc, Observed: call.Describe()})
		return
	}
	if call.D.Msg == nil || call.D.Msg.Root != "LogoutResponse" || !call.D.Success() {
		reason := fmt.Sprintf("status %d kind %s", call.D.Status, call.D.Kind)
		if call.D.Msg != nil {
			reason = "answered with " + call.D.Msg.StatusCode + ": " + call.D.Msg.StatusMessage
		}
		r.Violate(core.Violation{Clause: "conformant_logout_rejected", Class: lbl, Reason: reason, Workload: wl, Index: idx, Case: desc, Observed: call.Describe()})
		return
	}
	r.Count("logout_success", 1)
	if idx < 2 {
		r.Sample("accepted_logout", desc)
	}
}

// conformantQuery draws an AttributeQuery a conformant SP can produce.
func conformantQuery(rng *rand.Rand, sp *spsim.SPDesc, login string) *spsim.AttrQuery {
	q := &spsim.AttrQuery{
		ID: newID(rng), Version: "2.0", IssueInstant: tsFrac(time.Now(), rng.Intn(10)), Issuer: sp.EntityID, Subject: login,
		Style: spsim.RandStyle(rng), SoapPfx: []string{"soap", "SOAP-ENV", "s", ""}[rng.Intn(4)], Header: rng.Intn(3) == 0,
	}
	if rng.Intn(2) == 0 {
		q.Destination = idpAttr
	}
	if rng.Intn(3) == 0 {
		q.SubjectFormat = "urn:oasis:names:tc:SAML:1.1:nameid-format:emailAddress"
	}
	names := []string{"Email", "SurName", "FirstName", "FullName", "UserName", "UserID", "Unknown"}
	nq := rng.Intn(4)
	if rng.Intn(20) == 0 {
		nq = 10 + rng.Intn(40)
	}
	for i := nq; i > 0; i-- {
		a := spsim.QAttr{Name: names[rng.Intn(len(names))], NameFormat: basicFormat}
		if rng.Intn(4) == 0 {
			a.Friendly = "f" + plainString(rng, 3)
		}
		q.Attrs = append(q.Attrs, a)
	}
	return q
}

var (
	queryStartRE = regexp.MustCompile(`<([A-Za-z0-9_.-]+:)?AttributeQuery[^>]*>`)
	nsDeclRE     = regexp.MustCompile(`\s+xmlns:[A-Za-z0-9_.-]+="[^"]*"`)
	soapTagRE    = regexp.MustCompile(`<([A-Za-z0-9_.-]+:)?Envelope\b`)
	soapBodyRE   = regexp.MustCompile(`<([A-Za-z0-9_.-]+:)?Body\b`)
)

// hoistNamespaces moves the prefixed namespace declarations of the AttributeQuery start tag to the SOAP Envelope (or
// Body) start tag. ok is false when the query declares a default namespace (which cannot be moved without changing
// the meaning of the SOAP elements) or nothing is there to move.
func hoistNamespaces(envelope string, onBody bool) (string, bool) {
	loc := queryStartRE.FindStringIndex(envelope)
	if loc == nil {
		return "", false
	}
	tag := envelope[loc[0]:loc[1]]
	if strings.Contains(tag, ` xmlns="`) {
		return "", false
	}
	decls := nsDeclRE.FindAllString(tag, -1)
	if len(decls) == 0 {
		return "", false
	}
	soapDecl := soapTagRE.FindString(envelope)
	for _, d := range decls {
		// a prefix the envelope itself uses stays where it is
		if soapDecl != "" && strings.Contains(envelope[:loc[0]], strings.TrimSpace(d)[:strings.Index(strings.TrimSpace(d), "=")+1]) {
			return "", false
		}
	}
	newTag := nsDeclRE.ReplaceAllString(tag, "")
	out := envelope[:loc[0]] + newTag + envelope[loc[1]:]
	re := soapTagRE
	if onBody {
		re = soapBodyRE
	}
	m := re.FindStringIndex(out)
	if m == nil || m[0] > loc[0] {
		return "", false
	}
	return out[:m[1]] + strings.Join(decls, "") + out[m[1]:], true
}

func c07Query(r *core.Run, idx int, rng *rand.Rand) {
	const wl = "conformant_attribute_query"
	e := env.Static(env.Opts{})
	d := stdSP(rng.Intn(4))
	mustRegister(e.W, d, "app1")
	u := randUser(rng, "MKu"+randHex(rng, 4)+"x", false)
	e.W.AddUser(u)
	q := conformantQuery(rng, d, u.Username)
	class := []string{"attribute_query"}
	var body string
	signed := rng.Intn(3) == 0
	if signed {
		class = append(class, "signed")
		root := q.QueryNode()
		sx, err := spsim.SignEnveloped(root.Render(q.Style.Indent), d.Cert, spsim.XMLSignOpts{Alg: []string{spsim.AlgRSASHA1, spsim.AlgRSASHA256}[rng.Intn(2)]})
		if err != nil {
			panic(err)
		}
		sx = strings.TrimPrefix(sx, `<?xml version="1.0" encoding="UTF-8"?>`)
		body = q.Envelope(strings.TrimSpace(sx))
		if h, ok := hoistNamespaces(body, rng.Intn(2) == 0); ok && rng.Intn(2) == 0 {
			// the same signed query with its namespace prefixes declared on the SOAP Envelope / Body (the exclusive
			// canonical form of the signed element is the same)
			body = h
			class = append(class, "namespaces_declared_on_the_envelope")
		}
	} else {
		class = append(class, "unsigned")
		body = q.XML(rng)
		if h, ok := hoistNamespaces(body, rng.Intn(2) == 0); ok && rng.Intn(3) == 0 {
			body = h
			class = append(class, "namespaces_declared_on_the_envelope")
		}
	}
	if q.Destination != "" {
		class = append(class, "with_destination")
	}
	lbl := strings.Join(class, ",")
	// the envelope may arrive in one piece or in pieces (TCP segments)
	chunk := []int{0, 0, 1, 7, 512, 1460, 4096}[rng.Intn(7)]
	if chunk > 0 {
		class = append(class, "body_in_pieces")
		lbl = strings.Join(class, ",")
	}
	call := e.Do(env.Req{Method: "POST", Path: env.PathAttr, Body: body, CT: "text/xml; charset=utf-8", Chunk: chunk, Headers: map[string][]string{"SOAPAction": {"http://www.oasis-open.org/committees/security"}}})
	r.Eval(fmt.Sprintf("%s|%s|%q|%v|%d", lbl, q.Style.String(), q.SoapPfx, q.Header, len(q.Attrs)))
	desc := map[string]any{"class": class, "body": clipS(body, 2500)}
	if call.Panic != "" {
		r.Violate(core.Violation{Clause: "panic", Class: lbl, Reason: call.Panic, Workload: wl, Index: idx, Case: desc, Observed: call.Describe()})
		return
	}
	if call.D.Msg == nil || call.D.Msg.Root != "Response" || !call.D.Success() {
		reason := fmt.Sprintf("status %d kind %s body %s", call.D.Status, call.D.Kind, clipS(string(call.D.Body), 160))
		if call.D.Msg != nil {
			reason = "answered with " + call.D.Msg.StatusCode + ": " + call.D.Msg.StatusMessage
		}
		r.Violate(core.Violation{Clause: "conformant_query_rejected", Class: lbl, Reason: reason, Workload: wl, Index: idx, Case: desc, Observed: call.Describe()})
		return
	}
	r.Count("query_success", 1)
	if idx < 2 {
		r.Sample("accepted_query", desc)
	}
}

// c07Uptime: one process / provider serves many ordinary but sizeable redirect-binding messages
// (indented serialisations, > 10 MiB inflated in total): every one must still be accepted.
func c07Uptime(r *core.Run, idx int, rng *rand.Rand) {
	const wl = "long_uptime"
	e := env.Static(env.Opts{})
	sp := stdSP(0)
	sp.AuthnRequestsSigned = ""
	mustRegister(e.W, sp, "appA")
	total := 0
	for k := 0; k < 56; k++ {
		pad := strings.Repeat("\n        ", 100000+rng.Intn(30000)) // legal white space between elements, 0.9-1.2 MiB
		var call *env.Call
		kind := "authn"
		if k%4 == 3 {
			kind = "logout"
			l := conformantLogout(rng, sp)
			x := l.XML(rng)
			i := strings.LastIndex(x, "</")
			x = x[:i] + pad + x[i:]
			total += len(x)
			s := ssoSend{Path: env.PathSLO, Binding: "redirect", XML: x}
			call, _ = s.do(e)
			if call.Panic == "" && call.D.Success() {
				r.Count("uptime_accepted", 1)
				continue
			}
		} else {
			a := validAuthn(rng, sp)
			x := a.XML(rng)
			i := strings.LastIndex(x, "</")
			x = x[:i] + pad + x[i:]
			total += len(x)
			s := ssoSend{Binding: "redirect", XML: x}
			call, _ = s.do(e)
			if call.Panic == "" && call.Accepted() {
				r.Count("uptime_accepted", 1)
				continue
			}
		}
		reason := fmt.Sprintf("status %d", call.D.Status)
		if call.D.Msg != nil {
			reason = call.D.Msg.StatusCode + ": " + call.D.Msg.StatusMessage
		}
		r.Violate(core.Violation{Clause: "conformant_request_rejected_after_long_uptime", Class: "uptime|" + kind, Reason: fmt.Sprintf("request %d (after %d KiB of inflated messages served by this process) was rejected: %s", k, total>>10, reason), Workload: wl, Index: idx, Observed: call.Describe()})
		return
	}
	r.EvalBulk(56, 1)
	r.Max("uptime_inflated_KiB_served_by_one_provider", int64(total>>10))
}

// c07SignedSequence: ONE provider serves a sequence of correctly signed requests of ONE registered service provider
// (whose metadata lists an encryption key in front of its signing key) - POST and redirect binding, SOAP attribute
// queries, with and without KeyInfo, in any order. What an earlier request looked like must not matter.
func c07SignedSequence(r *core.Run, idx int, rng *rand.Rand) {
	const wl = "signed_request_sequences"
	e := env.Static(env.Opts{WantSigned: []string{"", "true"}[rng.Intn(2)]})
	d := stdSP(0)
	d.AuthnRequestsSigned = []string{"", "true"}[rng.Intn(2)]
	if idx%3 != 2 {
		d.EncCert = keys.Get("sp3")
	}
	mustRegister(e.W, d, "appA")
	u := randUser(rng, fmt.Sprintf("U_MK%dx", idx), false)
	e.W.AddUser(u)
	for k := 0; k < 8; k++ {
		keyInfo := rng.Intn(2) == 0
		kind := []string{"authn_post", "authn_post", "authn_redirect", "query"}[rng.Intn(4)]
		opts := spsim.XMLSignOpts{Alg: []string{spsim.AlgRSASHA1, spsim.AlgRSASHA256}[rng.Intn(2)], DropKey: !keyInfo}
		var call *env.Call
		ok := false
		switch kind {
		case "authn_post":
			a := validAuthn(rng, d)
			sx, err := spsim.SignEnveloped(a.XML(rng), d.Cert, opts)
			if err != nil {
				panic(err)
			}
			call = e.Do(env.Req{Method: "POST", Path: env.PathSSO, Body: spsim.FormBody("SAMLRequest", spsim.B64([]byte(sx)), "RelayState", "MKrelay")})
			ok = call.Accepted()
		case "authn_redirect":
			a := validAuthn(rng, d)
			s := ssoSend{Binding: "redirect", XML: a.XML(rng), HasRelay: true, Relay: "MKrelay", SignKey: d.Cert, Alg: opts.Alg}
			call, _ = s.do(e)
			ok = call.Accepted()
		default:
			q := conformantQuery(rng, d, u.Username)
			sx, err := spsim.SignEnveloped(q.QueryNode().Render(q.Style.Indent), d.Cert, opts)
			if err != nil {
				panic(err)
			}
			call = e.Do(env.Req{Method: "POST", Path: env.PathAttr, Body: q.Envelope(strings.TrimSpace(strings.TrimPrefix(sx, `<?xml version="1.0" encoding="UTF-8"?>`))), CT: "text/xml"})
			ok = call.D.Success()
		}
		class := fmt.Sprintf("signed_sequence|%s|keyinfo=%v|enc_key_listed=%v", kind, keyInfo, d.EncCert != nil)
		r.Eval(fmt.Sprintf("%s|%d|%d", class, idx, k))
		desc := map[string]any{"step": k, "kind": kind, "keyinfo": keyInfo}
		if call.Panic != "" {
			r.Violate(core.Violation{Clause: "panic", Class: class, Reason: call.Panic, Workload: wl, Index: idx, Case: desc, Observed: call.Describe()})
			return
		}
		if !ok {
			r.Violate(core.Violation{Clause: "conformant_signed_request_rejected_in_sequence", Class: class, Reason: fmt.Sprintf("step %d: a correctly signed %s (KeyInfo %v) was not accepted after %d other signed requests of the same service provider (status %d %s)", k, kind, keyInfo, k, call.D.Status, clipS(string(call.D.Body), 200)), Workload: wl, Index: idx, Case: desc, Observed: call.Describe()})
			return
		}
		r.Count("signed_sequence_accepted", 1)
	}
}

// c07AfterManyRefusals: ONE provider first refuses a few dozen requests at its signature checks (foreign key, content
// changed after signing, garbage signature values - on both bindings and on the attribute service), then gets a
// correctly signed request of a registered service provider: what was refused before must not matter.
func c07AfterManyRefusals(r *core.Run, idx int, rng *rand.Rand) {
	const wl = "after_many_refusals"
	e := env.Static(env.Opts{WantSigned: "true"})
	d := stdSP(0)
	d.AuthnRequestsSigned = "true"
	mustRegister(e.W, d, "appA")
	u := randUser(rng, fmt.Sprintf("U_MK%dx", idx), false)
	e.W.AddUser(u)
	refused := 0
	for k := 0; k < 40; k++ {
		var call *env.Call
		switch rng.Intn(4) {
		case 0: // redirect, signed with a key that is not registered
			a := validAuthn(rng, d)
			s := ssoSend{Binding: "redirect", XML: a.XML(rng), HasRelay: true, Relay: "MKrelay", SignKey: keys.Get("attacker"), Alg: spsim.AlgRSASHA256}
			call, _ = s.do(e)
		case 1: // redirect, garbage signature value
			a := validAuthn(rng, d)
			s := ssoSend{Binding: "redirect", XML: a.XML(rng), Extra: []string{"SigAlg", spsim.AlgRSASHA256, "Signature", spsim.B64([]byte("garbage" + randHex(rng, 8)))}}
			call, _ = s.do(e)
		case 2: // POST, content changed after signing
			a := validAuthn(rng, d)
			sx, err := spsim.SignEnveloped(a.XML(rng), d.Cert, spsim.XMLSignOpts{Alg: spsim.AlgRSASHA256, DropKey: rng.Intn(2) == 0})
			if err != nil {
				panic(err)
			}
			sx = strings.Replace(sx, `Version="2.0"`, `Version="2.0" ProviderName="changed"`, 1)
			call = e.Do(env.Req{Method: "POST", Path: env.PathSSO, Body: spsim.FormBody("SAMLRequest", spsim.B64([]byte(sx)))})
		default: // attribute query signed with a key that is not registered, no KeyInfo
			q := conformantQuery(rng, d, u.Username)
			sx, err := spsim.SignEnveloped(q.QueryNode().Render(q.Style.Indent), keys.Get("attacker"), spsim.XMLSignOpts{Alg: spsim.AlgRSASHA256, DropKey: true})
			if err != nil {
				panic(err)
			}
			call = e.Do(env.Req{Method: "POST", Path: env.PathAttr, Body: q.Envelope(strings.TrimSpace(strings.TrimPrefix(sx, `<?xml version="1.0" encoding="UTF-8"?>`))), CT: "text/xml"})
		}
		if call.Panic == "" && !call.Accepted() && !call.D.Success() {
			refused++
		}
	}
	r.Count("requests_refused_before_the_good_one", int64(refused))
	for _, kind := range []string{"authn_post", "authn_redirect", "query"} {
		var call *env.Call
		ok := false
		t0 := time.Now()
		switch kind {
		case "authn_post":
			a := validAuthn(rng, d)
			sx, err := spsim.SignEnveloped(a.XML(rng), d.Cert, spsim.XMLSignOpts{Alg: spsim.AlgRSASHA256})
			if err != nil {
				panic(err)
			}
			call = e.Do(env.Req{Method: "POST", Path: env.PathSSO, Body: spsim.FormBody("SAMLRequest", spsim.B64([]byte(sx)))})
			ok = call.Accepted()
		case "authn_redirect":
			a := validAuthn(rng, d)
			s := ssoSend{Binding: "redirect", XML: a.XML(rng), HasRelay: true, Relay: "MKrelay", SignKey: d.Cert, Alg: spsim.AlgRSASHA256}
			call, _ = s.do(e)
			ok = call.Accepted()
		default:
			q := conformantQuery(rng, d, u.Username)
			sx, err := spsim.SignEnveloped(q.QueryNode().Render(q.Style.Indent), d.Cert, spsim.XMLSignOpts{Alg: spsim.AlgRSASHA256})
			if err != nil {
				panic(err)
			}
			call = e.Do(env.Req{Method: "POST", Path: env.PathAttr, Body: q.Envelope(strings.TrimSpace(strings.TrimPrefix(sx, `<?xml version="1.0" encoding="UTF-8"?>`))), CT: "text/xml"})
			ok = call.D.Success()
		}
		class := "after_many_refusals|" + kind
		r.Eval(fmt.Sprintf("%s|%d", class, idx))
		if call.Panic != "" {
			r.Violate(core.Violation{Clause: "panic", Class: class, Reason: call.Panic, Workload: wl, Index: idx, Observed: call.Describe()})
			return
		}
		if !ok {
			r.Violate(core.Violation{Clause: "conformant_request_rejected_after_refusals", Class: class, Reason: fmt.Sprintf("a correctly signed %s was not accepted (status %d %s, after %s) on a provider that had refused %d badly signed requests before", kind, call.D.Status, clipS(string(call.D.Body), 160), time.Since(t0).Round(time.Millisecond), refused), Workload: wl, Index: idx, Observed: call.Describe()})
			return
		}
		r.Count("accepted_after_many_refusals", 1)
	}
}

// c07AbortedNeighbour: two requests of one service provider overlap on one provider; the client of the first goes
// away while its service-provider lookup is pending (its context is cancelled, the lookup fails with the context's
// error). The second, conformant request has nothing to do with that and must be accepted.
func c07AbortedNeighbour(r *core.Run, idx int, rng *rand.Rand) {
	const wl = "aborted_neighbour"
	e := env.Static(env.Opts{})
	sp := stdSP(rng.Intn(4))
	sp.AuthnRequestsSigned = ""
	mustRegister(e.W, sp, "appA")
	kind := []string{"authn", "logout", "query"}[idx%3]
	// the storage call during which the first client goes away: the service-provider lookup, or the read of the
	// signing key (which the metadata and certificate endpoints need as well)
	abortOp := []string{"GetEntityByID", "GetResponseSigningKey"}[(idx/3)%2]
	if abortOp == "GetResponseSigningKey" {
		kind = []string{"authn", "query", "metadata", "certificate"}[(idx/6)%4]
	}
	u := randUser(rng, fmt.Sprintf("U_MK%dx", idx), false)
	e.W.AddUser(u)
	tagA, tagB := fmt.Sprintf("abortA%d", idx), fmt.Sprintf("abortB%d", idx)
	ctxA, cancelA := context.WithCancel(context.Background())
	defer cancelA()
	aInside, bInside := make(chan struct{}), make(chan struct{})
	var onceA, onceB sync.Once
	e.W.Before = func(_ context.Context, tag, op string, occ int) {
		if op != abortOp {
			return
		}
		switch tag {
		case tagA:
			onceA.Do(func() { close(aInside) })
			// the lookup of A is pending until B has reached the storage as well (or clearly never will: B may be
			// waiting for A's lookup instead of making its own), then A's client goes away
			select {
			case <-bInside:
			case <-time.After(40 * time.Millisecond):
			}
			cancelA()
		case tagB:
			onceB.Do(func() { close(bInside) })
		}
	}
	build := func(tag string, ctx context.Context) env.Req {
		switch kind {
		case "authn":
			a := validAuthn(rng, sp)
			binding := []string{"redirect", "post"}[rng.Intn(2)]
			x := a.XML(rng)
			if binding == "post" {
				return (env.Req{Method: "POST", Path: env.PathSSO, Body: spsim.FormBody("SAMLRequest", spsim.B64([]byte(x)), "RelayState", "MKrelay"), Tag: tag, Ctx: ctx})
			}
			return (env.Req{Path: env.PathSSO, Query: "SAMLRequest=" + url.QueryEscape(spsim.DeflateB64(x)) + "&RelayState=MKrelay", Tag: tag, Ctx: ctx})
		case "logout":
			l := conformantLogout(rng, sp)
			return (env.Req{Method: "POST", Path: env.PathSLO, Body: spsim.FormBody("SAMLRequest", spsim.B64([]byte(l.XML(rng)))), Tag: tag, Ctx: ctx})
		case "metadata":
			return (env.Req{Path: env.PathMetadata, Tag: tag, Ctx: ctx})
		case "certificate":
			return (env.Req{Path: env.PathCert, Tag: tag, Ctx: ctx})
		default:
			q := conformantQuery(rng, sp, u.Username)
			return (env.Req{Method: "POST", Path: env.PathAttr, Body: q.XML(rng), CT: "text/xml", Tag: tag, Ctx: ctx})
		}
	}
	var callA *env.Call
	done := make(chan struct{})
	reqA, reqB := build(tagA, ctxA), build(tagB, nil) // both drawn before anything runs: the generator is not shared
	go func() { callA = e.Do(reqA); close(done) }()
	select {
	case <-aInside:
	case <-done:
	}
	callB := e.Do(reqB)
	<-done
	class := "aborted_neighbour|" + kind + "|" + abortOp
	r.Eval(fmt.Sprintf("%s|%d", class, idx))
	r.Count("aborted_neighbour_pairs", 1)
	desc := map[string]any{"kind": kind, "first_request": callA.Describe()}
	if callB.Panic != "" || callA.Panic != "" {
		r.Violate(core.Violation{Clause: "panic", Class: class, Reason: callA.Panic + callB.Panic, Workload: wl, Index: idx, Case: desc, Observed: callB.Describe()})
		return
	}
	ok := callB.Accepted()
	switch kind {
	case "authn":
	case "metadata":
		ok = callB.D.Status == 200 && strings.Contains(string(callB.D.Body), "EntityDescriptor")
	case "certificate":
		ok = callB.D.Status == 200 && len(callB.D.Body) > 0
	default:
		ok = callB.D.Success()
	}
	if !ok {
		r.Violate(core.Violation{Clause: "conformant_request_rejected_because_a_neighbour_was_aborted", Class: class, Reason: fmt.Sprintf("a conformant %s was not accepted (status %d %s) while another request, whose client went away inside "+abortOp+", was being aborted", kind, callB.D.Status, clipS(string(callB.D.Body), 160)), Workload: wl, Index: idx, Case: desc, Observed: callB.Describe()})
		return
	}
	r.Count("accepted_beside_aborted_neighbour", 1)
}

// c07ConcurrentSigned: several service providers send correctly signed requests (redirect and POST binding, both
// algorithms) to one provider at the same time. Verification state of one request must not disturb another one's.
func c07ConcurrentSigned(r *core.Run, idx int, rng *rand.Rand) {
	const wl = "concurrent_signed_requests"
	e := env.Static(env.Opts{WantSigned: []string{"", "true"}[idx%2]})
	const C = 8
	per := 24
	sps := make([]*spsim.SPDesc, 4)
	for i := range sps {
		sps[i] = stdSP(i)
		sps[i].AuthnRequestsSigned = "true"
		mustRegister(e.W, sps[i], fmt.Sprintf("app%d", i))
	}
	type job struct {
		method, query, body, kind string
	}
	// everything is drawn and signed before anything runs: the generator is not shared
	jobs := make([][]job, C)
	for c := 0; c < C; c++ {
		sp := sps[c%len(sps)]
		pair := keys.Get(fmt.Sprintf("sp%d", c%len(sps)))
		for k := 0; k < per; k++ {
			a := validAuthn(rng, sp)
			alg := []string{spsim.AlgRSASHA1, spsim.AlgRSASHA256}[(c+k)%2]
			if idx%3 == 0 {
				alg = spsim.AlgRSASHA256 // all clients use one algorithm
			}
			x := a.XML(rng)
			if k%3 != 2 {
				m := &spsim.RedirectMsg{Param: "SAMLRequest", Value: spsim.DeflateB64(x), RelayState: fmt.Sprintf("rs-%d-%d", c, k), HasRelay: true, SigAlg: alg, Pct: spsim.PctGo}
				if err := m.Sign(pair.RSA); err != nil {
					panic(err)
				}
				jobs[c] = append(jobs[c], job{"GET", m.RawQuery(), "", "authn_redirect_signed_" + alg[strings.LastIndexAny(alg, "#")+1:]})
			} else {
				sx, err := spsim.SignEnveloped(x, pair, spsim.XMLSignOpts{Alg: alg})
				if err != nil {
					panic(err)
				}
				jobs[c] = append(jobs[c], job{"POST", "", spsim.FormBody("SAMLRequest", spsim.B64([]byte(sx))), "authn_post_signed"})
			}
		}
	}
	type bad struct {
		kind, why string
		obs       any
	}
	var mu sync.Mutex
	var bads []bad
	var accepted, inflight, maxInflight atomic.Int64
	var wg sync.WaitGroup
	start := make(chan struct{})
	for c := 0; c < C; c++ {
		wg.Add(1)
		go func(c int) {
			defer wg.Done()
			<-start
			for _, j := range jobs[c] {
				n := inflight.Add(1)
				for {
					m := maxInflight.Load()
					if n <= m || maxInflight.CompareAndSwap(m, n) {
						break
					}
				}
				call := e.Do(env.Req{Method: j.method, Path: env.PathSSO, Query: j.query, Body: j.body})
				inflight.Add(-1)
				if call.Panic != "" {
					mu.Lock()
					bads = append(bads, bad{"panic", call.Panic, call.Describe()})
					mu.Unlock()
				} else if !call.Accepted() {
					mu.Lock()
					bads = append(bads, bad{j.kind, fmt.Sprintf("status %d %s", call.D.Status, clipS(string(call.D.Body), 200)), call.Describe()})
					mu.Unlock()
				} else {
					accepted.Add(1)
				}
			}
		}(c)
	}
	close(start)
	wg.Wait()
	r.Eval(fmt.Sprintf("concurrent_signed|%d", idx))
	r.Count("concurrent_signed_requests", int64(C*per))
	r.Count("concurrent_signed_accepted", accepted.Load())
	r.Max("max_in_flight_signed_requests", maxInflight.Load())
	for i, b := range bads {
		if i >= 5 {
			break
		}
		clause := "conformant_signed_request_rejected_beside_others"
		if b.kind == "panic" {
			clause = "panic"
		}
		r.Violate(core.Violation{Clause: clause, Class: "concurrent_signed|" + b.kind, Reason: fmt.Sprintf("a correctly signed request was not accepted while %d clients were sending signed requests at the same time (%d of %d failed): %s", C, len(bads), C*per, b.why), Workload: wl, Index: idx, Observed: b.obs})
	}
}

// c07EndpointQuery: the single-sign-on location the IdP advertises has a query of its own.
func c07EndpointQuery(r *core.Run, idx int, rng *rand.Rand) {
	const wl = "advertised_location_with_query"
	q := []string{"org=acme", "tenant=t1&lang=de", "x"}[rng.Intn(3)]
	ssoURL := "https://idp.example/saml/SSO?" + q
	sloURL := "https://idp.example/saml/SLO?" + q
	ssoEP, sloEP := provider.NewEndpointWithURL("/SSO", ssoURL), provider.NewEndpointWithURL("/SLO", sloURL)
	e := env.Static(env.Opts{Endpoints: &provider.EndpointConfig{SingleSignOn: &ssoEP, SingleLogOut: &sloEP}})
	sp := stdSP(rng.Intn(4))
	sp.AuthnRequestsSigned = ""
	mustRegister(e.W, sp, "appA")
	binding := []string{"redirect", "post"}[rng.Intn(2)]
	kind := []string{"authn", "logout"}[rng.Intn(2)]
	var call *env.Call
	ok := false
	if kind == "authn" {
		a := validAuthn(rng, sp)
		a.Destination = ssoURL
		x := a.XML(rng)
		if binding == "post" {
			call = e.Do(env.Req{Method: "POST", Path: env.PathSSO, Query: q, Body: spsim.FormBody("SAMLRequest", spsim.B64([]byte(x)), "RelayState", "rs")})
		} else {
			call = e.Do(env.Req{Path: env.PathSSO, Query: q + "&SAMLRequest=" + url.QueryEscape(spsim.DeflateB64(x)) + "&RelayState=rs"})
		}
		ok = call.Accepted()
	} else {
		l := conformantLogout(rng, sp)
		l.Destination = sloURL
		x := l.XML(rng)
		if binding == "post" {
			call = e.Do(env.Req{Method: "POST", Path: env.PathSLO, Query: q, Body: spsim.FormBody("SAMLRequest", spsim.B64([]byte(x)))})
		} else {
			call = e.Do(env.Req{Path: env.PathSLO, Query: q + "&SAMLRequest=" + url.QueryEscape(spsim.DeflateB64(x))})
		}
		ok = call.D.Success()
	}
	class := fmt.Sprintf("endpoint_with_query|%s|%s", kind, binding)
	r.Eval(class + "|" + q)
	r.Count("endpoint_with_query_requests", 1)
	if call.Panic != "" || !ok {
		reason := fmt.Sprintf("status %d %s", call.D.Status, call.Panic)
		if call.D.Msg != nil {
			reason = call.D.Msg.StatusCode + ": " + call.D.Msg.StatusMessage
		}
		r.Violate(core.Violation{Clause: "conformant_request_to_advertised_location_rejected", Class: class, Reason: "a conformant " + kind + " sent by " + binding + " to the advertised location " + ssoURL + " was not accepted: " + reason, Workload: wl, Index: idx, Observed: call.Describe()})
	}
}

var _ = sim.FaultError

func init() {
	register(&Prop{
		ID: "C07", Level: "exploration", DeathIsViolation: true,
		TimeoutQuick: 5 * time.Minute, TimeoutThorough: 30 * time.Minute,
		Build: func(c *Ctx) []core.Workload {
			r := c.Run
			r.Rule = "requests are drawn from a generator of conformant messages (serialisation style x binding x signing x percent-encoding style x KeyInfo layout x SP/IdP signing requirements), each against a fresh provider; the monitor requires acceptance (AuthnRequest: persisted + 303; LogoutRequest / AttributeQuery: status Success). A further workload drives ONE provider with a host-derived issuer through sequences of conformant requests under several hosts (each addressed to the location advertised for its own host); one where the advertised single-sign-on / logout location has a query of its own; and one where a single process serves more than 100 MiB of ordinary, heavily indented redirect-binding messages. Distinct = (class labels, serialisation style, configuration); all are non-trivial."
			r.Assume("timestamps use the UTC 'Z' form with 0-9 fractional digits, validity windows have >= 60 s margin")
			r.Require("authn_accepted", 100)
			r.Require("logout_success", 50)
			r.Require("query_success", 50)
			r.Require("multi_host_accepted", 500)
			r.Require("multi_host_concurrent_accepted", 500)
			r.Require("accepted_beside_aborted_neighbour", 50)
			r.Require("signed_sequence_accepted", 300)
			r.Require("accepted_after_many_refusals", 30)
			r.Require("endpoint_with_query_requests", 100)
			r.Require("uptime_accepted", 100)
			// a provider that is built now and asked again when it is more than half a minute old (last workload)
			oldEnv, oldBorn := env.Static(env.Opts{}), time.Now()
			oldSP := stdSP(0)
			oldSP.AuthnRequestsSigned = ""
			oldSP.SLO = []spsim.SLO{{Binding: spsim.BindPost, Location: "https://sp0.example/slo"}}
			mustRegister(oldEnv.W, oldSP, "appOld")
			aged := core.Workload{Name: "provider_older_than_half_a_minute", N: 1, Workers: 1, Fn: func(r *core.Run, idx int, rng *rand.Rand) {
				if d := 33*time.Second - time.Since(oldBorn); d > 0 {
					time.Sleep(d)
				}
				for k := 0; k < 6; k++ {
					now := time.Now()
					var call *env.Call
					kind := []string{"logout_post", "authn_with_conditions", "logout_redirect"}[k%3]
					switch kind {
					case "authn_with_conditions":
						a := validAuthn(rng, oldSP)
						a.IssueInstant = tsFrac(now, 3)
						a.Conditions, a.NotBefore, a.NotOnOrAfter = true, tsFrac(now, 3), tsFrac(now.Add(5*time.Minute), 3)
						s := ssoSend{Binding: "redirect", XML: a.XML(rng)}
						call, _ = s.do(oldEnv)
					default:
						l := conformantLogout(rng, oldSP)
						l.IssueInstant = tsFrac(now, 3)
						s := ssoSend{Path: env.PathSLO, Binding: strings.TrimPrefix(kind, "logout_"), XML: l.XML(rng)}
						call, _ = s.do(oldEnv)
					}
					class := "aged_provider|" + kind
					r.Eval(fmt.Sprintf("%s|%d", class, k))
					r.Count("requests_to_an_aged_provider", 1)
					ok := call.Panic == "" && (call.Accepted() || (kind != "authn_with_conditions" && call.D.Success()))
					if !ok {
						r.Violate(core.Violation{Clause: "conformant_request_rejected_by_an_aged_provider", Class: class, Reason: fmt.Sprintf("a conformant request issued just now (IssueInstant / NotBefore = now) was not accepted by a provider constructed %s ago: status %d %s %s", time.Since(oldBorn).Round(time.Second), call.D.Status, clipS(string(call.D.Body), 200), call.Panic), Workload: "provider_older_than_half_a_minute", Index: idx, Observed: call.Describe()})
					}
				}
			}}
			return []core.Workload{
				// first, while nothing else has run in this process: one provider serving > 100 MiB of ordinary messages one after the other
				{Name: "long_uptime", N: c.Pick(2, 8), Workers: 1, Fn: c07Uptime},
				{Name: "conformant_authn", N: c.Pick(700, 8000), Fn: c07SSO},
				{Name: "conformant_logout", N: c.Pick(300, 3000), Fn: c07Logout},
				{Name: "conformant_attribute_query", N: c.Pick(300, 3000), Fn: c07Query},
				{Name: "multi_host_sequences", N: c.Pick(150, 1500), Fn: func(r *core.Run, idx int, rng *rand.Rand) {
					multiHostSequence(r, "multi_host_sequences", idx, rng, false)
				}},
				{Name: "multi_host_concurrent", N: c.Pick(40, 400), Fn: func(r *core.Run, idx int, rng *rand.Rand) {
					multiHostConcurrent(r, "multi_host_concurrent", idx, rng, false)
				}},
				{Name: "aborted_neighbour", N: c.Pick(60, 600), Fn: c07AbortedNeighbour},
				{Name: "concurrent_signed_requests", N: c.Pick(12, 120), Workers: 2, Fn: c07ConcurrentSigned},
				{Name: "signed_request_sequences", N: c.Pick(60, 600), Fn: c07SignedSequence},
				{Name: "after_many_refusals", N: c.Pick(12, 60), Fn: c07AfterManyRefusals},
				{Name: "advertised_location_with_query", N: c.Pick(120, 1200), Fn: c07EndpointQuery},
				aged,
			}
		},
	})
}
