package props

import (
	"crypto/x509"
	"encoding/base64"
	"encoding/pem"
	"fmt"
	"strings"

	"github.com/beevik/etree"

	"verif/harness/env"
)

// metaView is what the served metadata document says.
type metaView struct {
	Call       *env.Call
	Raw        []byte
	Doc        *etree.Document
	EntityID   string
	ID         string
	SSO        []endpoint
	SLO        []endpoint
	Attr       []endpoint
	SigningB64 []string // X509Certificate texts of use="signing" key descriptors of the IDPSSODescriptor
	EncB64     []string
	Cert       *x509.Certificate
	WantSigned string
	HasWant    bool
	Signed     bool
	AllIDs     []string
	Err        string
}

type endpoint struct{ Binding, Location string }

// fetchMeta requests the metadata document at path with the given Host / headers.
func fetchMeta(e *env.Env, path, host string, hdr map[string][]string) *metaView {
	call := e.Do(env.Req{Path: path, Host: host, Headers: hdr})
	v := &metaView{Call: call, Raw: call.D.Body}
	if call.Panic != "" {
		v.Err = "panic: " + call.Panic
		return v
	}
	if call.D.Status != 200 {
		v.Err = fmt.Sprintf("status %d: %s", call.D.Status, clipS(string(call.D.Body), 200))
		return v
	}
	doc := etree.NewDocument()
	if err := doc.ReadFromBytes(call.D.Body); err != nil || doc.Root() == nil {
		v.Err = fmt.Sprintf("metadata does not parse: %v", err)
		return v
	}
	v.Doc = doc
	root := doc.Root()
	if root.Tag != "EntityDescriptor" || root.NamespaceURI() != "urn:oasis:names:tc:SAML:2.0:metadata" {
		v.Err = "root element is {" + root.NamespaceURI() + "}" + root.Tag
		return v
	}
	v.EntityID = root.SelectAttrValue("entityID", "")
	v.ID = root.SelectAttrValue("ID", "")
	var walk func(el *etree.Element)
	walk = func(el *etree.Element) {
		if id := el.SelectAttr("ID"); id != nil {
			v.AllIDs = append(v.AllIDs, id.Value)
		}
		for _, c := range el.ChildElements() {
			walk(c)
		}
	}
	walk(root)
	for _, c := range root.ChildElements() {
		switch c.Tag {
		case "Signature":
			v.Signed = true
		case "IDPSSODescriptor":
			if a := c.SelectAttr("WantAuthnRequestsSigned"); a != nil {
				v.WantSigned, v.HasWant = a.Value, true
			}
			for _, k := range c.ChildElements() {
				switch k.Tag {
				case "SingleSignOnService":
					v.SSO = append(v.SSO, endpoint{k.SelectAttrValue("Binding", ""), k.SelectAttrValue("Location", "")})
				case "SingleLogoutService":
					v.SLO = append(v.SLO, endpoint{k.SelectAttrValue("Binding", ""), k.SelectAttrValue("Location", "")})
				case "KeyDescriptor":
					use := k.SelectAttrValue("use", "")
					for _, ce := range k.FindElements(".//X509Certificate") {
						if use == "signing" || use == "" {
							v.SigningB64 = append(v.SigningB64, ce.Text())
						} else {
							v.EncB64 = append(v.EncB64, ce.Text())
						}
					}
				}
			}
		case "AttributeAuthorityDescriptor":
			for _, k := range c.ChildElements() {
				if k.Tag == "AttributeService" {
					v.Attr = append(v.Attr, endpoint{k.SelectAttrValue("Binding", ""), k.SelectAttrValue("Location", "")})
				}
			}
		}
	}
	if len(v.SigningB64) > 0 {
		der, err := base64.StdEncoding.DecodeString(strings.Join(strings.Fields(v.SigningB64[0]), ""))
		if err == nil {
			v.Cert, _ = x509.ParseCertificate(der)
		}
	}
	return v
}

// fetchCertPEM requests the certificate endpoint and parses the PEM it serves.
func fetchCertPEM(e *env.Env, path, host string, hdr map[string][]string) (*x509.Certificate, string) {
	call := e.Do(env.Req{Path: path, Host: host, Headers: hdr})
	if call.Panic != "" {
		return nil, "panic: " + call.Panic
	}
	if call.D.Status != 200 {
		return nil, fmt.Sprintf("status %d", call.D.Status)
	}
	blk, _ := pem.Decode(call.Rec.Body.Bytes())
	if blk == nil || blk.Type != "CERTIFICATE" {
		return nil, "certificate endpoint does not serve a PEM certificate"
	}
	c, err := x509.ParseCertificate(blk.Bytes)
	if err != nil {
		return nil, err.Error()
	}
	return c, ""
}
