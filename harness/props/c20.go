package props

import (
	"context"
	"errors"
	"fmt"
	"github.com/sirupsen/logrus"
	"github.com/zitadel/logging"
	"io"
	"math/rand"
	"net/url"
	"os"
	"strings"
	"time"

	"github.com/zitadel/saml/pkg/provider/checker"

	"verif/harness/core"
)

// C20 — validation chains stop at the first failure and report it exactly once.
//
// Chains are built from instrumented closures that append (step, role) to a
// trace; a reference interpreter predicts the trace projection and the result.

const (
	roleValue = iota
	roleCond
	roleLogic
	roleCallback
)

type c20ev struct{ step, role uint8 }

type c20trace struct {
	ev []c20ev
	// overlapping evaluations: events are routed to the trace of the evaluation that is running, and onAdd lets the
	// orchestrator park an evaluation inside a step
	to    *c20trace
	onAdd func(step int)
}

func (t *c20trace) add(step int, role uint8) {
	if t.to != nil {
		t.to.ev = append(t.to.ev, c20ev{uint8(step), role})
	} else {
		t.ev = append(t.ev, c20ev{uint8(step), role})
	}
	if t.onAdd != nil {
		t.onAdd(step)
	}
}

// c20variant is one (kind, outcome) pair.
type c20variant struct {
	kind  int
	name  string
	fails bool
	// parameters
	val     string
	vals    []string
	min     int
	max     int
	equal   string
	cond    bool
	logErr  bool
	errKind int // which of c20Errors a failing logic step returns
}

var errC20 = errors.New("step failure")

type c20TimeoutErr struct{}

func (c20TimeoutErr) Error() string   { return "i/o timeout" }
func (c20TimeoutErr) Timeout() bool   { return true }
func (c20TimeoutErr) Temporary() bool { return true }

// c20Errors are the errors a failing logic step returns: what kind of error it is must not matter.
var c20Errors = []error{
	errC20, context.Canceled, context.DeadlineExceeded, fmt.Errorf("storage: %w", context.DeadlineExceeded), fmt.Errorf("lookup: %w", context.Canceled),
	c20TimeoutErr{}, io.EOF, io.ErrUnexpectedEOF, errors.New(""), fmt.Errorf("wrapped: %w", errC20), os.ErrNotExist, &url.Error{Op: "Get", URL: "https://x", Err: c20TimeoutErr{}},
}

func (v *c20variant) err() error { return c20Errors[v.errKind%len(c20Errors)] }

var c20core = []c20variant{
	{kind: 1, name: "notempty/pass", val: "x"},
	{kind: 1, name: "notempty/fail", val: "", fails: true},
	{kind: 2, name: "values/pass", vals: []string{"a", "b"}},
	{kind: 2, name: "values/fail-last", vals: []string{"a", ""}, fails: true},
	{kind: 2, name: "values/fail-first", vals: []string{"", "b"}, fails: true},
	{kind: 3, name: "length/pass-nobounds", val: "abc"},
	{kind: 3, name: "length/fail-short", val: "abc", min: 4, fails: true},
	{kind: 3, name: "length/fail-long", val: "abc", max: 2, fails: true},
	{kind: 3, name: "length/pass-exact", val: "abc", min: 3, max: 3},
	{kind: 4, name: "equals/pass", val: "v", equal: "v"},
	{kind: 4, name: "equals/fail", val: "v", equal: "w", fails: true},
	{kind: 5, name: "condnotempty/pass", cond: true, val: "x"},
	{kind: 5, name: "condnotempty/fail", cond: true, val: "", fails: true},
	{kind: 5, name: "condnotempty/condfalse", cond: false, val: ""},
	{kind: 6, name: "condlogic/pass", cond: true},
	{kind: 6, name: "condlogic/fail", cond: true, logErr: true, fails: true},
	{kind: 6, name: "condlogic/condfalse", cond: false, logErr: true},
	{kind: 7, name: "logic/pass"},
	{kind: 7, name: "logic/fail", logErr: true, fails: true},
	{kind: 7, name: "logic/fail-context-deadline", logErr: true, errKind: 3, fails: true},
	{kind: 8, name: "valuestep"},
}

// two values that agree on their first 100 bytes
var c20Long = strings.Repeat("https://tenant.example/saml/acs/", 4)

var c20extra = []c20variant{
	{kind: 6, name: "condlogic/fail-context-canceled", cond: true, logErr: true, errKind: 1, fails: true},
	{kind: 4, name: "equals/fail-long-common-prefix", val: c20Long + "a", equal: c20Long + "b", fails: true},
	{kind: 4, name: "equals/pass-long", val: c20Long + "a", equal: c20Long + "a"},
	{kind: 1, name: "notempty/space", val: " "},
	{kind: 2, name: "values/empty-list", vals: nil},
	{kind: 3, name: "length/empty-min1", val: "", min: 1, fails: true},
	{kind: 3, name: "length/pass-inside", val: "abc", min: 1, max: 5},
	{kind: 3, name: "length/pass-min-eq", val: "abc", min: 3},
	{kind: 3, name: "length/pass-max-eq", val: "abc", max: 3},
	{kind: 4, name: "equals/fail-permutation", val: "_id-12", equal: "_id-21", fails: true},
	{kind: 4, name: "equals/fail-two-positions", val: "aa", equal: "bb", fails: true},
	{kind: 4, name: "equals/fail-case", val: "abc", equal: "ABC", fails: true},
	{kind: 3, name: "length/fail-multibyte-max", val: "Zürich", max: 6, fails: true},
	{kind: 3, name: "length/pass-multibyte-min", val: "Zürich", min: 7},
}

func c20build(ck *checker.Checker, t *c20trace, i int, v *c20variant) {
	cb := func() { t.add(i, roleCallback) }
	switch v.kind {
	case 1:
		ck.WithValueNotEmptyCheck("n", func() string { t.add(i, roleValue); return v.val }, cb)
	case 2:
		ck.WithValuesNotEmptyCheck(func() []string { t.add(i, roleValue); return v.vals }, cb)
	case 3:
		ck.WithValueLengthCheck("n", func() string { t.add(i, roleValue); return v.val }, v.min, v.max, cb)
	case 4:
		ck.WithValueEqualsCheck("n", func() string { t.add(i, roleValue); return v.val }, func() string { t.add(i, roleValue); return v.equal }, cb)
	case 5:
		ck.WithConditionalValueNotEmpty(func() bool { t.add(i, roleCond); return v.cond }, "n", func() string { t.add(i, roleValue); return v.val }, cb)
	case 6:
		ck.WithConditionalLogicStep(func() bool { t.add(i, roleCond); return v.cond }, func() error {
			t.add(i, roleLogic)
			if v.logErr {
				return v.err()
			}
			return nil
		}, cb)
	case 7:
		ck.WithLogicStep(func() error {
			t.add(i, roleLogic)
			if v.logErr {
				return v.err()
			}
			return nil
		}, cb)
	case 8:
		ck.WithValueStep(func() { t.add(i, roleLogic) })
	}
}

// reference semantics of one variant (independent of the table's "fails" label)
func c20refFails(v *c20variant) bool {
	switch v.kind {
	case 1:
		return v.val == ""
	case 2:
		for _, s := range v.vals {
			if s == "" {
				return true
			}
		}
		return false
	case 3:
		return (v.min > 0 && len(v.val) < v.min) || (v.max > 0 && len(v.val) > v.max)
	case 4:
		return v.val != v.equal
	case 5:
		return v.cond && v.val == ""
	case 6, 7:
		if v.kind == 6 && !v.cond {
			return false
		}
		return v.logErr
	}
	return false
}

// c20judge compares one evaluation's trace with the reference prediction.
// Returns "" or the failed clause.
func c20judge(chain []*c20variant, t *c20trace, got bool) (string, string) {
	first := -1
	for i, v := range chain {
		if c20refFails(v) {
			first = i
			break
		}
	}
	if got != (first >= 0) {
		return "result", fmt.Sprintf("CheckFailed=%v, reference=%v", got, first >= 0)
	}
	last := len(chain) - 1
	if first >= 0 {
		last = first
	}
	// steps evaluated: exactly 0..last, in order (non-decreasing step index), callbacks exactly one for `first`
	seenStep := make([]bool, len(chain))
	cbs := 0
	prev := -1
	for _, e := range t.ev {
		s := int(e.step)
		if s > last {
			return "later_step_ran", fmt.Sprintf("step %d (role %d) ran although the chain must stop at step %d", s, e.role, last)
		}
		if s < prev {
			return "order", fmt.Sprintf("step %d ran after step %d", s, prev)
		}
		prev = s
		seenStep[s] = true
		if e.role == roleCallback {
			if s != first {
				return "callback_of_passing_step", fmt.Sprintf("callback of step %d ran, first failing step is %d", s, first)
			}
			cbs++
		}
		if e.role == roleLogic && chain[s].kind == 6 && !chain[s].cond {
			// the logic of a conditional step whose condition is false must not decide anything;
			// running it is recorded but only judged through the result (it has no side effect here)
			_ = s
		}
	}
	for i := 0; i <= last; i++ {
		// a step whose verdict does not depend on a closure (e.g. a length check
		// without positive bounds) may legitimately call nothing; logic steps must run
		if k := chain[i].kind; !seenStep[i] && (k == 6 || k == 7 || k == 8) {
			return "step_skipped", fmt.Sprintf("step %d was never evaluated", i)
		}
	}
	want := 0
	if first >= 0 {
		want = 1
	}
	if cbs != want {
		return "callback_count", fmt.Sprintf("failure callback ran %d times, want %d", cbs, want)
	}
	return "", ""
}

func c20proj(t *c20trace) string {
	var b strings.Builder
	prev := -1
	for _, e := range t.ev {
		if e.role == roleCallback {
			fmt.Fprintf(&b, "cb%d;", e.step)
		} else if int(e.step) != prev {
			fmt.Fprintf(&b, "s%d;", e.step)
		}
		prev = int(e.step)
	}
	return b.String()
}

// c20run evaluates one chain twice and judges both evaluations.
func c20run(r *core.Run, wl string, idx int, chain []*c20variant, t *c20trace) bool {
	return c20runCk(r, wl, idx, chain, t) != nil
}

// c20runCk is c20run returning the evaluated checker (nil after a violation).
func c20runCk(r *core.Run, wl string, idx int, chain []*c20variant, t *c20trace) *checker.Checker {
	ck := &checker.Checker{}
	t.ev = t.ev[:0]
	for i, v := range chain {
		c20build(ck, t, i, v)
	}
	if ck.StepCount() != len(chain) {
		c20violate(r, wl, idx, chain, "step_count", fmt.Sprintf("StepCount=%d for %d steps", ck.StepCount(), len(chain)))
		return nil
	}
	got := ck.CheckFailed()
	if cl, why := c20judge(chain, t, got); cl != "" {
		c20violate(r, wl, idx, chain, cl, why)
		return nil
	}
	p1 := c20proj(t)
	t.ev = t.ev[:0]
	got2 := ck.CheckFailed()
	if cl, why := c20judge(chain, t, got2); cl != "" {
		c20violate(r, wl, idx, chain, "reevaluation/"+cl, why)
		return nil
	}
	if got2 != got || c20proj(t) != p1 {
		c20violate(r, wl, idx, chain, "reevaluation", fmt.Sprintf("first %v %s, second %v %s", got, p1, got2, c20proj(t)))
		return nil
	}
	return ck
}

// c20Overlap: two evaluations of ONE checker overlap. Evaluation A is parked inside a step (its goroutine waits in
// one of the step's closures); evaluation B then runs from start to end on another goroutine; A is released. While A
// is parked every closure call belongs to B, so both traces are known exactly, and each evaluation on its own must
// behave as the reference interpreter says. An implementation that serialises evaluations cannot be overlapped like
// this: B then does not finish while A is parked, and the case is counted but not judged.
func c20Overlap(r *core.Run, idx int, rng *rand.Rand) {
	const wl = "overlapping_evaluations"
	for k := 0; k < 40; k++ {
		L := 2 + rng.Intn(9)
		chain := make([]*c20variant, L)
		for i := range chain {
			chain[i] = c20random(rng)
			if rng.Intn(3) != 0 { // mostly passing steps, so that evaluations get far
				c20mutate(rng, chain[i:i+1], 1)
			}
		}
		router, ta, tb := &c20trace{}, &c20trace{}, &c20trace{}
		ck := &checker.Checker{}
		for i, v := range chain {
			c20build(ck, router, i, v)
		}
		parkAt := rng.Intn(L)
		armed := true
		parked, release := make(chan struct{}), make(chan struct{})
		router.to = ta
		router.onAdd = func(step int) {
			if armed && step == parkAt {
				armed = false
				close(parked)
				<-release
			}
		}
		type res struct {
			failed bool
			panic  string
		}
		eval := func(out chan res) {
			defer func() {
				if p := recover(); p != nil {
					out <- res{panic: fmt.Sprint(p)}
				}
			}()
			out <- res{failed: ck.CheckFailed()}
		}
		doneA, doneB := make(chan res, 1), make(chan res, 1)
		go eval(doneA)
		var ra, rb res
		select {
		case <-parked:
		case ra = <-doneA:
			// the parking step was not reached (the chain stopped earlier or the step calls no closure)
			r.Count("overlap_not_reached", 1)
			if ra.panic != "" {
				c20violate(r, wl, idx, chain, "panic", ra.panic)
			} else if cl, why := c20judge(chain, ta, ra.failed); cl != "" {
				c20violate(r, wl, idx, chain, cl, why)
			}
			continue
		case <-time.After(20 * time.Second):
			r.Inconclusive("overlapping evaluations: the first evaluation neither reached its parking step nor returned within 20 s")
			return
		}
		router.to = tb
		go eval(doneB)
		overlapped := false
		select {
		case rb = <-doneB:
			overlapped = true
		case <-time.After(2 * time.Second):
		}
		if !overlapped {
			// evaluations of one checker exclude each other (or the machine is very slow): nothing to judge
			close(release)
			r.Count("overlap_not_possible", 1)
			select {
			case <-doneA:
			case <-time.After(20 * time.Second):
			}
			select {
			case <-doneB:
			case <-time.After(20 * time.Second):
				r.Inconclusive("overlapping evaluations: the second evaluation did not return within 20 s after the first was released")
				return
			}
			continue
		}
		router.to = ta
		close(release)
		select {
		case ra = <-doneA:
		case <-time.After(20 * time.Second):
			r.Inconclusive("overlapping evaluations: the parked evaluation did not return within 20 s after its release")
			return
		}
		r.Count("overlapped_evaluation_pairs", 1)
		r.Eval(fmt.Sprintf("overlap|%d|%d|%s|%s", L, parkAt, c20proj(ta), c20proj(tb)))
		for _, x := range []struct {
			name string
			t    *c20trace
			r    res
		}{{"the evaluation that was parked inside step " + fmt.Sprint(parkAt), ta, ra}, {"the evaluation that ran while another one was parked inside step " + fmt.Sprint(parkAt), tb, rb}} {
			if x.r.panic != "" {
				c20violate(r, wl, idx, chain, "overlap/panic", x.name+": "+x.r.panic)
				break
			}
			if cl, why := c20judge(chain, x.t, x.r.failed); cl != "" {
				c20violate(r, wl, idx, chain, "overlap/"+cl, x.name+": "+why)
				break
			}
		}
	}
}

func c20violate(r *core.Run, wl string, idx int, chain []*c20variant, clause, why string) {
	var names []string
	for _, v := range chain {
		names = append(names, v.name)
	}
	r.Violate(core.Violation{Clause: clause, Class: "chain", Reason: why, Workload: wl, Index: idx, Case: names})
}

func init() {
	register(&Prop{
		ID: "C20", Level: "exploration",
		TimeoutQuick: 5 * time.Minute, TimeoutThorough: 30 * time.Minute,
		Build: func(c *Ctx) []core.Workload {
			r := c.Run
			r.Rule = "every sequence over the (step kind, outcome) variants up to the stated length is built with the real checker from instrumented closures, evaluated twice, and its trace compared with a reference interpreter; plus random longer chains with random strings and bounds, each evaluated four more times on the same checker after the outcomes of its steps were changed (re-drawn, all passing, exactly one failing, all passing). Finally two evaluations of one checker overlap (one is parked inside a step while the other runs from start to end; both traces are known exactly because the parked goroutine calls nothing): each must behave as the reference says on its own. Distinct = pairwise different sequences (by construction for the enumeration, by hash for random chains); non-trivial = length >= 2."
			r.Assume("the number of times a step reads its own value is not constrained")
			variants := append([]c20variant{}, c20core...)
			maxLen := 4
			if c.Thorough {
				maxLen = 6
			} else {
				variants = append(variants, c20extra...)
			}
			V := len(variants)
			r.Extra("variants", V)
			r.Extra("exhaustive_max_length", maxLen)
			r.SetExhaustive(true)
			// workload 1: exhaustive enumeration; one case per (first, second) prefix
			enum := core.Workload{Name: "enumerate", N: V * V, Fn: func(r *core.Run, idx int, _ *rand.Rand) {
				a, b := idx/V, idx%V
				t := &c20trace{ev: make([]c20ev, 0, 64)}
				var n, distinct int64
				chain := make([]*c20variant, 0, maxLen)
				// lengths 0,1 handled by prefix (0,0) only
				if idx == 0 {
					c20run(r, "enumerate", idx, nil, t)
					n++
					for i := range variants {
						c20run(r, "enumerate", idx, []*c20variant{&variants[i]}, t)
						n++
					}
					r.Sample("chain", []string{variants[1].name})
				}
				chain = append(chain, &variants[a], &variants[b])
				var rec func(depth int) bool
				rec = func(depth int) bool {
					if !c20run(r, "enumerate", idx, chain, t) {
						return r.NumViolations() < 50
					}
					n++
					distinct++
					if depth == maxLen {
						return true
					}
					for i := range variants {
						chain = append(chain, &variants[i])
						ok := rec(depth + 1)
						chain = chain[:len(chain)-1]
						if !ok {
							return false
						}
					}
					return true
				}
				rec(2)
				r.EvalBulk(n, distinct)
				r.Count("chains_enumerated", n)
				if idx == V+1 {
					r.Sample("chain", []string{variants[a].name, variants[b].name, "…all extensions"})
				}
			}}
			// workload 2: random chains up to length 12 with random parameters
			nRand := c.Pick(20000, 200000)
			rnd := core.Workload{Name: "random", N: nRand / 100, Fn: func(r *core.Run, idx int, rng *rand.Rand) {
				t := &c20trace{ev: make([]c20ev, 0, 64)}
				for k := 0; k < 100; k++ {
					L := 1 + rng.Intn(12)
					chain := make([]*c20variant, L)
					var sig strings.Builder
					for i := range chain {
						v := c20random(rng)
						chain[i] = v
						fmt.Fprintf(&sig, "%d:%q:%v:%d:%d:%q:%v:%v|", v.kind, v.val, v.vals, v.min, v.max, v.equal, v.cond, v.logErr)
					}
					if ck := c20runCk(r, "random", idx, chain, t); ck != nil {
						// the same checker is evaluated again after the outcomes of its steps changed: the verdict is a
						// function of the steps' present outcomes only (nothing is remembered from earlier evaluations)
						for h := 0; h < 4; h++ {
							c20mutate(rng, chain, h)
							t.ev = t.ev[:0]
							got := ck.CheckFailed()
							if cl, why := c20judge(chain, t, got); cl != "" {
								c20violate(r, "random", idx, chain, "history/"+cl, fmt.Sprintf("evaluation %d of one checker after its steps' outcomes changed: %s", h+3, why))
								break
							}
							r.Count("evaluations_after_outcome_change", 1)
						}
						// the chain grows after it has been evaluated: the next evaluation is the evaluation of the longer chain
						if k%4 == 0 && r.NumViolations() == 0 {
							more := 1 + rng.Intn(3)
							for j := 0; j < more; j++ {
								v := c20random(rng)
								chain = append(chain, v)
								c20build(ck, t, len(chain)-1, v)
							}
							if ck.StepCount() != len(chain) {
								c20violate(r, "random", idx, chain, "extended/step_count", fmt.Sprintf("StepCount=%d after the chain was extended to %d steps behind an evaluation", ck.StepCount(), len(chain)))
							} else {
								t.ev = t.ev[:0]
								got := ck.CheckFailed()
								if cl, why := c20judge(chain, t, got); cl != "" {
									c20violate(r, "random", idx, chain, "extended/"+cl, "evaluation of a chain that was extended after it had been evaluated: "+why)
								}
							}
							r.Count("chains_extended_after_evaluation", 1)
						}
					}
					if L >= 2 {
						r.Eval(sig.String())
					} else {
						r.Eval("")
					}
					if k == 0 && idx < 2 {
						var names []string
						for _, v := range chain {
							names = append(names, fmt.Sprintf("%s(%q,%d,%d)", v.name, v.val, v.min, v.max))
						}
						r.Sample("random_chain", names)
					}
				}
				r.Count("random_chains", 100)
			}}
			r.Require("chains_enumerated", 1000)
			r.Require("random_chains", 1000)
			r.Require("evaluations_after_outcome_change", 1000)
			ovl := core.Workload{Name: "overlapping_evaluations", N: c.Pick(50, 500), Fn: c20Overlap}
			// the same chains while the process logs at debug / trace level (what a step logs must not evaluate anything)
			lvl := core.Workload{Name: "chains_at_verbose_log_levels", N: 2, Workers: 1, Fn: func(r *core.Run, idx int, _ *rand.Rand) {
				logging.SetLevel([]logrus.Level{logrus.DebugLevel, logrus.TraceLevel}[idx])
				defer logging.SetLevel(logrus.InfoLevel)
				t := &c20trace{ev: make([]c20ev, 0, 64)}
				var n int64
				for a := range variants {
					for b := range variants {
						if !c20run(r, "chains_at_verbose_log_levels", idx, []*c20variant{&variants[a], &variants[b]}, t) {
							return
						}
						n++
						for cc := range variants {
							if (a+b+cc)%3 != idx {
								continue // a third of the triples per level
							}
							if !c20run(r, "chains_at_verbose_log_levels", idx, []*c20variant{&variants[a], &variants[b], &variants[cc]}, t) {
								return
							}
							n++
						}
					}
				}
				r.EvalBulk(n, 0)
				r.Count("chains_evaluated_at_a_verbose_log_level", n)
			}}
			return []core.Workload{enum, rnd, ovl, lvl}
		},
	})
}

// c20mutate changes the outcomes of the steps of a built chain in place (the closures read the variants):
// mode 0 re-draws every step, mode 1 and 3 make every step pass, mode 2 makes exactly one step fail.
func c20mutate(rng *rand.Rand, chain []*c20variant, mode int) {
	// min and max are handed to the checker by value when the step is built, so they stay as they are
	pass := func(v *c20variant) {
		n := 1
		if v.min > 0 {
			n = v.min
		}
		if v.max > 0 && n > v.max {
			n = v.max
		}
		v.val = strings.Repeat("k", n)
		v.equal, v.vals, v.cond, v.logErr = v.val, []string{"a"}, true, false
	}
	switch mode {
	case 0:
		for _, v := range chain {
			k, mn, mx := v.kind, v.min, v.max
			*v = *c20random(rng)
			v.kind, v.min, v.max = k, mn, mx
		}
	case 2:
		for _, v := range chain {
			pass(v)
		}
		cands := []*c20variant{}
		for _, v := range chain {
			if v.kind != 8 {
				cands = append(cands, v)
			}
		}
		if len(cands) > 0 {
			v := cands[rng.Intn(len(cands))]
			v.val, v.vals, v.equal, v.logErr, v.errKind = "", []string{"a", "", ""}, "other", true, rng.Intn(len(c20Errors))
		}
	default:
		for _, v := range chain {
			pass(v)
		}
	}
}

func c20random(rng *rand.Rand) *c20variant {
	strs := []string{"", "", "a", "ab", "abc", " ", "äöü", "0123456789", strings.Repeat("x", rng.Intn(40)), "ba", "aa", "bb", "cab", "_id-12", "_id-21", "Zürich", "abc\x00", "ABC"}
	v := &c20variant{kind: 1 + rng.Intn(8), name: "random"}
	v.val = strs[rng.Intn(len(strs))]
	v.equal = strs[rng.Intn(len(strs))]
	if rng.Intn(2) == 0 {
		v.equal = v.val
	}
	n := rng.Intn(4)
	for i := 0; i < n; i++ {
		v.vals = append(v.vals, strs[rng.Intn(len(strs))])
	}
	v.min = rng.Intn(8) - 2
	v.max = rng.Intn(12) - 2
	v.cond = rng.Intn(2) == 0
	v.logErr = rng.Intn(3) == 0
	v.errKind = rng.Intn(len(c20Errors))
	if rng.Intn(6) == 0 {
		// long values that share a prefix of 64 .. 300 bytes and differ (or not) behind it
		pre := strings.Repeat("p", 60+rng.Intn(240))
		v.val, v.equal = pre+strs[rng.Intn(len(strs))], pre+strs[rng.Intn(len(strs))]
		if rng.Intn(3) == 0 {
			v.equal = v.val + "..."
		}
	}
	v.name = fmt.Sprintf("kind%d", v.kind)
	return v
}
