package props

import (
	"fmt"
	"math/rand"
	"net/http"
	"net/url"
	"regexp"
	"strings"
	"sync"
	"sync/atomic"
	"time"

	"github.com/zitadel/saml/pkg/provider"

	"verif/harness/core"
	"verif/harness/env"
	"verif/harness/spsim"
)

// C19 — issuer validation and derivation.

var rfc3986 = regexp.MustCompile(`^(([^:/?#]+):)?(//([^/?#]*))?([^?#]*)(\?([^#]*))?(#(.*))?$`)

type uriParts struct {
	Scheme, Authority, Host, Path, Query, Fragment string
	HasAuthority                                   bool
}

// splitURI is the reference splitter (RFC 3986 appendix B), independent of net/url.
func splitURI(s string) (uriParts, bool) {
	m := rfc3986.FindStringSubmatch(s)
	if m == nil {
		return uriParts{}, false
	}
	p := uriParts{Scheme: m[2], Authority: m[4], HasAuthority: m[3] != "", Path: m[5], Query: m[7], Fragment: m[9]}
	h := p.Authority
	if i := strings.LastIndexByte(h, '@'); i >= 0 {
		h = h[i+1:]
	}
	if strings.HasPrefix(h, "[") {
		if j := strings.IndexByte(h, ']'); j >= 0 {
			h = h[:j+1]
		}
	} else if i := strings.LastIndexByte(h, ':'); i >= 0 {
		h = h[:i]
	}
	p.Host = h
	return p, true
}

func randIssuer(rng *rand.Rand) string {
	schemes := []string{"https", "https", "https", "http", "HTTPS", "Https", "hTTp", "ftp", "ws", "wss", "javascript", "file", "", "h", "https+x", "1https", "urn"}
	hosts := []string{"idp.example", "idp.example", "IDP.Example", "localhost", "127.0.0.1", "[::1]", "[2001:db8::1]", "idp.example:8443", "idp.example:", ":8443", "", "user@idp.example", "user:pw@idp.example", "user@", "@", "a b", "idp.example.", "xn--bcher-kva.example", "bücher.example", "%41.example", "-", "*", "a_b.example"}
	paths := []string{"", "/", "/saml", "/saml/", "/a/b/c", "//double", "/with space", "/%2F", "/ü", "/.", "/..", "/;p=1", "/a:b", "saml"}
	queries := []string{"", "", "", "", "?", "?a=1", "?a", "?=", "?%zz", "? "}
	frags := []string{"", "", "", "", "#", "#f", "#?x", "# "}
	switch rng.Intn(12) {
	case 0: // opaque or malformed
		return []string{"", "https:", "https:idp.example", "https:/idp.example", "https:///path", "//idp.example", "idp.example", "/just/a/path", "https://", "https//idp.example", "https:\\\\idp.example", "https://idp.example\n", "https://idp.example\x00", "https://idp.example/\x7f", " https://idp.example", "https://idp.example ", "https://[::1", "https://idp.example:port", "https://idp.example:99999999", "https://%zz", "mailto:a@b.example", "urn:oasis:names", "https://?x", "https://#f", "https://user@:80"}[rng.Intn(25)]
	}
	s := schemes[rng.Intn(len(schemes))]
	u := ""
	if s != "" || rng.Intn(2) == 0 {
		u = s + ":"
	}
	u += "//" + hosts[rng.Intn(len(hosts))] + paths[rng.Intn(len(paths))] + queries[rng.Intn(len(queries))] + frags[rng.Intn(len(frags))]
	return u
}

func c19Static(r *core.Run, idx int, rng *rand.Rand) {
	const wl = "static_issuers"
	for k := 0; k < 40; k++ {
		s := randIssuer(rng)
		insecure := rng.Intn(2) == 0
		via := rng.Intn(2)
		var err error
		var pan string
		func() {
			defer func() {
				if p := recover(); p != nil {
					pan = fmt.Sprint(p)
				}
			}()
			if via == 0 {
				err = provider.ValidateIssuer(s, insecure)
			} else {
				_, err = env.New(env.Opts{Issuer: s, Insecure: insecure})
				if s == "" {
					err = provider.ValidateIssuer(s, insecure) // env.New treats "" as host-derived
				}
			}
		}()
		class := fmt.Sprintf("insecure=%v|via=%d", insecure, via)
		r.Eval(fmt.Sprintf("%q|%v", s, insecure))
		r.Count("issuer_strings", 1)
		if pan != "" {
			r.Violate(core.Violation{Clause: "panic", Class: class, Reason: pan, Workload: wl, Index: idx, Case: map[string]any{"issuer": s}})
			continue
		}
		if err != nil {
			r.Count("issuers_rejected", 1)
			continue
		}
		r.Count("issuers_accepted", 1)
		p, ok := splitURI(s)
		var why string
		switch {
		case !ok:
			why = "does not match the generic URI syntax"
		case strings.ToLower(p.Scheme) != "https" && !(insecure && strings.ToLower(p.Scheme) == "http"):
			why = fmt.Sprintf("scheme %q", p.Scheme)
		case !p.HasAuthority || p.Host == "":
			why = fmt.Sprintf("no host (authority %q)", p.Authority)
		case p.Query != "":
			why = fmt.Sprintf("query %q", p.Query)
		case p.Fragment != "":
			why = fmt.Sprintf("fragment %q", p.Fragment)
		}
		if why != "" {
			r.Violate(core.Violation{Clause: "invalid_issuer_accepted", Class: class, Reason: fmt.Sprintf("issuer %q accepted although: %s", s, why), Workload: wl, Index: idx, Case: map[string]any{"issuer": s, "insecure": insecure}})
		}
		if idx < 2 && k < 3 {
			r.Sample("accepted_issuer", map[string]any{"issuer": s, "insecure": insecure})
		}
	}
}

// fwdElement builds one well-formed forwarded-element and returns its host value ("" = none).
func fwdElement(rng *rand.Rand) (string, string, bool) {
	hosts := []string{"fwd.example", "Fwd-Case.Example", "fwd.example:8443", "[2001:db8::5]:443", "10.0.0.7", "a-b.c_d.example", "xn--80ak6aa92e.example"}
	var parts []string
	host, has := "", false
	n := 1 + rng.Intn(4)
	for i := 0; i < n; i++ {
		switch rng.Intn(5) {
		case 0:
			parts = append(parts, "for=192.0.2."+fmt.Sprint(rng.Intn(255)))
		case 1:
			parts = append(parts, "proto="+[]string{"http", "https", "ftp"}[rng.Intn(3)])
		case 2:
			parts = append(parts, "by=203.0.113.43")
		case 3:
			parts = append(parts, `for="[2001:db8:cafe::17]:4711"`)
		default:
			if has {
				continue
			}
			h := hosts[rng.Intn(len(hosts))]
			name := []string{"host", "host", "Host", "HOST", "hOsT"}[rng.Intn(5)]
			if strings.ContainsAny(h, "[]:") || rng.Intn(3) == 0 {
				parts = append(parts, name+`="`+h+`"`)
			} else {
				parts = append(parts, name+"="+h)
			}
			host, has = h, true
		}
	}
	if len(parts) == 0 {
		parts = []string{"for=unknown"}
	}
	return strings.Join(parts, ";"), host, has
}

// c19Concurrent: many requests with different hosts derive their issuer at the same time from ONE issuer function (and
// one provider): each gets the issuer of its own host.
func c19Concurrent(r *core.Run, idx int, rng *rand.Rand) {
	const wl = "derived_issuers_concurrently"
	insecure := idx%3 == 0
	path := []string{"", "/saml", "saml/v2", "/x/y/"}[rng.Intn(4)]
	fwd := idx%2 == 1
	factory := provider.IssuerFromHost(path)
	if fwd {
		factory = provider.IssuerFromForwardedOrHost(path)
	}
	issuerOf, err := factory(insecure)
	if err != nil {
		panic(err)
	}
	scheme := "https://"
	if insecure {
		scheme = "http://"
	}
	wantPath := path
	if wantPath != "" && !strings.HasPrefix(wantPath, "/") {
		wantPath = "/" + wantPath
	}
	o := env.Opts{HostPath: path, Insecure: insecure, UseFwd: fwd}
	if idx%4 >= 2 {
		// signed metadata: a document stays in the making for the length of a key lookup and a signature
		o.MetaSigAlg = spsim.AlgRSASHA256
	}
	e, err := env.New(o)
	if err != nil {
		panic(err)
	}
	e.W.NoLog = true
	e.W.Delay = func(op string) {
		if op == "GetMetadataSigningKey" {
			time.Sleep(2 * time.Millisecond)
		}
	}
	var wg sync.WaitGroup
	var mu sync.Mutex
	var firstBad string
	var checked atomic.Int64
	for g := 0; g < 8; g++ {
		wg.Add(1)
		go func(g int) {
			defer wg.Done()
			host := fmt.Sprintf("tenant-%02d%s.idp.example", g, strings.Repeat("x", g*3))
			if g%3 == 2 {
				host += ":8443"
			}
			want := scheme + host + wantPath
			rq := &http.Request{Host: host, Header: http.Header{}, URL: &url.URL{Path: "/other", Scheme: "ftp"}}
			if fwd {
				rq.Host = "lb.internal"
				rq.Header.Set("Forwarded", "for=192.0.2.1;host=\""+host+"\"")
			}
			for k := 0; k < 4000; k++ {
				got := issuerOf(rq)
				checked.Add(1)
				if foldHost(got) != foldHost(want) {
					mu.Lock()
					if firstBad == "" {
						firstBad = fmt.Sprintf("a request for host %s got the issuer %q (expected %q) while requests for other hosts were served", host, got, want)
					}
					mu.Unlock()
					return
				}
				if k%400 == 0 {
					mv := fetchMeta(e, env.PathMetadata, rq.Host, rq.Header)
					if wantE := strings.TrimSuffix(want, "/") + "/metadata"; mv.Err == "" && foldHost(mv.EntityID) != foldHost(wantE) {
						mu.Lock()
						if firstBad == "" {
							firstBad = fmt.Sprintf("the metadata served for host %s has entityID %q (expected %q)", host, mv.EntityID, wantE)
						}
						mu.Unlock()
						return
					}
					// every location of the document is below the issuer of its own host
					if mv.Err == "" {
						for _, ep := range append(append(append([]endpoint{}, mv.SSO...), mv.SLO...), mv.Attr...) {
							if !strings.HasPrefix(foldHost(ep.Location), foldHost(strings.TrimSuffix(want, "/")+"/")) {
								mu.Lock()
								if firstBad == "" {
									firstBad = fmt.Sprintf("the metadata served for host %s advertises the location %q, which is not below its issuer %q (other hosts were served meanwhile)", host, ep.Location, want)
								}
								mu.Unlock()
								return
							}
						}
					}
				}
			}
		}(g)
	}
	wg.Wait()
	r.Eval(fmt.Sprintf("concurrent|%d", idx))
	r.Count("issuers_derived_concurrently", checked.Load())
	if firstBad != "" {
		r.Violate(core.Violation{Clause: "derived_issuer", Class: fmt.Sprintf("concurrent|forwarded=%v|insecure=%v|path=%q", fwd, insecure, path), Reason: firstBad, Workload: wl, Index: idx})
	}
}

func c19Derived(r *core.Run, idx int, rng *rand.Rand) {
	const wl = "derived_issuers"
	insecure := rng.Intn(3) == 0
	path := []string{"", "/", "/saml", "saml", "a/b", "/x/y/", "/with%20esc"}[rng.Intn(7)]
	mode := []string{"host", "forwarded", "custom_headers", "empty_header_list"}[rng.Intn(4)]
	o := env.Opts{HostPath: path, Insecure: insecure}
	var headers []string
	switch mode {
	case "forwarded":
		o.UseFwd = true
		headers = []string{"Forwarded"}
	case "empty_header_list":
		// forwarding headers "configured" as an empty list: none is configured, the request Host decides
		o.UseFwd = true
		o.FwdHeaders = []string{}
	case "custom_headers":
		o.UseFwd = true
		headers = [][]string{{"X-Original-Forwarded", "Forwarded"}, {"x-custom-fwd"}, {"Forwarded", "X-Second"}, {"X-First", "x-second", "FORWARDED"}}[rng.Intn(4)]
		o.FwdHeaders = headers
	}
	e, err := env.New(o)
	if err != nil {
		r.Inconclusive(fmt.Sprintf("derived issuer configuration rejected: path %q: %v", path, err))
		return
	}
	scheme := "https://"
	if insecure {
		scheme = "http://"
	}
	wantPath := path
	if wantPath != "" && !strings.HasPrefix(wantPath, "/") {
		wantPath = "/" + wantPath
	}
	for k := 0; k < 12; k++ {
		reqHost := []string{"req.example", "Req.Example:8080", "[::1]:80", "192.0.2.9", "localhost"}[rng.Intn(5)]
		hdr := map[string][]string{}
		wellFormed := true
		expected, found := "", false
		// a malformed header in which the word host occurs may or may not be taken to carry one; a malformed header
		// that names no host at all carries none under any reading, and takes none away from the other headers
		ambiguous := false
		var allValues []string
		// headers the provider does not look at must never matter
		if rng.Intn(2) == 0 {
			hdr["X-Forwarded-Host"] = []string{"evil-xfh.example"}
			hdr["X-Forwarded-Proto"] = []string{"http"}
			hdr["X-Forwarded-For"] = []string{"198.51.100.1"}
		}
		if (mode == "host" || mode == "empty_header_list") && rng.Intn(2) == 0 {
			hdr["Forwarded"] = []string{"host=evil-fwd.example;proto=http"}
		}
		for _, h := range headers {
			if rng.Intn(3) == 0 {
				continue
			}
			var lines []string
			malformedHere, hostHere := false, false
			hostless := rng.Intn(3) == 0 // a header that names no host at all
			for l := 1 + rng.Intn(2); l > 0; l-- {
				var els []string
				for n := 1 + rng.Intn(3); n > 0; n-- {
					if rng.Intn(6) == 0 {
						wellFormed, malformedHere = false, true
						bad := []string{"host", "host=", "=x", "host=\"unterminated", ";;;", "host=a b", "host=a,b=;", "\"", "host=\"a\"b", "for=1;;host=late.example", " host = spaced.example ", "for", "for=\"unterminated", "by=a b", "proto"}
						el := bad[rng.Intn(len(bad))]
						if hostless {
							el = []string{"=x", ";;;", "\"", "for", "for=\"unterminated", "by=a b", "proto"}[rng.Intn(7)]
						}
						hostHere = hostHere || strings.Contains(strings.ToLower(el), "host")
						els = append(els, el)
						continue
					}
					el, hv, has := fwdElement(rng)
					for hostless && has {
						el, hv, has = fwdElement(rng)
					}
					els = append(els, el)
					hostHere = hostHere || has
					if has && !found {
						expected, found = hv, true
					}
				}
				line := strings.Join(els, []string{",", ", ", " ,"}[rng.Intn(3)])
				if rng.Intn(4) == 0 {
					// an empty forwarded-pair at the end of the field line (RFC 7239: [pair] *(";" [pair])): it carries no
					// host and takes none away from the lines and headers around it
					line += []string{";", "; ", " ;"}[rng.Intn(3)]
					r.Count("field_lines_ending_in_a_semicolon", 1)
				}
				lines = append(lines, line)
			}
			hdr[h] = lines
			allValues = append(allValues, lines...)
			if malformedHere && hostHere {
				ambiguous = true
			}
			if malformedHere && !hostHere {
				r.Count("malformed_headers_that_name_no_host", 1)
			}
		}
		if !found {
			expected = reqHost
		}
		// the request itself carries a scheme / path that must be ignored
		mv := fetchMeta(e, env.PathMetadata, reqHost, hdr)
		class := fmt.Sprintf("%s|insecure=%v|path=%q|wellformed=%v", mode, insecure, path, wellFormed)
		if !wellFormed && !ambiguous {
			class += "|malformed_headers_name_no_host"
		}
		desc := map[string]any{"mode": mode, "configured_headers": headers, "request_host": reqHost, "headers": hdr, "path": path, "insecure": insecure}
		r.Eval(class + core.Hex(fmt.Sprint(hdr, reqHost)))
		r.Count("header_sets", 1)
		viol := func(clause, reason string) {
			r.Violate(core.Violation{Clause: clause, Class: class, Reason: reason, Workload: wl, Index: idx, Case: desc, Observed: mv.Call.Describe()})
		}
		if mv.Err != "" {
			viol("metadata_unavailable", mv.Err)
			continue
		}
		if wellFormed || !ambiguous {
			want := scheme + expected + wantPath
			wantEntity := strings.TrimSuffix(want, "/") + "/metadata"
			if foldHost(mv.EntityID) != foldHost(wantEntity) { // how the host's letters are cased is not judged
				viol("derived_issuer", fmt.Sprintf("entityID %q, expected %q (first forwarded host / request host)", mv.EntityID, wantEntity))
			}
			for _, ep := range append(append(append([]endpoint{}, mv.SSO...), mv.SLO...), mv.Attr...) {
				if !strings.HasPrefix(foldHost(ep.Location), foldHost(strings.TrimSuffix(want, "/")+"/")) {
					viol("derived_endpoint", fmt.Sprintf("Location %q does not start with the derived issuer %q", ep.Location, want))
				}
			}
			r.Count("wellformed_header_sets_checked", 1)
			if found {
				r.Count("forwarded_host_used", 1)
			}
		} else {
			// weaker, sound clause: scheme fixed, path fixed, host is the request host or part of a forwarding header value
			if !strings.HasPrefix(mv.EntityID, scheme) || !strings.HasSuffix(mv.EntityID, strings.TrimSuffix(wantPath, "/")+"/metadata") {
				viol("derived_issuer_shape", fmt.Sprintf("entityID %q does not have the form %s<host>%s/metadata", mv.EntityID, scheme, wantPath))
				continue
			}
			host := strings.TrimSuffix(strings.TrimPrefix(mv.EntityID, scheme), strings.TrimSuffix(wantPath, "/")+"/metadata")
			ok := strings.EqualFold(host, reqHost) // how the letters of the host are cased is not judged
			for _, v := range allValues {
				if host != "" && strings.Contains(strings.ToLower(v), strings.ToLower(host)) {
					ok = true
				}
			}
			if !ok {
				viol("derived_host_origin", fmt.Sprintf("host part %q is neither the request host %q nor part of a configured forwarding header", host, reqHost))
			}
			r.Count("malformed_header_sets_checked", 1)
		}
		if strings.Contains(mv.EntityID, "evil-") {
			viol("unconfigured_header_used", "entityID "+mv.EntityID+" was taken from a header the provider is not configured to read")
		}
		if idx < 2 && k < 2 {
			r.Sample("header_set", map[string]any{"headers": hdr, "request_host": reqHost, "entityID": mv.EntityID})
		}
	}
}

// c19SharedFactory builds several providers from ONE issuer factory value with different
// insecure flags / and checks that each keeps its own scheme and path.
func c19SharedFactory(r *core.Run, idx int, rng *rand.Rand) {
	const wl = "shared_factory"
	path := []string{"", "/saml", "x/y"}[rng.Intn(3)]
	var f func(bool) (provider.IssuerFromRequest, error)
	kind := rng.Intn(3)
	switch kind {
	case 0:
		f = provider.IssuerFromHost(path)
	case 1:
		f = provider.IssuerFromForwardedOrHost(path)
	default:
		f = provider.IssuerFromForwardedOrHost(path, provider.WithIssuerFromCustomHeaders("forwarded", "x-fwd"))
	}
	wantPath := path
	if wantPath != "" && !strings.HasPrefix(wantPath, "/") {
		wantPath = "/" + wantPath
	}
	n := 2 + rng.Intn(3)
	envs := make([]*env.Env, n)
	insecure := make([]bool, n)
	for i := range envs {
		insecure[i] = rng.Intn(2) == 0
		if i == 1 {
			insecure[i] = !insecure[0]
		}
		e, err := env.New(env.Opts{IssuerFactory: f, Insecure: insecure[i]})
		if err != nil {
			r.Inconclusive("shared factory: provider construction failed: " + err.Error())
			return
		}
		envs[i] = e
	}
	// query them in random order, several times
	for k := 0; k < 3*n; k++ {
		i := rng.Intn(n)
		host := fmt.Sprintf("p%d.idp.example", rng.Intn(3))
		hdr := map[string][]string(nil)
		reqHost := host
		if kind > 0 && rng.Intn(2) == 0 {
			reqHost, hdr = "lb.internal", map[string][]string{"Forwarded": {"host=" + host}}
		}
		mv := fetchMeta(envs[i], env.PathMetadata, reqHost, hdr)
		scheme := "https://"
		if insecure[i] {
			scheme = "http://"
		}
		want := strings.TrimSuffix(scheme+host+wantPath, "/") + "/metadata"
		r.Eval(fmt.Sprintf("shared_factory|%d|%d|%d", idx, k, kind))
		r.Count("shared_factory_probes", 1)
		if mv.Err != "" {
			r.Violate(core.Violation{Clause: "metadata_unavailable", Class: "shared_factory", Reason: mv.Err, Workload: wl, Index: idx})
			return
		}
		if foldHost(mv.EntityID) != foldHost(want) {
			r.Violate(core.Violation{Clause: "derived_issuer_shared_state", Class: fmt.Sprintf("shared_factory|kind=%d", kind), Reason: fmt.Sprintf("provider %d (insecure=%v) built from a shared factory value serves entityID %q, expected %q; flags of the %d providers: %v", i, insecure[i], mv.EntityID, want, n, insecure), Workload: wl, Index: idx, Case: map[string]any{"path": path, "insecure_flags": insecure, "request_host": reqHost, "headers": hdr}, Observed: mv.Call.Describe()})
			return
		}
	}
}

func init() {
	register(&Prop{
		ID: "C19", Level: "exploration", DeathIsViolation: true,
		TimeoutQuick: 5 * time.Minute, TimeoutThorough: 30 * time.Minute,
		Build: func(c *Ctx) []core.Workload {
			r := c.Run
			r.Rule = "(static) issuer strings (schemes in any case, userinfo, ports, IPv6 literals, empty hosts, opaque and malformed URLs, control characters, query / fragment variants) x insecure {on, off} are offered to ValidateIssuer and to NewProvider(StaticIssuer); every accepted string must, under an RFC 3986 appendix-B splitter, have scheme https (http only in insecure mode), a non-empty host, no non-empty query and no non-empty fragment (rejecting more is never reported). (derived) for generated Host / Forwarded / custom header sets (several headers, lines, elements, quoted hosts, malformed syntax, decoy X-Forwarded-* headers) the entityID and every endpoint URL of the served metadata must be scheme + expected host + configured path, the expected host being known by construction for well-formed headers; for malformed headers the host must be the request host or a substring of a configured header; several providers built from ONE issuer factory value with different insecure flags must each keep their own scheme. Distinct = inputs by hash."
			r.Require("issuer_strings", int64(c.Pick(4000, 50000)))
			r.Require("issuers_accepted", 200)
			r.Require("issuers_rejected", 1000)
			r.Require("wellformed_header_sets_checked", int64(c.Pick(1000, 10000)))
			r.Require("forwarded_host_used", 200)
			r.Require("malformed_header_sets_checked", 100)
			r.Require("shared_factory_probes", 500)
			r.Require("issuers_derived_concurrently", 100000)
			return []core.Workload{
				{Name: "static_issuers", N: c.Pick(100, 1250), Fn: c19Static},
				{Name: "derived_issuers", N: c.Pick(200, 2000), Fn: c19Derived},
				{Name: "shared_factory", N: c.Pick(100, 1000), Fn: c19SharedFactory},
				{Name: "derived_issuers_concurrently", N: c.Pick(12, 120), Fn: c19Concurrent},
			}
		},
	})
}
