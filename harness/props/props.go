// Package props holds one workload + monitor per property.
package props

import (
	"os"
	"path/filepath"
	"regexp"
	"strings"
	"time"

	"verif/harness/core"
)

// Ctx is what a property's builder gets.
type Ctx struct {
	Run      *core.Run
	WorkDir  string
	Tier     string
	Seed     int64
	Thorough bool
}

// Pick returns q for the quick tier and t for the thorough tier.
func (c *Ctx) Pick(q, t int) int {
	if c.Thorough {
		return t
	}
	return q
}

// Prop is a registered property check.
type Prop struct {
	ID               string
	Level            string
	Race             bool // run the child from the -race binary and collect reports
	DeathIsViolation bool // a process-fatal event in the child refutes the property
	TimeoutQuick     time.Duration
	TimeoutThorough  time.Duration
	Build            func(c *Ctx) []core.Workload
	After            func(c *Ctx)
}

var Registry = map[string]*Prop{}

func register(p *Prop) { Registry[p.ID] = p }

var raceHdr = regexp.MustCompile(`(?m)^WARNING: DATA RACE`)

// CollectRaceReports reads the race detector's log of this process, deduplicates
// the reports by their outermost repo frames and records each as a violation.
func CollectRaceReports(c *Ctx) {
	files, _ := filepath.Glob(filepath.Join(c.WorkDir, "racelog*"))
	total := 0
	seen := map[string]bool{}
	for _, f := range files {
		b, err := os.ReadFile(f)
		if err != nil {
			continue
		}
		blocks := strings.Split(string(b), "==================")
		for _, blk := range blocks {
			if !raceHdr.MatchString(blk) {
				continue
			}
			total++
			var frames []string
			for _, l := range strings.Split(blk, "\n") {
				l = strings.TrimSpace(l)
				if strings.HasPrefix(l, "github.com/zitadel/saml/") || strings.HasPrefix(l, "verif/harness/") {
					if i := strings.IndexByte(l, '('); i > 0 {
						l = l[:i]
					}
					frames = append(frames, l)
				}
			}
			key := strings.Join(frames, " <- ")
			if seen[key] {
				continue
			}
			seen[key] = true
			inRepo := strings.Contains(key, "github.com/zitadel/saml/")
			if !inRepo {
				// a race confined to the harness itself is a harness defect, not a violation
				c.Run.Inconclusive("race report without repo frames (harness defect?): " + key)
				continue
			}
			c.Run.Violate(core.Violation{Clause: "race_detector", Class: "data_race", Reason: "DATA RACE " + clipS(key, 300),
				Workload: "race", Index: 0, Detail: clipS(blk, 3500)})
		}
	}
	c.Run.Count("race_reports_total", int64(total))
	c.Run.Count("race_reports_distinct", int64(len(seen)))
	c.Run.Count("race_log_files", int64(len(files)))
}

// RaceReportKeys returns the deduplicated keys (repo frames) of the race reports found in a work directory; used by
// the parent process when the child did not live to report them itself.
func RaceReportKeys(workdir string) []string {
	files, _ := filepath.Glob(filepath.Join(workdir, "racelog*"))
	seen := map[string]bool{}
	var out []string
	for _, f := range files {
		b, err := os.ReadFile(f)
		if err != nil {
			continue
		}
		for _, blk := range strings.Split(string(b), "==================") {
			if !raceHdr.MatchString(blk) {
				continue
			}
			var frames []string
			for _, l := range strings.Split(blk, "\n") {
				l = strings.TrimSpace(l)
				if strings.HasPrefix(l, "github.com/zitadel/saml/") {
					if i := strings.IndexByte(l, '('); i > 0 {
						l = l[:i]
					}
					frames = append(frames, l)
				}
			}
			key := clipS(strings.Join(frames, " <- "), 300)
			if len(frames) == 0 || seen[key] {
				continue
			}
			seen[key] = true
			out = append(out, key)
			if len(out) == 20 {
				return out
			}
		}
	}
	return out
}

func clipS(s string, n int) string {
	if len(s) > n {
		return s[:n] + "…"
	}
	return s
}
