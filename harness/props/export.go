package props

// Exported aliases of helpers used by the helper binaries (c18b).
var (
	AnyString      = anyString
	ReplaceIllegal = replaceIllegal
	PySkeleton     = pySkeleton
	DiffAt         = diffAt
	ClipS          = clipS
	EqualStrings   = equalStrings
)

const BasicFormat = basicFormat
