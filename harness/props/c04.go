package props

import (
	"bytes"
	"context"
	"fmt"
	"math/rand"
	"net/url"
	"runtime"
	"strings"
	"sync"
	"sync/atomic"
	"time"

	"github.com/zitadel/saml/pkg/provider"
	"github.com/zitadel/saml/pkg/provider/key"

	"verif/harness/core"
	"verif/harness/env"
	"verif/harness/keys"
	"verif/harness/reply"
	"verif/harness/sim"
	"verif/harness/spsim"
	"verif/harness/verify"
)

// C04 — every signature the IdP emits verifies under a conformant verifier.

// c14nClass labels a case by whether any string inside the signed element needs
// escaping in canonical XML (text: & < > CR; attribute values: & < " TAB LF CR).
func c14nClass(texts, attrs []string) string {
	for _, t := range texts {
		if hasC14NSpecial(t, false) {
			return "c14n_special"
		}
	}
	for _, a := range attrs {
		if hasC14NSpecial(a, true) {
			return "c14n_special"
		}
	}
	return "c14n_plain"
}

func userSignedStrings(sc *cbScenario) (texts, attrs []string) {
	u := sc.U
	texts = append(texts, u.Username, u.Email, u.FullName, u.GivenName, u.Surname, u.UserID, sc.Audience)
	for _, c := range u.Custom {
		texts = append(texts, c.Values...)
		attrs = append(attrs, c.Name, c.Friendly, c.Format)
	}
	if sc.S != nil {
		attrs = append(attrs, sc.S.AuthRequestID, sc.S.ACS)
	}
	return
}

func c04Callback(r *core.Run, idx int, rng *rand.Rand) {
	const wl = "callback_signatures"
	canary := fmt.Sprintf("MK%dx", idx)
	sc := randScenario(rng, canary, idx%5 < 3)
	switch rng.Intn(10) {
	case 0:
		sc.S.ACS = ""
	case 1:
		sc.S.ACS = "https://" + strings.ToLower(canary) + ".sp.example/acs?tenant=" + plainString(rng, 3)
	case 2:
		sc.S.ACS = "https://" + strings.ToLower(canary) + ".sp.example/acs?a=1&b=2"
	}
	if idx%13 == 5 {
		// a stored request whose binding is none the callback can deliver through: however the reply travels, a Success
		// assertion in it is signed
		sc.S.Binding = undeliverableBindings[rng.Intn(len(undeliverableBindings))]
		r.Count("stored_bindings_that_cannot_be_delivered_through", 1)
	}
	// in some cases signing cannot succeed: then no Success may leave the IdP (certainly not an unsigned one)
	sigfail := ""
	if idx%9 == 4 {
		sigfail = []string{"alg_empty", "alg_unknown", "alg_md5", "key_mismatch"}[rng.Intn(4)]
		switch sigfail {
		case "alg_empty":
			sc.Opts.SigAlg, sc.Opts.NoSigAlg = "", true
		case "alg_unknown":
			sc.Opts.SigAlg, sc.Opts.NoSigAlg = "urn:unknown:algorithm", true
		case "alg_md5":
			sc.Opts.SigAlg, sc.Opts.NoSigAlg = "http://www.w3.org/2001/04/xmldsig-more#rsa-md5", true
		}
	}
	if idx%11 == 7 {
		// a user with several kilobytes of poorly compressible data: the message no longer fits into a short URL
		n := 150 + rng.Intn(500)
		vals := make([]string, n)
		for i := range vals {
			vals[i] = "U_" + strings.ToUpper(canary) + "g" + randHex(rng, 16)
		}
		sc.U.Custom = append(sc.U.Custom, sim.Custom{Name: "groups", Format: basicFormat, Values: vals})
		r.Count("bulky_user_records", 1)
	}
	e := sc.build()
	// the certificate the IdP publishes: metadata KeyDescriptor == certificate endpoint
	mpath, cpath := env.PathMetadata, env.PathCert
	mv := fetchMeta(e, mpath, sc.Host, nil)
	texts, attrs := userSignedStrings(sc)
	bind := sc.S.Binding[strings.LastIndex(sc.S.Binding, ":")+1:]
	c14n := c14nClass(texts, attrs)
	if bind == "HTTP-Redirect" && sc.S.ACS != "" {
		c14n = "query_signature"
	}
	class := fmt.Sprintf("callback,%s,%s,alg=%s,acs_empty=%v,acs_query=%v", bind, c14n, sc.Opts.SigAlg[strings.LastIndexAny(sc.Opts.SigAlg, "#")+1:], sc.S.ACS == "", strings.Contains(sc.S.ACS, "?"))
	desc := map[string]any{"stored_request": sc.S, "user": sc.U, "audience": sc.Audience, "host": sc.Host, "sig_alg": sc.Opts.SigAlg}
	viol := func(call *env.Call, clause, reason string) {
		v := core.Violation{Clause: clause, Class: class, Reason: reason, Workload: wl, Index: idx, Case: desc}
		if call != nil {
			v.Observed = call.Describe()
		}
		r.Violate(v)
	}
	r.Eval(class + fmt.Sprint(len(sc.U.Custom)))
	if mv.Err != "" || mv.Cert == nil {
		viol(mv.Call, "published_certificate", "metadata does not publish a usable signing certificate: "+mv.Err)
		return
	}
	pc, perr := fetchCertPEM(e, cpath, sc.Host, nil)
	if pc == nil {
		viol(nil, "published_certificate", "certificate endpoint: "+perr)
		return
	}
	if !bytes.Equal(pc.Raw, mv.Cert.Raw) {
		viol(mv.Call, "published_certificate", "metadata KeyDescriptor and certificate endpoint publish different certificates")
		return
	}
	if sigfail == "key_mismatch" {
		e.W.RespKey = &key.CertificateAndKey{Certificate: e.W.RespKey.Certificate, Key: keys.Get("idp_meta").RSA}
	}
	call := sc.callback(e)
	if call.Panic != "" {
		viol(call, "panic", call.Panic)
		return
	}
	if sigfail != "" {
		r.Count("signing_failure_cases", 1)
		class += ",sigfail=" + sigfail
		if call.D.Success() {
			fails, _, _ := verifyEmitted(call.D, mv.Cert)
			for _, f := range fails {
				viol(call, "success_after_signing_failure/"+f.Clause, f.Reason)
			}
			if len(fails) == 0 {
				viol(call, "success_after_signing_failure", "a verifying Success although signing cannot have succeeded ("+sigfail+") - harness expectation wrong?")
			}
		}
		return
	}
	if !call.D.Success() {
		r.Count("not_success", 1)
		if call.D.Kind == "redirect" && call.D.Status == 302 && call.D.Msg == nil {
			viol(call, "redirect_reply_unparseable", "the Location sent carries no recoverable SAMLResponse parameter (RFC 3986 query split): "+clipS(call.D.Location, 300)+" "+call.D.Err)
		}
		return
	}
	r.Count("success_replies", 1)
	fails, kind, oerr := verifyEmitted(call.D, mv.Cert)
	if oerr != nil {
		r.Inconclusive("python oracle unavailable: " + oerr.Error())
		return
	}
	r.Count("verified_"+kind, 1)
	r.Count("class_"+c14n, 1)
	for _, f := range fails {
		viol(call, f.Clause, f.Reason)
	}
	if len(fails) == 0 {
		r.Count("signatures_accepted_by_all_verifiers", 1)
		if idx < 4 {
			r.Sample("verified", map[string]any{"class": class, "kind": kind, "location": clipS(call.D.Location, 400), "message": clipS(string(call.D.XML), 1200)})
		}
	}
}

func c04Query(r *core.Run, idx int, rng *rand.Rand) {
	const wl = "attribute_query_signatures"
	canary := fmt.Sprintf("MQ%dx", idx)
	sc := randScenario(rng, canary, idx%5 < 3)
	sc.S = nil
	sc.Host = ""
	sc.Opts.HostPath = ""
	e := sc.build()
	d := stdSP(rng.Intn(4))
	if idx%5 < 3 && rng.Intn(2) == 0 {
		d.EntityID += "?x=1&y=" + legalXMLString(rng, 2)
	}
	mustRegister(e.W, d, "app1")
	q := conformantQuery(rng, d, sc.U.Username)
	q.Attrs = nil
	q.Destination = ""
	call := e.Do(env.Req{Method: "POST", Path: env.PathAttr, Body: q.XML(rng), CT: "text/xml"})
	sc.Audience = d.EntityID
	texts, attrs := userSignedStrings(sc)
	attrs = append(attrs, q.ID)
	c14n := c14nClass(texts, attrs)
	class := fmt.Sprintf("attribute_query,%s,alg=%s", c14n, sc.Opts.SigAlg[strings.LastIndexAny(sc.Opts.SigAlg, "#")+1:])
	desc := map[string]any{"user": sc.U, "requester": d.EntityID, "sig_alg": sc.Opts.SigAlg}
	viol := func(clause, reason string) {
		r.Violate(core.Violation{Clause: clause, Class: class, Reason: reason, Workload: wl, Index: idx, Case: desc, Observed: call.Describe()})
	}
	r.Eval(class + fmt.Sprint(len(sc.U.Custom)))
	if call.Panic != "" {
		viol("panic", call.Panic)
		return
	}
	if !call.D.Success() {
		r.Count("query_not_success", 1)
		return
	}
	r.Count("query_success_replies", 1)
	fails, kind, oerr := verifyEmitted(call.D, respCert())
	if oerr != nil {
		r.Inconclusive("python oracle unavailable: " + oerr.Error())
		return
	}
	r.Count("verified_query_"+kind, 1)
	r.Count("class_"+c14n, 1)
	for _, f := range fails {
		viol(f.Clause, f.Reason)
	}
	if len(fails) == 0 {
		r.Count("signatures_accepted_by_all_verifiers", 1)
	}
}

// c04EndToEnd covers "every record the SSO endpoint itself persisted": service providers with any consumer-binding mix
// (also bindings written with white space around them, in other case, unknown ones) send an AuthnRequest; whatever the
// SSO endpoint persists is completed and called back, and a Success that leaves the IdP must verify.
func c04EndToEnd(r *core.Run, idx int, rng *rand.Rand) {
	const wl = "records_persisted_by_sso"
	c := conformantSSO(rng)
	c.Host = ""
	c.Signed = false
	c.SPD.AuthnRequestsSigned, c.Want = "", ""
	c.SPD.ACS = randACS(rng, "spx.example", c08Bindings, 4)
	if len(c.SPD.ACS) == 0 {
		c.SPD.ACS = []spsim.ACS{{Binding: c08Bindings[rng.Intn(len(c08Bindings))], Location: "https://spx.example/acs/only", Index: "0"}}
	}
	if rng.Intn(3) == 0 {
		c.Req.ProtocolBinding = c08Bindings[rng.Intn(len(c08Bindings))]
	}
	u := randUser(rng, fmt.Sprintf("U_MK%dx", idx), idx%3 == 0)
	e, call := c.run(rng, func(e *env.Env) {
		e.W.AddUser(u)
		e.W.UserFor = func(reqID, appID string) string { return u.UserID }
	})
	var bl []string
	for _, a := range c.SPD.ACS {
		bl = append(bl, fmt.Sprintf("%q", a.Binding))
	}
	class := "sso_then_callback|bindings=" + strings.Join(bl, ",")
	desc := map[string]any{"consumer_services": c.SPD.ACS, "requested_binding": c.Req.ProtocolBinding}
	r.Eval(class)
	if call.Panic != "" {
		r.Violate(core.Violation{Clause: "panic", Class: class, Reason: call.Panic, Workload: wl, Index: idx, Case: desc, Observed: call.Describe()})
		return
	}
	ev := call.First("CreateAuthRequest")
	if ev == nil || ev.Err {
		r.Count("sso_requests_not_persisted", 1)
		return
	}
	r.Count("records_persisted_by_sso", 1)
	rec := e.W.Request(ev.Res)
	if rec == nil {
		return
	}
	rec.SetDone(true)
	mv := fetchMeta(e, env.PathMetadata, "", nil)
	cb := e.Do(env.Req{Path: env.PathLogin, Query: "id=" + url.QueryEscape(ev.Res)})
	desc["persisted"] = map[string]any{"acs": rec.ACS, "binding": rec.Binding}
	if cb.Panic != "" {
		r.Violate(core.Violation{Clause: "panic", Class: class, Reason: cb.Panic, Workload: wl, Index: idx, Case: desc, Observed: cb.Describe()})
		return
	}
	for i, m := range reply.AllMessages(cb.Rec) {
		if !m.Success() {
			continue
		}
		r.Count("success_replies_for_persisted_records", 1)
		if mv.Cert == nil {
			r.Violate(core.Violation{Clause: "published_certificate", Class: class, Reason: "metadata does not publish a usable signing certificate: " + mv.Err, Workload: wl, Index: idx, Case: desc, Observed: cb.Describe()})
			return
		}
		fails, _, oerr := verifyEmitted(m, mv.Cert)
		if oerr != nil {
			r.Inconclusive("python oracle unavailable: " + oerr.Error())
			return
		}
		for _, f := range fails {
			r.Violate(core.Violation{Clause: f.Clause, Class: class, Reason: fmt.Sprintf("message %d of the callback reply for the record the SSO endpoint persisted (%q, %q): %s", i+1, rec.ACS, rec.Binding, f.Reason), Workload: wl, Index: idx, Case: desc, Observed: cb.Describe()})
		}
		if len(fails) == 0 {
			r.Count("signatures_accepted_by_all_verifiers", 1)
		}
	}
}

// c04ConcurrentQueries: several answers about ONE user are produced at the same time (attribute queries with and
// without AttributeValue designators, callbacks), over a slow connection; every one of them must verify, and the
// storage's record of the user must be what it was.
func c04ConcurrentQueries(r *core.Run, idx int, rng *rand.Rand) {
	const wl = "answers_in_flight_together"
	e := env.Static(env.Opts{SigAlg: []string{spsim.AlgRSASHA1, spsim.AlgRSASHA256}[rng.Intn(2)]})
	d := stdSP(0)
	mustRegister(e.W, d, "app1")
	u := randUser(rng, fmt.Sprintf("U_MK%dx", idx), false)
	u.Custom = append(u.Custom, sim.Custom{Name: "roles", Format: basicFormat, Values: []string{"admin" + randHex(rng, 2), "auditor", "user" + randHex(rng, 2), "ops"}})
	e.W.AddUser(u)
	e.W.UserFor = func(reqID, appID string) string { return u.UserID }
	var dctr atomic.Int64
	e.W.Delay = func(op string) {
		if n := dctr.Add(1); n%3 == 0 {
			time.Sleep(time.Duration(50+n%300) * time.Microsecond)
		} else {
			runtime.Gosched()
		}
	}
	type res struct {
		call *env.Call
		what string
	}
	var mu sync.Mutex
	var results []res
	var wg sync.WaitGroup
	for g := 0; g < 6; g++ {
		wg.Add(1)
		seed := rng.Int63()
		go func(g int) {
			defer wg.Done()
			lr := rand.New(rand.NewSource(seed))
			for k := 0; k < 6; k++ {
				q := conformantQuery(lr, d, u.Username)
				q.Destination = ""
				q.Attrs = nil
				what := "query"
				if (g+k)%2 == 0 {
					c := u.Custom[len(u.Custom)-1]
					q.Attrs = []spsim.QAttr{{Name: c.Name, NameFormat: c.Format, Values: []string{c.Values[1+lr.Intn(len(c.Values)-1)]}}}
					what = "query_naming_values"
				}
				onWrite := func() {
					if dctr.Add(1)%2 == 0 {
						time.Sleep(100 * time.Microsecond)
					}
				}
				call := e.Do(env.Req{Method: "POST", Path: env.PathAttr, Body: q.XML(lr), CT: "text/xml", OnWrite: onWrite})
				mu.Lock()
				results = append(results, res{call, what})
				mu.Unlock()
			}
		}(g)
	}
	wg.Wait()
	r.Eval(fmt.Sprintf("in_flight_together|%d", idx))
	for _, x := range results {
		class := "in_flight_together|" + x.what
		if x.call.Panic != "" {
			r.Violate(core.Violation{Clause: "panic", Class: class, Reason: x.call.Panic, Workload: wl, Index: idx, Observed: x.call.Describe()})
			continue
		}
		if !x.call.D.Success() {
			continue
		}
		r.Count("answers_produced_side_by_side", 1)
		fails, _, oerr := verifyEmitted(x.call.D, respCert())
		if oerr != nil {
			r.Inconclusive("python oracle unavailable: " + oerr.Error())
			return
		}
		for _, f := range fails {
			r.Violate(core.Violation{Clause: f.Clause, Class: class, Reason: "an answer produced while other answers about the same user were in flight: " + f.Reason, Workload: wl, Index: idx, Case: map[string]any{"user": u}, Observed: x.call.Describe()})
		}
	}
	if mut := e.W.Mutated(); mut != "" {
		r.Violate(core.Violation{Clause: "storage_record_changed", Class: "in_flight_together", Reason: "signed content is built from data the storage owns, which was written to while answers were produced: " + mut, Workload: wl, Index: idx})
	}
}

func c04Metadata(r *core.Run, idx int, rng *rand.Rand) {
	const wl = "metadata_signatures"
	hostile := idx%5 < 3
	s := func(base string) string {
		if hostile {
			return base + legalXMLString(rng, 3)
		}
		return base + plainString(rng, 4)
	}
	o := env.Opts{MetaSigAlg: []string{spsim.AlgRSASHA1, spsim.AlgRSASHA256}[rng.Intn(2)]}
	var signedTexts, signedAttrs []string
	if rng.Intn(4) > 0 {
		o.Org = &provider.Organisation{Name: s("Org "), DisplayName: s("Display "), URL: s("https://org.example/")}
		signedTexts = append(signedTexts, o.Org.Name, o.Org.DisplayName, o.Org.URL)
	}
	if rng.Intn(4) > 0 {
		o.Contact = &provider.ContactPerson{ContactType: "technical", Company: s("Comp "), GivenName: s("Given "), SurName: s("Sur "), EmailAddress: s("mailto:a@b.example"), TelephoneNumber: s("+41 ")}
		signedTexts = append(signedTexts, o.Contact.Company, o.Contact.GivenName, o.Contact.SurName, o.Contact.EmailAddress, o.Contact.TelephoneNumber)
	}
	if rng.Intn(3) == 0 {
		o.EncAlg = "http://www.w3.org/2001/04/xmlenc#aes256-cbc"
	}
	if rng.Intn(3) == 0 {
		o.MetaIDP = &provider.MetadataIDPConfig{ErrorURL: s("https://idp.example/error?"), CacheDuration: "PT1H"}
		signedAttrs = append(signedAttrs, o.MetaIDP.ErrorURL)
	}
	host := ""
	if rng.Intn(3) == 0 {
		host = "meta.h" + plainString(rng, 3) + ".example"
		o.HostPath = "/saml"
	}
	var e *env.Env
	var err error
	if host != "" {
		e, err = env.New(o)
	} else {
		o.Issuer = env.DefaultIssuer
		e, err = env.New(o)
	}
	if err != nil {
		r.Inconclusive("cannot build provider: " + err.Error())
		return
	}
	c14n := c14nClass(signedTexts, signedAttrs)
	class := fmt.Sprintf("metadata,%s,alg=%s", c14n, o.MetaSigAlg[strings.LastIndexAny(o.MetaSigAlg, "#")+1:])
	if v := []string{"", "true", "1", "yes"}[idx%4]; v != "" {
		// the document is asked for with every name the library's source mentions as a parameter and as a header, all set
		// to a switch-like value: however it is rendered then, what is signed is what is sent
		e.ExtraQuery, e.ExtraHeaders = dictQueryWith(v), dictHeadersWith(v)
		class += ",asked_with_named_parameters=" + v
		r.Count("metadata_documents_asked_for_with_named_parameters", 1)
	}
	mv := fetchMeta(e, env.PathMetadata, host, nil)
	desc := map[string]any{"organisation": o.Org, "contact": o.Contact, "host": host, "sig_alg": o.MetaSigAlg}
	viol := func(clause, reason string) {
		r.Violate(core.Violation{Clause: clause, Class: class, Reason: reason, Workload: wl, Index: idx, Case: desc, Observed: mv.Call.Describe()})
	}
	r.Eval(class + fmt.Sprint(o.Org != nil, o.Contact != nil, o.EncAlg != "", host != ""))
	if mv.Err != "" {
		viol("metadata_unavailable", mv.Err)
		return
	}
	if !mv.Signed {
		viol("unsigned_metadata", "metadata signing is configured but the document carries no signature")
		return
	}
	cert := keys.Get("idp_meta").Cert
	e1 := verify.V1(mv.Raw, "EntityDescriptor", cert)
	ok2, why2, oerr := verify.V2(mv.Raw, "EntityDescriptor", cert)
	if oerr != nil {
		r.Inconclusive("python oracle unavailable: " + oerr.Error())
		return
	}
	r.Count("verified_metadata_signature", 1)
	r.Count("class_"+c14n, 1)
	if e1 != nil {
		viol("v1_rejects", e1.Error())
	}
	if !ok2 {
		viol("v2_rejects", why2)
	}
	if (e1 == nil) != ok2 {
		viol("verifiers_disagree", fmt.Sprintf("goxmldsig: %v, python: %v %s", e1, ok2, why2))
	}
	if e1 == nil && ok2 {
		r.Count("signatures_accepted_by_all_verifiers", 1)
	}
}

// c04Rotation: on ONE provider, artefacts are issued, then storage switches to another response signing key,
// then artefacts are issued again: each must verify under the certificate the IdP publishes at that moment.
func c04Rotation(r *core.Run, idx int, rng *rand.Rand) {
	const wl = "key_rotation_sequences"
	e := env.Static(env.Opts{SigAlg: []string{spsim.AlgRSASHA1, spsim.AlgRSASHA256}[rng.Intn(2)]})
	d := stdSP(0)
	mustRegister(e.W, d, "appQ")
	pairs := []string{"idp_resp", "sp2", "sp3", "idp_resp"}
	for phase, name := range pairs {
		kp := keys.Get(name)
		e.W.RespKey = &key.CertificateAndKey{Certificate: kp.CertDER, Key: kp.RSA}
		mv := fetchMeta(e, env.PathMetadata, "", nil)
		class := fmt.Sprintf("rotation,phase=%d,key=%s", phase, name)
		if mv.Err != "" || mv.Cert == nil {
			r.Violate(core.Violation{Clause: "published_certificate", Class: class, Reason: "metadata unavailable after key change: " + mv.Err, Workload: wl, Index: idx})
			return
		}
		for k := 0; k < 3; k++ {
			sc := randScenario(rng, fmt.Sprintf("MK%dp%dk%dx", idx, phase, k), false)
			sc.Host = ""
			sc.S.Binding = []string{spsim.BindPost, spsim.BindPost, spsim.BindRedirect}[k]
			if k == 1 {
				sc.S.ACS = ""
			}
			sc.install(e.W)
			call := sc.callback(e)
			r.Eval(fmt.Sprintf("%s|%d|%d", class, idx, k))
			r.Count("artefacts_after_key_changes", 1)
			if call.Panic != "" {
				r.Violate(core.Violation{Clause: "panic", Class: class, Reason: call.Panic, Workload: wl, Index: idx, Observed: call.Describe()})
				continue
			}
			if !call.D.Success() {
				// nothing signed left the IdP (a provider may refuse, e.g., to answer without a consumer URL)
				r.Count("no_success_after_key_change", 1)
				continue
			}
			r.Count("success_after_key_change", 1)
			fails, _, oerr := verifyEmitted(call.D, mv.Cert)
			if oerr != nil {
				r.Inconclusive("python oracle unavailable: " + oerr.Error())
				return
			}
			for _, f := range fails {
				r.Violate(core.Violation{Clause: "after_key_change/" + f.Clause, Class: class, Reason: "does not verify under the certificate published now (" + name + "): " + f.Reason, Workload: wl, Index: idx, Observed: call.Describe()})
			}
		}
		// attribute query answer
		u := randUser(rng, fmt.Sprintf("U_MK%dp%dx", idx, phase), false)
		e.W.AddUser(u)
		q := conformantQuery(rng, d, u.Username)
		q.Destination = ""
		qc := e.Do(env.Req{Method: "POST", Path: env.PathAttr, Body: q.XML(rng), CT: "text/xml"})
		if qc.D.Success() {
			fails, _, _ := verifyEmitted(qc.D, mv.Cert)
			for _, f := range fails {
				r.Violate(core.Violation{Clause: "after_key_change/query/" + f.Clause, Class: class, Reason: "attribute-query assertion does not verify under the certificate published now: " + f.Reason, Workload: wl, Index: idx, Observed: qc.Describe()})
			}
			r.Count("artefacts_after_key_changes", 1)
		}
	}
}

func init() {
	register(&Prop{
		ID: "C04", Level: "exploration", DeathIsViolation: true,
		TimeoutQuick: 8 * time.Minute, TimeoutThorough: 40 * time.Minute,
		Build: func(c *Ctx) []core.Workload {
			r := c.Run
			r.Rule = "signed artefacts are produced through the real handlers (login callback with POST / Redirect binding incl. empty consumer URL and consumer URLs with a query; attribute-query SOAP responses; signed metadata) with strings over all legal XML characters in every field that reaches signed content, for rsa-sha1 and rsa-sha256; each artefact is verified on its wire bytes by goxmldsig (V1) and by the python verifier (expat + own exclusive C14N + modpow, V2), redirect replies by the harness's HTTP-Redirect procedure on the raw query string; the certificate is the one the metadata KeyDescriptor and the certificate endpoint publish; records the SSO endpoint itself persisted for service providers with any consumer-binding mix are completed and called back; several answers about one user are produced at the same time (queries with and without AttributeValue designators) and the storage's record must stay what it was; on long-lived providers the response signing key is switched several times and every artefact must verify under the certificate published at that moment. Distinct = (artefact kind, binding, character class, algorithm, shape)."
			r.Assume("crypto/rsa, hashlib and expat are trusted; V1 and V2 are trusted jointly (a disagreement is reported)")
			r.Require("verified_enveloped_assertion_signature", 100)
			r.Require("verified_redirect_query_signature", 100)
			r.Require("verified_query_enveloped_assertion_signature", 50)
			r.Require("verified_metadata_signature", 50)
			r.Require("signing_failure_cases", 30)
			r.Require("records_persisted_by_sso", 50)
			r.Require("answers_produced_side_by_side", 200)
			r.Require("artefacts_after_key_changes", 300)
			r.Require("success_after_key_change", 60)
			r.Require("class_c14n_plain", 100)
			r.Require("class_c14n_special", 50)
			return []core.Workload{
				{Name: "callback_histories", N: c.Pick(120, 1200), Fn: cbHistory("C04")},
				{Name: "callback_signatures", N: c.Pick(500, 5000), Fn: c04Callback},
				{Name: "attribute_query_signatures", N: c.Pick(150, 1500), Fn: c04Query},
				{Name: "metadata_signatures", N: c.Pick(150, 1500), Fn: c04Metadata},
				{Name: "metadata_documents_in_flight_together", N: c.Pick(40, 400), Fn: c04MetadataOverlap},
				{Name: "key_rotation_sequences", N: c.Pick(40, 400), Fn: c04Rotation},
				{Name: "records_persisted_by_sso", N: c.Pick(300, 3000), Fn: c04EndToEnd},
				{Name: "answers_in_flight_together", N: c.Pick(20, 200), Fn: c04ConcurrentQueries},
			}
		},
		After: func(c *Ctx) { verify.Py.Close() },
	})
}

// c04MetadataOverlap: signed metadata is asked for under two host names of one provider at the same time; the reply
// for the first host goes to a client that reads slowly (its first write stalls until the second document has been
// sent completely). Both documents verify under the published certificate, and each names its own host only.
func c04MetadataOverlap(r *core.Run, idx int, rng *rand.Rand) {
	const wl = "metadata_documents_in_flight_together"
	o := env.Opts{MetaSigAlg: []string{spsim.AlgRSASHA1, spsim.AlgRSASHA256}[rng.Intn(2)], HostPath: "/saml"}
	// organisation data that is completed from the issuer when parts are left out
	switch idx % 4 {
	case 0:
		o.Org = &provider.Organisation{Name: "Org", DisplayName: "Display"}
	case 1:
		o.Org = &provider.Organisation{Name: "Org", DisplayName: "Display", URL: "/about"}
	case 2:
		o.Org = &provider.Organisation{Name: "Org", DisplayName: "Display", URL: "https://org.example/"}
		o.Contact = &provider.ContactPerson{ContactType: "technical", Company: "Comp"}
	}
	if idx%3 == 0 {
		o.MetaIDP = &provider.MetadataIDPConfig{ErrorURL: "/error", CacheDuration: "PT1H"}
	}
	e, err := env.New(o)
	if err != nil {
		r.Inconclusive("cannot build provider: " + err.Error())
		return
	}
	hostA, hostB := fmt.Sprintf("meta-a%d.example", idx), fmt.Sprintf("meta-b%d.example", idx)
	bDone := make(chan struct{})
	var once sync.Once
	var callA *env.Call
	doneA := make(chan struct{})
	stallAt := []string{"first_write", "signing_key_lookup"}[idx%2]
	if stallAt == "signing_key_lookup" {
		e.W.Before = func(_ context.Context, tag, op string, _ int) {
			if op == "GetMetadataSigningKey" && strings.HasSuffix(tag, "a") {
				once.Do(func() {
					select {
					case <-bDone:
					case <-time.After(2 * time.Second):
					}
				})
			}
		}
	}
	go func() {
		defer close(doneA)
		rq := env.Req{Path: env.PathMetadata, Host: hostA, Tag: fmt.Sprintf("mo%da", idx)}
		if stallAt == "first_write" {
			rq.OnWrite = func() {
				once.Do(func() {
					select {
					case <-bDone:
					case <-time.After(2 * time.Second):
					}
				})
			}
		}
		callA = e.Do(rq)
	}()
	select {
	case <-doneA:
	case <-time.After(15 * time.Millisecond):
	}
	callB := e.Do(env.Req{Path: env.PathMetadata, Host: hostB, Tag: fmt.Sprintf("mo%db", idx)})
	close(bDone)
	<-doneA
	cert := keys.Get("idp_meta").Cert
	for _, x := range []struct {
		name, own, other string
		call             *env.Call
	}{{"stalled_document", hostA, hostB, callA}, {"document_sent_meanwhile", hostB, hostA, callB}} {
		class := fmt.Sprintf("metadata_overlap|%s|stall=%s", x.name, stallAt)
		desc := map[string]any{"host": x.own, "other_host": x.other, "organisation": o.Org}
		r.Eval(fmt.Sprintf("%s|%d", class, idx))
		viol := func(clause, reason string) {
			r.Violate(core.Violation{Clause: clause, Class: class, Reason: reason, Workload: wl, Index: idx, Case: desc, Observed: x.call.Describe()})
		}
		if x.call.Panic != "" {
			viol("panic", x.call.Panic)
			continue
		}
		if x.call.D.Status != 200 || !bytes.Contains(x.call.D.Body, []byte("SignatureValue")) {
			viol("unsigned_metadata", fmt.Sprintf("status %d, signed document expected", x.call.D.Status))
			continue
		}
		e1 := verify.V1(x.call.D.Body, "EntityDescriptor", cert)
		ok2, why2, oerr := verify.V2(x.call.D.Body, "EntityDescriptor", cert)
		if oerr != nil {
			r.Inconclusive("python oracle unavailable: " + oerr.Error())
			return
		}
		r.Count("metadata_documents_verified_while_another_was_in_flight", 1)
		if e1 != nil {
			viol("v1_rejects", e1.Error())
		}
		if !ok2 {
			viol("v2_rejects", why2)
		}
		if bytes.Contains(x.call.D.Body, []byte(x.other)) {
			viol("foreign_host_in_signed_document", fmt.Sprintf("the document served for %s names %s", x.own, x.other))
		}
	}
}
