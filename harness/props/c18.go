package props

import (
	"bytes"
	"fmt"
	"math/rand"
	"net/http/httptest"
	"net/url"
	"sort"
	"strings"
	"time"
	"unicode/utf8"

	samlxml "github.com/zitadel/saml/pkg/provider/xml"
	"github.com/zitadel/saml/pkg/provider/xml/md"
	"github.com/zitadel/saml/pkg/provider/xml/saml"
	"github.com/zitadel/saml/pkg/provider/xml/samlp"
	"github.com/zitadel/saml/pkg/provider/xml/soap"

	"verif/harness/core"
	"verif/harness/env"
	"verif/harness/spsim"
	"verif/harness/verify"
)

// C18 — wire encoding round-trips and cannot be restructured by data.

// ---------- monitor A: codec ----------

func c18Codec(r *core.Run, idx int, rng *rand.Rand) {
	const wl = "codec"
	for k := 0; k < 25; k++ {
		var b []byte
		n := []int{0, 1, 2, 3, 17, 255, 256, 4096, 65535, 65536, 100000}[rng.Intn(11)]
		if rng.Intn(3) == 0 {
			n = rng.Intn(5000)
		}
		if idx%100 == 0 && k == 0 {
			n = (1 + rng.Intn(4)) << 20 // up to 4 MiB
		}
		b = make([]byte, n)
		switch rng.Intn(5) {
		case 0: // all zero
		case 1:
			for i := range b {
				b[i] = byte(rng.Intn(256))
			}
		case 2:
			pat := []byte(arbitraryBytes(rng, 16) + "x")
			for i := range b {
				b[i] = pat[i%len(pat)]
			}
		case 3:
			copy(b, []byte(strings.Repeat("<samlp:AuthnRequest ID=\"_x\">ä€\U0001F600</samlp:AuthnRequest>", n/40+1)))
		default:
			for i := range b {
				b[i] = byte(0x20 + rng.Intn(0x5f))
			}
		}
		enc, err := samlxml.DeflateAndBase64(b)
		if err != nil {
			r.Violate(core.Violation{Clause: "encode_error", Class: "codec", Reason: err.Error(), Workload: wl, Index: idx})
			continue
		}
		dec, err := samlxml.InflateAndDecode(samlxml.EncodingDeflate, true, string(enc))
		r.Count("codec_round_trips", 1)
		r.Eval(fmt.Sprintf("codec|%d|%s", n, core.Hex(string(b))))
		if err != nil || !bytes.Equal(dec, b) {
			r.Violate(core.Violation{Clause: "round_trip", Class: fmt.Sprintf("len=%d", n), Reason: fmt.Sprintf("decode(encode(b)) != b (err=%v, %d bytes in, %d bytes out)", err, len(b), len(dec)), Workload: wl, Index: idx, Case: map[string]any{"input_prefix": fmt.Sprintf("%q", clipS(string(b), 200))}})
		}
		// the encoded form is what an independent inflater reads, too
		if raw, err := decodeB64Inflate(string(enc)); err != nil || !bytes.Equal(raw, b) {
			r.Violate(core.Violation{Clause: "encode_not_standard", Class: fmt.Sprintf("len=%d", n), Reason: fmt.Sprintf("base64+inflate by the harness does not return the input (err=%v)", err), Workload: wl, Index: idx})
		}
		// no pass-through for unknown identifiers
		id := nearMissEncoding(rng)
		out, err := samlxml.InflateAndDecode(id, true, string(enc))
		r.Count("unknown_encoding_probes", 1)
		if err == nil {
			r.Violate(core.Violation{Clause: "unknown_encoding_passed_through", Class: "codec", Reason: fmt.Sprintf("InflateAndDecode(%q, …) returned %d bytes and no error", id, len(out)), Workload: wl, Index: idx, Case: map[string]any{"encoding": id}})
		}
		// b64=false path
		if rng.Intn(4) == 0 {
			if out, err := samlxml.InflateAndDecode("", false, string(b)); err != nil || !bytes.Equal(out, b) {
				r.Violate(core.Violation{Clause: "identity_encoding", Class: "codec", Reason: fmt.Sprintf("InflateAndDecode(\"\", false, b) != b (err=%v)", err), Workload: wl, Index: idx})
			}
		}
	}
}

func decodeB64Inflate(s string) ([]byte, error) {
	raw, err := b64Std(s)
	if err != nil {
		return nil, err
	}
	return inflateAll(raw)
}

func nearMissEncoding(rng *rand.Rand) string {
	d := samlxml.EncodingDeflate
	return []string{
		strings.ToLower(d), strings.ToUpper(d), d + " ", " " + d, d + "\n", d[:len(d)-1], d + "2", "deflate", "DEFLATE", "gzip", "identity", "none", " ", "\x00", "\u200b", "\ufeff",
		"urn:oasis:names:tc:SAML:2.0:bindings:URL-Encoding:GZIP", "urn:oasis:names:tc:SAML:2.0:bindings:URL-Encoding", d + "\x00", "urn:oasis:names:tc:saml:2.0:bindings:url-encoding:deflate", "x" + plainString(rng, 5),
	}[rng.Intn(21)]
}

// ---------- monitor B: messages ----------

// anyString draws arbitrary "Unicode" incl. illegal XML characters and invalid UTF-8; never empty.
func anyString(rng *rand.Rand, legalOnly bool) string {
	var b strings.Builder
	b.WriteString("v")
	for i := rng.Intn(8); i > 0; i-- {
		switch rng.Intn(7) {
		case 0:
			b.WriteString(xmlSpecial[rng.Intn(len(xmlSpecial))])
		case 1:
			b.WriteString([]string{"]]>", "<![CDATA[", "<!--", "-->", "<?x ?>", "&#0;", "&#xD;", "&unknown;", "</samlp:Response>", "<Assertion>", "\" ID=\"x", "' x='"}[rng.Intn(12)])
		case 2:
			if !legalOnly {
				b.WriteString([]string{"\x00", "\x01", "\x08", "\x0b", "\x0c", "\x1f", "\x7f", "\xff", "\xc0\xaf", "\xed\xa0\x80", "\xed\xbf\xbf", "\xef\xbf\xbe", "\xef\xbf\xbf", "\xf4\x90\x80\x80", "\x80"}[rng.Intn(15)])
			} else {
				b.WriteString(" \t\n\r")
			}
		default:
			b.WriteString(legalXMLString(rng, 2))
		}
	}
	return b.String()
}

// replaceIllegal mirrors what an XML serialiser may do with characters XML cannot carry.
func replaceIllegal(s string) string {
	var b strings.Builder
	for i := 0; i < len(s); {
		r, w := utf8.DecodeRuneInString(s[i:])
		if (r == utf8.RuneError && w == 1) || !(r == 0x9 || r == 0xA || r == 0xD || (r >= 0x20 && r <= 0xD7FF) || (r >= 0xE000 && r <= 0xFFFD) || (r >= 0x10000 && r <= 0x10FFFF)) {
			b.WriteRune('�')
		} else {
			b.WriteString(s[i : i+w])
		}
		i += w
	}
	return b.String()
}

func isLegalXML(s string) bool { return replaceIllegal(s) == s && utf8.ValidString(s) }

// pySkeleton is the element / attribute structure of an expat dump without any value.
func pySkeleton(nodes []verify.PyNode) string {
	var b strings.Builder
	for _, n := range nodes {
		var ks []string
		for k := range n.Attrs {
			ks = append(ks, k)
		}
		sort.Strings(ks)
		fmt.Fprintf(&b, "%d{%s}%s[%s];", n.Depth, n.NS, n.Local, strings.Join(ks, ","))
	}
	return b.String()
}

// c18Values is the list of (path, value) the harness put into a message.
type c18Field struct {
	Path string // "local[/local]@attr" or "local[/local]#text" addressing the k-th occurrence
	Val  string
}

// lookup finds the value at a simple path in an expat dump: elements by local name chain (first match, depth first).
func pyLookup(nodes []verify.PyNode, path string) (string, bool) {
	attr := ""
	text := false
	if i := strings.IndexByte(path, '@'); i >= 0 {
		path, attr = path[:i], path[i+1:]
	} else if strings.HasSuffix(path, "#text") {
		path, text = strings.TrimSuffix(path, "#text"), true
	}
	want := strings.Split(path, "/")
	var stack []string
	for _, n := range nodes {
		if n.Depth < len(stack) {
			stack = stack[:n.Depth]
		}
		stack = append(stack, n.Local)
		if len(stack) >= len(want) && equalStrings(stack[len(stack)-len(want):], want) {
			if text {
				return n.Text, true
			}
			v, ok := n.Attrs[attr]
			return v, ok
		}
	}
	return "", false
}

type c18Msg struct {
	Kind   string
	Build  func(s func(string) string) any // s maps a field label to its string
	Fields []string                        // labels
	Paths  map[string]string               // label -> expat path
	Decode func(x []byte) (map[string]string, error)
}

func c18Messages() []c18Msg {
	respFields := []string{"id", "irt", "dest", "issuer", "status", "msg", "aid", "nameid", "audience", "attrname", "attrfriendly", "attrval1", "attrval2", "recipient"}
	buildResp := func(s func(string) string) *samlp.ResponseType {
		return &samlp.ResponseType{
			Id: s("id"), InResponseTo: s("irt"), Version: "2.0", IssueInstant: "2026-01-01T00:00:00Z", Destination: s("dest"),
			Issuer: &saml.NameIDType{Text: s("issuer")},
			Status: samlp.StatusType{StatusCode: samlp.StatusCodeType{Value: s("status")}, StatusMessage: s("msg")},
			Assertion: saml.AssertionType{Version: "2.0", Id: s("aid"), IssueInstant: "2026-01-01T00:00:00Z", Issuer: saml.NameIDType{Text: s("issuer")},
				Subject: &saml.SubjectType{NameID: &saml.NameIDType{Text: s("nameid")}, SubjectConfirmation: []saml.SubjectConfirmationType{{Method: "urn:oasis:names:tc:SAML:2.0:cm:bearer",
					SubjectConfirmationData: &saml.SubjectConfirmationDataType{InResponseTo: s("irt"), Recipient: s("recipient")}}}},
				Conditions:         &saml.ConditionsType{AudienceRestriction: []saml.AudienceRestrictionType{{Audience: []string{s("audience")}}}},
				AttributeStatement: []saml.AttributeStatementType{{Attribute: []*saml.AttributeType{{Name: s("attrname"), FriendlyName: s("attrfriendly"), NameFormat: basicFormat, AttributeValue: []string{s("attrval1"), s("attrval2")}}}}},
			},
		}
	}
	respPaths := map[string]string{"id": "Response@ID", "irt": "Response@InResponseTo", "dest": "Response@Destination", "issuer": "Response/Issuer#text", "status": "Status/StatusCode@Value",
		"msg": "Status/StatusMessage#text", "aid": "Assertion@ID", "nameid": "Subject/NameID#text", "audience": "AudienceRestriction/Audience#text", "attrname": "Attribute@Name",
		"attrfriendly": "Attribute@FriendlyName", "attrval1": "Attribute/AttributeValue#text", "recipient": "SubjectConfirmationData@Recipient"}
	decodeResp := func(x []byte) (map[string]string, error) {
		m, err := samlxml.DecodeResponse("", false, string(x))
		if err != nil {
			return nil, err
		}
		out := map[string]string{"id": m.Id, "irt": m.InResponseTo, "dest": m.Destination, "status": m.Status.StatusCode.Value, "msg": m.Status.StatusMessage, "aid": m.Assertion.Id}
		if m.Issuer != nil {
			out["issuer"] = m.Issuer.Text
		}
		if m.Assertion.Subject != nil && m.Assertion.Subject.NameID != nil {
			out["nameid"] = m.Assertion.Subject.NameID.Text
			if len(m.Assertion.Subject.SubjectConfirmation) > 0 && m.Assertion.Subject.SubjectConfirmation[0].SubjectConfirmationData != nil {
				out["recipient"] = m.Assertion.Subject.SubjectConfirmation[0].SubjectConfirmationData.Recipient
			}
		}
		if c := m.Assertion.Conditions; c != nil && len(c.AudienceRestriction) > 0 && len(c.AudienceRestriction[0].Audience) > 0 {
			out["audience"] = c.AudienceRestriction[0].Audience[0]
		}
		if as := m.Assertion.AttributeStatement; len(as) > 0 && len(as[0].Attribute) > 0 {
			a := as[0].Attribute[0]
			out["attrname"], out["attrfriendly"] = a.Name, a.FriendlyName
			if len(a.AttributeValue) == 2 {
				out["attrval1"], out["attrval2"] = a.AttributeValue[0], a.AttributeValue[1]
			}
		}
		return out, nil
	}
	return []c18Msg{
		{Kind: "Response", Fields: respFields, Paths: respPaths, Build: func(s func(string) string) any { return buildResp(s) }, Decode: decodeResp},
		{Kind: "SOAP", Fields: respFields, Paths: respPaths, Build: func(s func(string) string) any {
			return &soap.ResponseEnvelope{Body: soap.ResponseBody{Response: buildResp(s)}}
		}},
		{Kind: "LogoutResponse", Fields: []string{"id", "irt", "dest", "issuer", "status", "msg"},
			Paths: map[string]string{"id": "LogoutResponse@ID", "irt": "LogoutResponse@InResponseTo", "dest": "LogoutResponse@Destination", "issuer": "LogoutResponse/Issuer#text", "status": "Status/StatusCode@Value", "msg": "Status/StatusMessage#text"},
			Build: func(s func(string) string) any {
				return &samlp.LogoutResponseType{Id: s("id"), InResponseTo: s("irt"), Version: "2.0", IssueInstant: "2026-01-01T00:00:00Z", Destination: s("dest"), Issuer: &saml.NameIDType{Text: s("issuer")},
					Status: samlp.StatusType{StatusCode: samlp.StatusCodeType{Value: s("status")}, StatusMessage: s("msg")}}
			}},
		{Kind: "EntityDescriptor", Fields: []string{"entity", "id", "org", "display", "orgurl", "company", "given", "sur", "mail", "phone", "loc"},
			Paths: map[string]string{"entity": "EntityDescriptor@entityID", "id": "EntityDescriptor@ID", "org": "Organization/OrganizationName#text", "display": "Organization/OrganizationDisplayName#text",
				"orgurl": "Organization/OrganizationURL#text", "company": "ContactPerson/Company#text", "given": "ContactPerson/GivenName#text", "sur": "ContactPerson/SurName#text",
				"mail": "ContactPerson/EmailAddress#text", "phone": "ContactPerson/TelephoneNumber#text", "loc": "SingleSignOnService@Location"},
			Build: func(s func(string) string) any {
				org := &md.OrganizationType{OrganizationName: []md.LocalizedNameType{{Text: s("org")}}, OrganizationDisplayName: []md.LocalizedNameType{{Text: s("display")}}, OrganizationURL: []md.LocalizedURIType{{Text: s("orgurl")}}}
				cp := []md.ContactType{{ContactType: "technical", Company: s("company"), GivenName: s("given"), SurName: s("sur"), EmailAddress: []string{s("mail")}, TelephoneNumber: []string{s("phone")}}}
				return &md.EntityDescriptorType{EntityID: md.EntityIDType(s("entity")), Id: s("id"),
					IDPSSODescriptor: &md.IDPSSODescriptorType{ProtocolSupportEnumeration: spsim.NSP, Organization: org, ContactPerson: cp,
						SingleSignOnService: []md.EndpointType{{Binding: spsim.BindPost, Location: s("loc")}}}}
			},
			Decode: func(x []byte) (map[string]string, error) {
				m, err := samlxml.ParseMetadataXmlIntoStruct(x)
				if err != nil {
					return nil, err
				}
				out := map[string]string{"entity": string(m.EntityID), "id": m.Id}
				if d := m.IDPSSODescriptor; d != nil {
					if o := d.Organization; o != nil && len(o.OrganizationName) > 0 && len(o.OrganizationDisplayName) > 0 && len(o.OrganizationURL) > 0 {
						out["org"], out["display"], out["orgurl"] = o.OrganizationName[0].Text, o.OrganizationDisplayName[0].Text, o.OrganizationURL[0].Text
					}
					if len(d.ContactPerson) > 0 {
						c := d.ContactPerson[0]
						out["company"], out["given"], out["sur"] = c.Company, c.GivenName, c.SurName
						if len(c.EmailAddress) > 0 && len(c.TelephoneNumber) > 0 {
							out["mail"], out["phone"] = c.EmailAddress[0], c.TelephoneNumber[0]
						}
					}
					if len(d.SingleSignOnService) > 0 {
						out["loc"] = d.SingleSignOnService[0].Location
					}
				}
				return out, nil
			}},
	}
}

func c18Marshal(kind string, v any, viaWriter bool) ([]byte, error) {
	if viaWriter || kind == "SOAP" {
		rec := httptest.NewRecorder()
		if err := samlxml.WriteXMLMarshalled(rec, v); err != nil {
			return nil, err
		}
		return rec.Body.Bytes(), nil
	}
	return samlxml.Marshal(v)
}

func c18Built(r *core.Run, idx int, rng *rand.Rand) {
	const wl = "built_messages"
	msgs := c18Messages()
	m := msgs[idx%len(msgs)]
	viaWriter := rng.Intn(2) == 0
	neutral := func(l string) string { return "neutral" + l }
	nb, err := c18Marshal(m.Kind, m.Build(neutral), viaWriter)
	if err != nil {
		r.Inconclusive("neutral message does not marshal: " + err.Error())
		return
	}
	okN, _, nNodes, oerr := verify.PyWF(nb, true)
	if oerr != nil || !okN {
		r.Inconclusive(fmt.Sprintf("neutral message not parseable by expat (%v)", oerr))
		return
	}
	skel := pySkeleton(nNodes)
	for k := 0; k < 8; k++ {
		legal := rng.Intn(2) == 0
		vals := map[string]string{}
		for _, f := range m.Fields {
			vals[f] = anyString(rng, legal)
		}
		class := fmt.Sprintf("%s|legal=%v|writer=%v", m.Kind, legal, viaWriter)
		desc := map[string]any{"kind": m.Kind, "values": vals}
		viol := func(clause, reason string) {
			r.Violate(core.Violation{Clause: clause, Class: class, Reason: reason, Workload: wl, Index: idx, Case: desc})
		}
		x, err := c18Marshal(m.Kind, m.Build(func(l string) string { return vals[l] }), viaWriter)
		r.Eval(class + core.Hex(fmt.Sprint(vals)))
		r.Count("messages_built", 1)
		if err != nil {
			// refusing to serialise is not restructuring; only legal values must serialise
			if legal {
				viol("marshal_error", err.Error())
			}
			continue
		}
		ok, perr, nodes, oerr := verify.PyWF(x, true)
		if oerr != nil {
			r.Inconclusive("python oracle unavailable: " + oerr.Error())
			return
		}
		if !ok {
			viol("not_wellformed", "expat: "+perr+" in "+clipS(string(x), 600))
			continue
		}
		if strings.Count(string(x), "<?xml") != 1 {
			viol("not_single_document", "number of XML declarations != 1")
		}
		if got := pySkeleton(nodes); got != skel {
			viol("structure_changed_by_data", "element / attribute structure differs from the neutral rendering: "+clipS(diffAt(skel, got), 500))
			continue
		}
		r.Count("structure_preserved", 1)
		for f, p := range m.Paths {
			got, found := pyLookup(nodes, p)
			want := vals[f]
			if !found {
				viol("value_lost", fmt.Sprintf("field %s (%s) not found by expat", f, p))
				continue
			}
			if legal {
				if got != want {
					viol("value_changed", fmt.Sprintf("field %s: expat reads %q, put in %q", f, clipS(got, 200), clipS(want, 200)))
				}
			} else if replaceIllegal(got) != replaceIllegal(want) {
				viol("value_changed_beyond_replacement", fmt.Sprintf("field %s: expat reads %q, put in %q", f, clipS(got, 200), clipS(want, 200)))
			}
		}
		if m.Decode != nil {
			dec, err := m.Decode(x)
			if err != nil {
				viol("library_decode_error", err.Error())
				continue
			}
			for f, got := range dec {
				want := vals[f]
				if legal && got != want {
					viol("library_value_changed", fmt.Sprintf("field %s: library decoder reads %q, put in %q", f, clipS(got, 200), clipS(want, 200)))
				} else if !legal && replaceIllegal(got) != replaceIllegal(want) {
					viol("library_value_changed_beyond_replacement", fmt.Sprintf("field %s: library decoder reads %q, put in %q", f, clipS(got, 200), clipS(want, 200)))
				}
			}
			r.Count("library_round_trips", 1)
		}
		if legal {
			r.Count("legal_value_round_trips", 1)
		}
		if idx < 4 && k == 0 {
			r.Sample("built_message", map[string]any{"kind": m.Kind, "legal": legal, "bytes": clipS(string(x), 700)})
		}
	}
}

// c18Harvest checks replies of the real handlers that echo attacker-supplied text.
func c18Harvest(r *core.Run, idx int, rng *rand.Rand) {
	const wl = "harvested_replies"
	e := env.Static(env.Opts{})
	d := stdSP(0)
	d.SLO = []spsim.SLO{{Binding: spsim.BindPost, Location: "https://sp0.example/slo"}}
	mustRegister(e.W, d, "a")
	id := "id" + legalXMLString(rng, 6)
	var call *env.Call
	kind := idx % 4
	switch kind {
	case 3: // callback error reply: the status message echoes what storage says about an attacker-chosen id (any bytes)
		id = "id" + anyString(rng, false)
		sc := randScenario(rng, fmt.Sprintf("MK%dx", idx), false)
		sc.Host = ""
		sc.install(e.W)
		call = e.Do(env.Req{Path: env.PathLogin, Query: "id=" + url.QueryEscape(id)})
	case 0: // SSO error reply echoing the request ID
		a := validAuthn(rng, d)
		a.ID = id
		a.Destination = "https://wrong.example/"
		s := ssoSend{Binding: []string{"redirect", "post"}[rng.Intn(2)], XML: a.XML(rng), HasRelay: true, Relay: legalXMLString(rng, 4)}
		call, _ = s.do(e)
	case 1: // logout reply echoing the request ID
		l := conformantLogout(rng, d)
		l.ID = id
		if rng.Intn(2) == 0 {
			l.Issuer = "unknown" + legalXMLString(rng, 3)
		}
		s := ssoSend{Path: env.PathSLO, Binding: "post", XML: l.XML(rng), HasRelay: true, Relay: legalXMLString(rng, 4)}
		call, _ = s.do(e)
	default: // attribute query answer echoing ID and user data
		u := randUser(rng, fmt.Sprintf("U_MK%dx", idx), true)
		e.W.AddUser(u)
		q := conformantQuery(rng, d, u.Username)
		q.ID = id
		q.Attrs = nil
		call = e.Do(env.Req{Method: "POST", Path: env.PathAttr, Body: q.XML(rng), CT: "text/xml"})
	}
	class := []string{"sso_error", "logout", "attribute_query", "callback_unknown_id"}[kind]
	r.Eval(class + core.Hex(id))
	viol := func(clause, reason string) {
		r.Violate(core.Violation{Clause: clause, Class: class, Reason: reason, Workload: wl, Index: idx, Case: map[string]any{"id": id}, Observed: call.Describe()})
	}
	if call.Panic != "" {
		viol("panic", call.Panic)
		return
	}
	if call.D.XML == nil {
		r.Count("harvest_no_message", 1)
		return
	}
	ok, perr, nodes, oerr := verify.PyWF(call.D.XML, true)
	if oerr != nil {
		r.Inconclusive("python oracle unavailable: " + oerr.Error())
		return
	}
	r.Count("harvested_messages", 1)
	if !ok {
		viol("not_wellformed", "expat: "+perr)
		return
	}
	pm := pyMessage(nodes)
	if pm == nil || call.D.Msg == nil {
		viol("no_message", "reply does not contain a protocol message")
		return
	}
	if kind == 3 {
		// the echo travels in the status message; illegal characters may be replaced, nothing else may change
		if !strings.Contains(replaceIllegal(pm.StatusMessage), replaceIllegal(id)) {
			viol("echo_changed", fmt.Sprintf("status message %q does not carry the (replaced) id %q", clipS(pm.StatusMessage, 200), clipS(replaceIllegal(id), 200)))
		}
		if pm.StatusCode == "" || pm.Root != "Response" {
			viol("structure_changed_by_data", "the reply is not a Response with a status: root "+pm.Root)
		}
		r.Count("harvested_status_message_echoes", 1)
		return
	}
	if pm.InResponseTo != id || call.D.Msg.InResponseTo != id {
		viol("echo_changed", fmt.Sprintf("InResponseTo expat %q / etree %q, request ID %q", pm.InResponseTo, call.D.Msg.InResponseTo, id))
	}
	if d := diffMessages(call.D.Msg, pm); d != "" {
		viol("parsers_disagree", d)
	}
}

func init() {
	register(&Prop{
		ID: "C18", Level: "exploration", DeathIsViolation: true,
		TimeoutQuick: 5 * time.Minute, TimeoutThorough: 30 * time.Minute,
		Build: func(c *Ctx) []core.Workload {
			r := c.Run
			r.Rule = "(A) codec: InflateAndDecode(DEFLATE, base64, DeflateAndBase64(b)) = b for byte strings of 0 B - 4 MiB (zero, random, repetitive, text), cross-checked with the harness's own base64+inflate; every near-miss encoding identifier is an error. (B) Response / SOAP envelope / LogoutResponse / EntityDescriptor values with arbitrary strings in every string field (legal XML characters incl. metacharacters, CDATA terminators, CR/LF/TAB; or illegal control characters, surrogate / overlong / invalid UTF-8) are passed through the exported Marshal / WriteXMLMarshalled: the bytes must be one well-formed document for expat, its element / attribute skeleton must equal the skeleton of the same value with neutral strings, legal values must come back exactly from expat and from the library decoders, illegal ones only replaced by U+FFFD. (C) replies of the real handlers that echo attacker-chosen request IDs, or - in the status message - what storage says about an attacker-chosen callback id made of arbitrary bytes, are harvested and checked the same way. Distinct = inputs by hash."
			r.Assume("codec inputs are at most 4 MiB (the decoder deliberately rejects inflated sizes above its cap, see C14)")
			r.Require("codec_round_trips", int64(c.Pick(3000, 30000)))
			r.Require("unknown_encoding_probes", 1000)
			r.Require("structure_preserved", int64(c.Pick(1500, 15000)))
			r.Require("legal_value_round_trips", 500)
			r.Require("harvested_messages", 300)
			r.Require("harvested_status_message_echoes", 100)
			return []core.Workload{
				{Name: "codec", N: c.Pick(130, 1300), Fn: c18Codec},
				{Name: "built_messages", N: c.Pick(260, 2600), Fn: c18Built},
				{Name: "harvested_replies", N: c.Pick(600, 6000), Fn: c18Harvest},
			}
		},
		After: func(c *Ctx) { verify.Py.Close() },
	})
}
