package props

import (
	"bytes"
	"encoding/base64"
	"encoding/json"
	"fmt"
	"math/rand"
	"net/url"
	"os"
	"os/exec"
	"path/filepath"
	"sort"
	"strings"
	"sync"
	"time"
	"unicode/utf8"

	samlxml "github.com/zitadel/saml/pkg/provider/xml"

	"github.com/zitadel/saml/pkg/provider"
	"github.com/zitadel/saml/pkg/provider/key"

	"verif/harness/core"
	"verif/harness/env"
	"verif/harness/keys"
	"verif/harness/reply"
	"verif/harness/sim"
	"verif/harness/spsim"
	"verif/harness/verify"
)

// C18 — wire encoding round-trips and cannot be restructured by data.

// ---------- monitor A: codec ----------

func c18Codec(r *core.Run, idx int, rng *rand.Rand) {
	const wl = "codec"
	for k := 0; k < 25; k++ {
		var b []byte
		n := []int{0, 1, 2, 3, 17, 255, 256, 4096, 65535, 65536, 100000}[rng.Intn(11)]
		if rng.Intn(3) == 0 {
			n = rng.Intn(5000)
		}
		if idx%100 == 0 && k == 0 {
			n = (1 + rng.Intn(4)) << 20 // up to 4 MiB
		}
		b = make([]byte, n)
		switch rng.Intn(7) {
		case 5, 6:
			// short texts of words (what compresses into one block with a code table of its own: the first bytes of the
			// compressed stream then take many more values than for binary or repetitive input)
			var sb strings.Builder
			words := []string{"the", "quick", "brown", "fox", "login", "request", "user", "name", "Zürich", "session", "index", "of", "and", "value", "attribute", "a", "to", "is", "not", "x"}
			for want := 30 + rng.Intn(370); sb.Len() < want; {
				sb.WriteString(words[rng.Intn(len(words))])
				sb.WriteByte(" \n,.;"[rng.Intn(5)])
			}
			b = []byte(sb.String())
			n = len(b)
		case 0: // all zero
		case 1:
			for i := range b {
				b[i] = byte(rng.Intn(256))
			}
		case 2:
			pat := []byte(arbitraryBytes(rng, 16) + "x")
			for i := range b {
				b[i] = pat[i%len(pat)]
			}
		case 3:
			copy(b, []byte(strings.Repeat("<samlp:AuthnRequest ID=\"_x\">ä€\U0001F600</samlp:AuthnRequest>", n/40+1)))
		default:
			for i := range b {
				b[i] = byte(0x20 + rng.Intn(0x5f))
			}
		}
		// now and then the input starts (or ends) with bytes that mean something to some decoder: byte order marks,
		// an XML declaration, container headers, a DEFLATE end-of-stream, white space
		if rng.Intn(4) == 0 {
			magic := [][]byte{{0xEF, 0xBB, 0xBF}, {0xFF, 0xFE}, {0xFE, 0xFF}, {0x00, 0x00, 0xFE, 0xFF}, []byte("<?xml version=\"1.0\" encoding=\"UTF-16\"?>"), {0x78, 0x9c}, {0x1f, 0x8b, 0x08}, {0x03, 0x00}, []byte(" \t\r\n"), {0x00}, []byte("%3C"), []byte("+/=")}[rng.Intn(12)]
			if rng.Intn(4) == 0 {
				b = append(b, magic...)
			} else {
				b = append(append([]byte{}, magic...), b...)
			}
			n = len(b)
			r.Count("codec_inputs_with_magic_bytes", 1)
		}
		enc, err := samlxml.DeflateAndBase64(b)
		if err != nil {
			r.Violate(core.Violation{Clause: "encode_error", Class: "codec", Reason: err.Error(), Workload: wl, Index: idx})
			continue
		}
		if raw, e2 := base64.StdEncoding.DecodeString(string(enc)); e2 == nil && len(raw) > 0 {
			r.Seen("first_bytes_of_deflated_streams", fmt.Sprintf("%02x", raw[0]))
		}
		dec, err := samlxml.InflateAndDecode(samlxml.EncodingDeflate, true, string(enc))
		r.Count("codec_round_trips", 1)
		r.Eval(fmt.Sprintf("codec|%d|%s", n, core.Hex(string(b))))
		if err != nil || !bytes.Equal(dec, b) {
			r.Violate(core.Violation{Clause: "round_trip", Class: fmt.Sprintf("len=%d", n), Reason: fmt.Sprintf("decode(encode(b)) != b (err=%v, %d bytes in, %d bytes out)", err, len(b), len(dec)), Workload: wl, Index: idx, Case: map[string]any{"input_prefix": fmt.Sprintf("%q", clipS(string(b), 200))}})
		}
		// the encoded form is what an independent inflater reads, too
		if raw, err := decodeB64Inflate(string(enc)); err != nil || !bytes.Equal(raw, b) {
			r.Violate(core.Violation{Clause: "encode_not_standard", Class: fmt.Sprintf("len=%d", n), Reason: fmt.Sprintf("base64+inflate by the harness does not return the input (err=%v)", err), Workload: wl, Index: idx})
		}
		// no pass-through for unknown identifiers
		id := nearMissEncoding(rng)
		out, err := samlxml.InflateAndDecode(id, true, string(enc))
		r.Count("unknown_encoding_probes", 1)
		if err == nil {
			r.Violate(core.Violation{Clause: "unknown_encoding_passed_through", Class: "codec", Reason: fmt.Sprintf("InflateAndDecode(%q, …) returned %d bytes and no error", id, len(out)), Workload: wl, Index: idx, Case: map[string]any{"encoding": id}})
		}
		// b64=false path
		if rng.Intn(4) == 0 {
			if out, err := samlxml.InflateAndDecode("", false, string(b)); err != nil || !bytes.Equal(out, b) {
				r.Violate(core.Violation{Clause: "identity_encoding", Class: "codec", Reason: fmt.Sprintf("InflateAndDecode(\"\", false, b) != b (err=%v)", err), Workload: wl, Index: idx})
			}
		}
	}
}

func decodeB64Inflate(s string) ([]byte, error) {
	raw, err := b64Std(s)
	if err != nil {
		return nil, err
	}
	return inflateAll(raw)
}

func nearMissEncoding(rng *rand.Rand) string {
	d := samlxml.EncodingDeflate
	return []string{
		strings.ToLower(d), strings.ToUpper(d), d + " ", " " + d, d + "\n", d[:len(d)-1], d + "2", "deflate", "DEFLATE", "gzip", "identity", "none", " ", "\x00", "\u200b", "\ufeff",
		"urn:oasis:names:tc:SAML:2.0:bindings:URL-Encoding:GZIP", "urn:oasis:names:tc:SAML:2.0:bindings:URL-Encoding", d + "\x00", "urn:oasis:names:tc:saml:2.0:bindings:url-encoding:deflate", "x" + plainString(rng, 5),
	}[rng.Intn(21)]
}

// ---------- monitor B: messages ----------

// anyString draws arbitrary "Unicode" incl. illegal XML characters and invalid UTF-8; never empty.
func anyString(rng *rand.Rand, legalOnly bool) string {
	var b strings.Builder
	b.WriteString("v")
	for i := rng.Intn(8); i > 0; i-- {
		switch rng.Intn(7) {
		case 0:
			b.WriteString(xmlSpecial[rng.Intn(len(xmlSpecial))])
		case 1:
			b.WriteString([]string{"]]>", "<![CDATA[", "<!--", "-->", "<?x ?>", "&#0;", "&#xD;", "&unknown;", "</samlp:Response>", "<Assertion>", "\" ID=\"x", "' x='"}[rng.Intn(12)])
		case 2:
			if !legalOnly {
				b.WriteString([]string{"\x00", "\x01", "\x08", "\x0b", "\x0c", "\x1f", "\x7f", "\xff", "\xc0\xaf", "\xed\xa0\x80", "\xed\xbf\xbf", "\xef\xbf\xbe", "\xef\xbf\xbf", "\xf4\x90\x80\x80", "\x80"}[rng.Intn(15)])
			} else {
				b.WriteString(" \t\n\r")
			}
		default:
			b.WriteString(legalXMLString(rng, 2))
		}
	}
	return b.String()
}

// replaceIllegal mirrors what an XML serialiser may do with characters XML cannot carry.
func replaceIllegal(s string) string {
	var b strings.Builder
	for i := 0; i < len(s); {
		r, w := utf8.DecodeRuneInString(s[i:])
		if (r == utf8.RuneError && w == 1) || !(r == 0x9 || r == 0xA || r == 0xD || (r >= 0x20 && r <= 0xD7FF) || (r >= 0xE000 && r <= 0xFFFD) || (r >= 0x10000 && r <= 0x10FFFF)) {
			b.WriteRune('�')
		} else {
			b.WriteString(s[i : i+w])
		}
		i += w
	}
	return b.String()
}

func isLegalXML(s string) bool { return replaceIllegal(s) == s && utf8.ValidString(s) }

// pySkeleton is the element / attribute structure of an expat dump without any value.
func pySkeleton(nodes []verify.PyNode) string {
	var b strings.Builder
	for _, n := range nodes {
		var ks []string
		for k := range n.Attrs {
			ks = append(ks, k)
		}
		sort.Strings(ks)
		fmt.Fprintf(&b, "%d{%s}%s[%s];", n.Depth, n.NS, n.Local, strings.Join(ks, ","))
	}
	return b.String()
}

// The built-message monitor (B) lives in package c18b and runs as a helper process (.build/c18built):
// it touches many struct types of the library's XML model, and a change of one of those types must not
// stop the rest of this check (or any other check) from compiling.
func c18BuiltHelper(n int) func(r *core.Run, idx int, rng *rand.Rand) {
	return func(r *core.Run, idx int, _ *rand.Rand) {
		bin := filepath.Join(core.Root, ".build", "c18built")
		if _, err := os.Stat(bin); err != nil {
			r.Inconclusive("the built-message workload (harness/c18b) does not compile against the repository; the codec and harvested-reply monitors ran")
			return
		}
		cmd := exec.Command(bin, "--seed", fmt.Sprint(r.Seed), "--n", fmt.Sprint(n))
		cmd.Env = append(os.Environ(), "VERIF_ROOT="+core.Root)
		out, err := cmd.Output()
		var d core.Dump
		if err != nil || json.Unmarshal(out, &d) != nil {
			r.Inconclusive(fmt.Sprintf("built-message helper failed: %v %s", err, clipS(string(out), 300)))
			return
		}
		for i := range d.Violations {
			d.Violations[i].Workload, d.Violations[i].Index = "built_messages", 0
		}
		r.Merge(&d)
	}
}

// c18Harvest checks replies of the real handlers that echo attacker-supplied text.
func c18Harvest(r *core.Run, idx int, rng *rand.Rand) {
	const wl = "harvested_replies"
	e := env.Static(env.Opts{})
	d := stdSP(0)
	d.SLO = []spsim.SLO{{Binding: spsim.BindPost, Location: "https://sp0.example/slo"}}
	mustRegister(e.W, d, "a")
	id := "id" + legalXMLString(rng, 6)
	var call *env.Call
	kind := idx % 9
	wantRelay, checkRelay := "", false
	switch kind {
	case 8: // an attribute query during which a storage call fails with an error whose text is unusual (multi-byte, format
		// verbs, markup and control characters): whatever is answered as XML is one well-formed document
		u := randUser(rng, fmt.Sprintf("U_MK%dx", idx), false)
		e.W.AddUser(u)
		q := conformantQuery(rng, d, u.Username)
		q.ID = id
		op := []string{"GetEntityByID", "SetUserinfoWithLoginName", "GetResponseSigningKey"}[rng.Intn(3)]
		fk := errTextKinds[rng.Intn(len(errTextKinds))]
		e.W.Plan = func(tag, o string, occ int) string {
			if o == op {
				return fk
			}
			return ""
		}
		call = e.Do(env.Req{Method: "POST", Path: env.PathAttr, Body: q.XML(rng), CT: "text/xml"})
	case 7: // the audience cannot be resolved at the callback: whatever is answered, it is ONE message
		sc := randScenario(rng, fmt.Sprintf("MK%dx", idx), false)
		sc.Host = ""
		sc.S.AuthRequestID = id
		if rng.Intn(3) == 0 {
			sc.S.ACS = "" // delivery in the body
		}
		sc.install(e.W)
		fk := []string{sim.FaultError, sim.FaultTimeout, sim.FaultTemporary, sim.FaultPoolClosed}[rng.Intn(4)]
		e.W.Plan = func(tag, op string, occ int) string {
			if op == "GetEntityIDByAppID" {
				return fk
			}
			return ""
		}
		call = e.Do(env.Req{Path: env.PathLogin, Query: "id=" + url.QueryEscape(sc.S.ID)})
	case 6: // a completed callback whose RelayState is full of characters that mean something in a query string or a form
		sc := randScenario(rng, fmt.Sprintf("MK%dx", idx), false)
		sc.Host = ""
		sc.S.AuthRequestID = id
		sc.S.RelayState = []string{"a&b=c", "x&SigAlg=http%3A%2F%2Fwww.w3.org%2F2000%2F09%2Fxmldsig%23rsa-sha1&Signature=AAAA", "1+1=2", "a+b/c==", "50%", "%41%zz", "q?x=1#frag;y", "sp ace\ttab", "ü&é+", "&", "+", "=", "&&==", "a=b&SAMLResponse=evil"}[rng.Intn(14)] + legalXMLString(rng, 2)
		// consumer URLs in every legal shape a query can be appended to
		sc.S.ACS = "https://mk" + fmt.Sprint(idx) + "x.sp.example/acs" + []string{"", "?", "?", "?a=1", "?a=1&b", "?flag", "/", "?x=%20y"}[rng.Intn(8)]
		sc.install(e.W)
		wantRelay, checkRelay = sc.S.RelayState, true
		call = e.Do(env.Req{Path: env.PathLogin, Query: "id=" + url.QueryEscape(sc.S.ID)})
	case 5: // the signing key cannot be read at the callback (error, timeout, no record): a failure message or a plain error
		sc := randScenario(rng, fmt.Sprintf("MK%dx", idx), false)
		sc.Host = ""
		sc.S.AuthRequestID = id
		sc.install(e.W)
		fk := []string{sim.FaultError, sim.FaultTimeout, sim.FaultNilRecord, sim.FaultKeyNoCert, sim.FaultCertNoKey, sim.FaultEmptyCert}[rng.Intn(6)]
		e.W.Plan = func(tag, op string, occ int) string {
			if op == "GetResponseSigningKey" {
				return fk
			}
			return ""
		}
		call = e.Do(env.Req{Path: env.PathLogin, Query: "id=" + url.QueryEscape(sc.S.ID)})
	case 4: // the callback cannot sign (certificate and key do not belong together): what is sent must be the failure message
		sc := randScenario(rng, fmt.Sprintf("MK%dx", idx), false)
		sc.Host = ""
		sc.S.AuthRequestID = id
		sc.install(e.W)
		e.W.RespKey = &key.CertificateAndKey{Certificate: keys.Get("idp_meta").CertDER, Key: keys.Get("idp_resp").RSA}
		call = e.Do(env.Req{Path: env.PathLogin, Query: "id=" + url.QueryEscape(sc.S.ID)})
	case 3: // callback error reply: the status message echoes what storage says about an attacker-chosen id (any bytes)
		id = fmt.Sprintf("idMKe%dx", idx) + anyString(rng, false)
		sc := randScenario(rng, fmt.Sprintf("MK%dx", idx), false)
		sc.Host = ""
		sc.install(e.W)
		call = e.Do(env.Req{Path: env.PathLogin, Query: "id=" + url.QueryEscape(id)})
	case 0: // SSO error reply echoing the request ID
		a := validAuthn(rng, d)
		a.ID = id
		a.Destination = "https://wrong.example/"
		s := ssoSend{Binding: []string{"redirect", "post"}[rng.Intn(2)], XML: a.XML(rng), HasRelay: true, Relay: legalXMLString(rng, 4)}
		call, _ = s.do(e)
	case 1: // logout reply echoing the request ID
		l := conformantLogout(rng, d)
		l.ID = id
		if rng.Intn(2) == 0 {
			l.Issuer = "unknown" + legalXMLString(rng, 3)
		}
		s := ssoSend{Path: env.PathSLO, Binding: "post", XML: l.XML(rng), HasRelay: true, Relay: legalXMLString(rng, 4)}
		call, _ = s.do(e)
	default: // attribute query answer echoing ID and user data
		u := randUser(rng, fmt.Sprintf("U_MK%dx", idx), true)
		e.W.AddUser(u)
		q := conformantQuery(rng, d, u.Username)
		q.ID = id
		q.Attrs = nil
		call = e.Do(env.Req{Method: "POST", Path: env.PathAttr, Body: q.XML(rng), CT: "text/xml"})
	}
	class := []string{"sso_error", "logout", "attribute_query", "callback_unknown_id", "callback_signing_failure", "callback_key_fault", "callback_relay_state", "callback_entity_lookup_fault", "attribute_query_storage_fault_with_unusual_text"}[kind]
	r.Eval(class + core.Hex(id))
	viol := func(clause, reason string) {
		r.Violate(core.Violation{Clause: clause, Class: class, Reason: reason, Workload: wl, Index: idx, Case: map[string]any{"id": id}, Observed: call.Describe()})
	}
	if call.Panic != "" {
		viol("panic", call.Panic)
		return
	}
	if checkRelay && call.D.Kind == "redirect" {
		// the emitted query holds each of the protocol's parameters exactly once
		n := map[string]int{}
		for _, kv := range strings.Split(call.D.RawQuery, "&") {
			k, _, _ := strings.Cut(kv, "=")
			n[k]++
		}
		for _, k := range []string{"SAMLResponse", "RelayState", "SigAlg", "Signature"} {
			if n[k] > 1 {
				viol("structure_changed_by_data", fmt.Sprintf("the redirect reply carries the parameter %s %d times (RelayState put in: %q)", k, n[k], wantRelay))
			}
		}
	}
	if checkRelay && (call.D.Kind == "redirect" || call.D.Kind == "form") {
		got := call.D.RelayState
		if call.D.Kind == "form" {
			got, wantRelay = normNL(got), normNL(wantRelay)
		}
		if got != wantRelay {
			viol("value_changed", fmt.Sprintf("RelayState put in %q, RelayState that arrives (%s delivery) %q", wantRelay, call.D.Kind, got))
		}
		r.Count("harvested_relay_states", 1)
	}
	// one reply, one message
	if n := len(reply.AllMessages(call.Rec)); n > 1 || call.D.Forms > 1 || call.D.XMLDocs > 1 {
		viol("several_messages_in_one_reply", fmt.Sprintf("the reply carries %d messages (%d forms, %d XML declarations)", n, call.D.Forms, call.D.XMLDocs))
		return
	}
	if checkRelay && call.D.Kind == "redirect" && call.D.XML == nil {
		viol("message_not_recoverable", "the redirect reply of a completed callback carries no SAMLResponse parameter a URL parser can find: "+clipS(call.D.Location, 200)+" "+call.D.Err)
		return
	}
	if call.D.XML == nil {
		// no SAML message was recognised; a body that is announced as XML still has to be a well-formed document
		if ct := call.Rec.HeaderAtSend.Get("Content-Type"); strings.Contains(strings.ToLower(ct), "xml") && len(bytes.TrimSpace(call.D.Body)) > 0 {
			ok, perr, _, oerr := verify.PyWF(call.D.Body, true)
			if oerr != nil {
				r.Inconclusive("python oracle unavailable: " + oerr.Error())
				return
			}
			r.Count("harvested_xml_bodies_that_are_no_saml_message", 1)
			if !ok {
				viol("not_wellformed", "the reply is sent as "+ct+" and is no well-formed document; expat: "+perr)
			}
			return
		}
		r.Count("harvest_no_message", 1)
		return
	}
	ok, perr, nodes, oerr := verify.PyWF(call.D.XML, true)
	if oerr != nil {
		r.Inconclusive("python oracle unavailable: " + oerr.Error())
		return
	}
	r.Count("harvested_messages", 1)
	if !ok {
		viol("not_wellformed", "expat: "+perr)
		return
	}
	pm := pyMessage(nodes)
	if pm == nil || call.D.Msg == nil {
		viol("no_message", "reply does not contain a protocol message")
		return
	}
	if kind == 3 {
		// the echo travels in the status message; illegal characters may be replaced, nothing else may change
		// (whether the message echoes the id at all is the handler's choice; it is judged when it does)
		if strings.Contains(pm.StatusMessage, fmt.Sprintf("idMKe%dx", idx)) {
			if !strings.Contains(replaceIllegal(pm.StatusMessage), replaceIllegal(id)) {
				viol("echo_changed", fmt.Sprintf("status message %q does not carry the (replaced) id %q", clipS(pm.StatusMessage, 200), clipS(replaceIllegal(id), 200)))
			}
			r.Count("harvested_status_message_echoes", 1)
		} else {
			r.Count("harvested_status_messages_without_echo", 1)
		}
		if pm.StatusCode == "" || pm.Root != "Response" {
			viol("structure_changed_by_data", "the reply is not a Response with a status: root "+pm.Root)
		}
		return
	}
	if kind == 4 || kind == 5 || kind == 7 {
		// the message handed to the sender was a failure response: that, and nothing else, is what must arrive
		if call.D.Success() || pm.HasNameID || pm.AttrValueCount > 0 {
			viol("emitted_message_is_not_the_one_built", fmt.Sprintf("signing failed, yet the reply decodes to status %q with subject %q and %d attribute values", pm.StatusCode, pm.NameID, pm.AttrValueCount))
		}
		r.Count("harvested_signing_failure_replies", 1)
	}
	// a reply that names the request names it exactly (error replies need not name it)
	if pm.InResponseTo == "" && call.D.Msg.InResponseTo == "" && !call.D.Success() {
		r.Count("harvested_replies_without_in_response_to", 1)
	} else if pm.InResponseTo != id || call.D.Msg.InResponseTo != id {
		viol("echo_changed", fmt.Sprintf("InResponseTo expat %q / etree %q, request ID %q", pm.InResponseTo, call.D.Msg.InResponseTo, id))
	}
	if d := diffMessages(call.D.Msg, pm); d != "" {
		viol("parsers_disagree", d)
	}
}

// c18Metadata: the metadata document is a protocol message too. One provider serves it several times, the first
// time (or a later time) while a key cannot be read: every reply with status 200 is one well-formed EntityDescriptor
// that carries the configured values exactly; a failure is an error status, never an empty or partial document.
func c18Metadata(r *core.Run, idx int, rng *rand.Rand) {
	const wl = "metadata_documents"
	org := &provider.Organisation{Name: "Org " + legalXMLString(rng, 4), DisplayName: "Display " + legalXMLString(rng, 4), URL: "https://org.example/" + plainString(rng, 4)}
	o := env.Opts{Org: org, MetaSigAlg: []string{"", spsim.AlgRSASHA256}[idx%2]}
	host := ""
	if idx%3 == 1 {
		// a host-derived entity ID: internationalised names in their ASCII form, names with runs of hyphens
		o.HostPath = []string{"", "/saml", "/a--b"}[rng.Intn(3)]
		host = []string{"xn--bcher-kva.example", "my--company.example", "xn--80ak6aa92e.example:8443", "a---b.idp.example", "plain.idp.example"}[rng.Intn(5)]
	}
	e := env.Static(o)
	faultAt := idx % 4 // which of the requests meets the key fault (3 = none)
	fk := []string{sim.FaultError, sim.FaultTimeout, sim.FaultNilRecord, sim.FaultKeyNoCert, sim.FaultCertNoKey, sim.FaultPoolClosed}[rng.Intn(6)]
	op := []string{"GetResponseSigningKey", "GetMetadataSigningKey"}[rng.Intn(2)]
	for k := 0; k < 4; k++ {
		tag := fmt.Sprintf("md%d-%d", idx, k)
		e.W.Plan = nil
		if k == faultAt {
			e.W.Plan = func(t, o string, _ int) string {
				if t == tag && o == op {
					return fk
				}
				return ""
			}
		}
		call := e.Do(env.Req{Path: env.PathMetadata, Tag: tag, Host: host})
		class := fmt.Sprintf("metadata|request_%d|fault_at=%d|signed=%v|host_derived=%v", k, faultAt, o.MetaSigAlg != "", host != "")
		desc := map[string]any{"request": k, "fault_at_request": faultAt, "fault": fk, "failing_operation": op, "organisation": org}
		viol := func(clause, reason string) {
			r.Violate(core.Violation{Clause: clause, Class: class, Reason: reason, Workload: wl, Index: idx, Case: desc, Observed: call.Describe()})
		}
		r.Eval(fmt.Sprintf("%s|%s|%s", class, fk, op))
		if call.Panic != "" {
			viol("panic", call.Panic)
			return
		}
		if call.D.Status != 200 {
			r.Count("metadata_error_replies", 1)
			continue
		}
		r.Count("metadata_documents_served", 1)
		ok, perr, nodes, err := verify.PyWF(call.D.Body, true)
		if err != nil {
			r.Inconclusive("python oracle unavailable: " + err.Error())
			return
		}
		if !ok || len(nodes) == 0 {
			viol("not_wellformed", fmt.Sprintf("status 200, but the body (%d bytes) is not one well-formed XML document: %s", len(call.D.Body), perr))
			continue
		}
		if nodes[0].Local != "EntityDescriptor" || nodes[0].Attrs["entityID"] == "" {
			viol("structure_changed_by_data", fmt.Sprintf("root element %q, entityID %q", nodes[0].Local, nodes[0].Attrs["entityID"]))
			continue
		}
		// configured values come back exactly (they are legal XML strings)
		got := map[string]string{}
		for _, n := range nodes {
			switch n.Local {
			case "OrganizationName", "OrganizationDisplayName", "OrganizationURL":
				if _, dup := got[n.Local]; !dup {
					got[n.Local] = n.Text
				}
			}
		}
		for k, want := range map[string]string{"OrganizationName": org.Name, "OrganizationDisplayName": org.DisplayName, "OrganizationURL": org.URL} {
			if got[k] != want {
				viol("value_changed", fmt.Sprintf("%s reads %q, configured %q", k, got[k], want))
			}
		}
	}
}

func init() {
	register(&Prop{
		ID: "C18", Level: "exploration", DeathIsViolation: true,
		TimeoutQuick: 5 * time.Minute, TimeoutThorough: 30 * time.Minute,
		Build: func(c *Ctx) []core.Workload {
			r := c.Run
			r.Rule = "(A) codec: InflateAndDecode(DEFLATE, base64, DeflateAndBase64(b)) = b for byte strings of 0 B - 4 MiB (zero, random, repetitive, text), cross-checked with the harness's own base64+inflate; every near-miss encoding identifier is an error. (B) Response / SOAP envelope / LogoutResponse / EntityDescriptor values with arbitrary strings in every string field (legal XML characters incl. metacharacters, CDATA terminators, CR/LF/TAB; or illegal control characters, surrogate / overlong / invalid UTF-8) are passed through the exported Marshal / WriteXMLMarshalled: the bytes must be one well-formed document for expat, its element / attribute skeleton must equal the skeleton of the same value with neutral strings, legal values must come back exactly from expat and from the library decoders, illegal ones only replaced by U+FFFD. (C) replies of the real handlers that echo attacker-chosen request IDs, or - in the status message - what storage says about an attacker-chosen callback id made of arbitrary bytes, are harvested and checked the same way. Distinct = inputs by hash."
			r.Assume("codec inputs are at most 4 MiB (the decoder deliberately rejects inflated sizes above its cap, see C14)")
			r.Require("codec_round_trips", int64(c.Pick(3000, 30000)))
			r.Require("unknown_encoding_probes", 1000)
			r.Require("structure_preserved", int64(c.Pick(1500, 15000)))
			r.Require("legal_value_round_trips", 500)
			r.Require("harvested_messages", 300)
			return []core.Workload{
				{Name: "codec", N: c.Pick(130, 1300), Fn: c18Codec},
				{Name: "built_messages", N: 1, Workers: 1, Fn: c18BuiltHelper(c.Pick(260, 2600))},
				{Name: "harvested_replies", N: c.Pick(600, 6000), Fn: c18Harvest},
				{Name: "messages_built_side_by_side", N: c.Pick(12, 120), Fn: c18SideBySide},
				{Name: "metadata_documents", N: c.Pick(120, 1200), Fn: c18Metadata},
			}
		},
		After: func(c *Ctx) { verify.Py.Close() },
	})
}

// c18SideBySide: eight clients complete logins of eight different users on one provider at the same time while two
// more keep asking for metadata and sending attribute queries. Every Success message decodes to the values that were
// put in for ITS user: each attribute value carries its user's canary, the NameID is the user's name.
func c18SideBySide(r *core.Run, idx int, rng *rand.Rand) {
	const wl = "messages_built_side_by_side"
	e := env.Static(env.Opts{})
	e.W.NoLog = true
	d := stdSP(0)
	mustRegister(e.W, d, "a")
	type sess struct {
		sc     *cbScenario
		canary string
	}
	var ss []sess
	for g := 0; g < 8; g++ {
		canary := fmt.Sprintf("MK%dg%dx", idx, g)
		sc := randScenario(rng, canary, false)
		sc.Host = ""
		sc.S.Binding = []string{spsim.BindPost, spsim.BindRedirect}[g%2]
		sc.install(e.W)
		ss = append(ss, sess{sc, canary})
	}
	qUser := randUser(rng, fmt.Sprintf("U_MK%dqx", idx), false)
	e.W.AddUser(qUser)
	var wg sync.WaitGroup
	var mu sync.Mutex
	bad := ""
	var badCall *env.Call
	stop := make(chan struct{})
	for g := 0; g < 2; g++ {
		wg.Add(1)
		go func(g int) {
			defer wg.Done()
			lr := rand.New(rand.NewSource(int64(idx*10 + g)))
			for {
				select {
				case <-stop:
					return
				default:
				}
				if g == 0 {
					e.Do(env.Req{Path: env.PathMetadata})
				} else {
					q := conformantQuery(lr, d, qUser.Username)
					e.Do(env.Req{Method: "POST", Path: env.PathAttr, Body: q.XML(lr), CT: "text/xml"})
				}
			}
		}(g)
	}
	var cw sync.WaitGroup
	for g := range ss {
		cw.Add(1)
		go func(x sess) {
			defer cw.Done()
			for k := 0; k < 6; k++ {
				call := x.sc.callback(e)
				if call.Panic != "" || call.D.Msg == nil || !call.D.Success() {
					continue
				}
				why := ""
				if call.D.Msg.NameID != x.sc.U.Username {
					why = fmt.Sprintf("NameID %q, user %q", call.D.Msg.NameID, x.sc.U.Username)
				}
				n := 0
				for _, a := range call.D.Msg.Attributes {
					for _, v := range a.Values {
						n++
						if !strings.Contains(v, x.canary) {
							why = fmt.Sprintf("attribute %q has the value %q, which is not a value of user %q", a.Name, v, x.sc.U.Username)
						}
					}
				}
				if n == 0 && len(refAttributes(x.sc.U)) > 0 {
					why = "the message carries no attribute value at all although the user has some"
				}
				mu.Lock()
				if why != "" && bad == "" {
					bad, badCall = why, call
				}
				mu.Unlock()
			}
		}(ss[g])
	}
	cw.Wait()
	close(stop)
	wg.Wait()
	r.Eval(fmt.Sprintf("side_by_side|%d", idx))
	r.Count("messages_built_while_others_were_being_built", 48)
	if bad != "" {
		r.Violate(core.Violation{Clause: "value_changed", Class: "side_by_side", Reason: "a Success message built while other messages were being built does not decode to the values put in: " + bad, Workload: wl, Index: idx, Observed: badCall.Describe()})
	}
}
