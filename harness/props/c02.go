package props

import (
	"fmt"
	"math/rand"
	"net/url"
	"strings"
	"time"

	"verif/harness/core"
	"verif/harness/env"
	"verif/harness/reply"
	"verif/harness/spsim"
)

// C02 — SAML responses are only ever delivered to registered endpoints.

var evilCounter = 0

func evilURL(rng *rand.Rand) string {
	return "https://evil-" + randHex(rng, 5) + ".example/collect"
}

// hostileEndpoint draws a registered endpoint URL with URL / HTML / XML special characters.
func hostileEndpoint(rng *rand.Rand, host string, k int, redirectSafe bool) string {
	// mostly https on the default port; now and then plain http (intranet consumers) and explicit ports
	origin := []string{"https://" + host, "https://" + host, "https://" + host, "http://" + host + ":8080", "http://" + host, "https://" + host + ":8443", "http://localhost:3000", "http://10.1.2.3"}[rng.Intn(8)]
	base := fmt.Sprintf("%s/ep/%d", origin, k)
	suf := []string{"", "", "?a=1&b=2", "?q=%22x%22", "/pa%20th", "/caf%C3%A9", "?r=https%3A%2F%2Fother.example%2F", "/a;b=c", "?x=1&amp;y=2", "/%41%2f", "?empty=", "/'single'", "/(paren)", "/a+b", "/~user", "?a[]=1"}
	if !redirectSafe {
		suf = append(suf, "/pa th", "/<b>", "/\"dq\"", "/ü", "/中", "?q=\"x\"&r=<y>", "/a\tb", "/`bt`", "/{{x}}", "?a=1 b=2", "/\\back")
	}
	return base + suf[rng.Intn(len(suf))]
}

// deliveryTargetOK checks a delivery target against a registered URL.
func deliveryTargetOK(d *reply.Decoded, registered string) bool {
	switch d.Kind {
	case "form":
		return onlyEncodes(registered, d.Target)
	case "redirect":
		return d.Target == hexEscapeNonASCII(registered)
	}
	return false
}

func evilIn(ss ...string) string {
	for _, s := range ss {
		if i := strings.Index(s, "evil-"); i >= 0 {
			return s
		}
	}
	return ""
}

// overrideParams are request parameters named like plausible target overrides.
func overrideParams(rng *rand.Rand) []string {
	names := []string{"AssertionConsumerServiceURL", "acs", "ACSUrl", "ReturnTo", "return_to", "Destination", "redirect_uri", "target", "TARGET", "LogoutURL", "SingleLogoutService", "RelayStateURL", "callback", "url"}
	var kv []string
	for i := 1 + rng.Intn(3); i > 0; i-- {
		kv = append(kv, names[rng.Intn(len(names))], evilURL(rng))
	}
	return kv
}

func c02SSO(r *core.Run, idx int, rng *rand.Rand) {
	const wl = "sso_targets"
	c := conformantSSO(rng)
	c.Host = ""
	if c.Req.Destination != "" {
		c.Req.Destination = idpSSO
	}
	// registered consumer services: any mix, hostile URLs
	c.SPD.ACS = nil
	n := 1 + rng.Intn(5)
	for k := 0; k < n; k++ {
		b := []string{spsim.BindPost, spsim.BindPost, spsim.BindRedirect, spsim.BindRedirect, spsim.BindArtifact, otherSAMLBindings[0], otherSAMLBindings[rng.Intn(len(otherSAMLBindings))]}[rng.Intn(7)]
		c.SPD.ACS = append(c.SPD.ACS, spsim.ACS{Binding: b, Location: hostileEndpoint(rng, "spa.example", k, false),
			Index: []string{"0", "1", "2", "7", "65535"}[rng.Intn(5)], IsDefault: []string{"", "", "true", "false", "1", "0"}[rng.Intn(6)]})
		if rng.Intn(5) == 0 {
			// the endpoint type's optional ResponseLocation attribute on a consumer service: the registered pair stays
			// (Location, Binding)
			c.SPD.ACS[k].ResponseLocation = []string{"https://spa.example/response-location/" + randHex(rng, 3), evilURL(rng), c.SPD.ACS[k].Location}[rng.Intn(3)]
			r.Count("consumer_services_with_a_response_location", 1)
		}
	}
	if rng.Intn(4) == 0 {
		// the service provider's document is also offered inside an aggregate, behind another entity with a consumer
		// service of its own (a registration that refuses aggregates is as good as one that picks the right entity)
		spDoc := strings.TrimSpace(strings.TrimPrefix(strings.TrimSpace(string(c.SPD.XML())), `<?xml version="1.0" encoding="UTF-8"?>`))
		foreign := `<md:EntityDescriptor xmlns:md="` + spsim.NSMD + `" entityID="https://evil-aggregate.example/metadata"><md:SPSSODescriptor protocolSupportEnumeration="` + spsim.NSP + `"><md:AssertionConsumerService Binding="` + spsim.BindPost + `" Location="https://evil-aggregate.example/acs" index="0" isDefault="true"/><md:AssertionConsumerService Binding="` + spsim.BindRedirect + `" Location="https://evil-aggregate.example/acs-r" index="1"/></md:SPSSODescriptor></md:EntityDescriptor>`
		c.AlsoRegister = append(c.AlsoRegister, `<md:EntitiesDescriptor xmlns:md="`+spsim.NSMD+`">`+foreign+spDoc+`</md:EntitiesDescriptor>`)
		r.Count("registrations_also_offered_as_an_aggregate", 1)
	}
	other := stdSP(1)
	other.EntityID = "https://spb.example/metadata"
	other.ACS = []spsim.ACS{{Binding: spsim.BindPost, Location: "https://spb.example/acs", Index: "0"}, {Binding: spsim.BindRedirect, Location: "https://spb.example/acs-r", Index: "1"}}
	c.Others = []*spsim.SPDesc{other}
	// the message tries to steer the reply elsewhere
	switch rng.Intn(6) {
	case 0:
		c.Req.ACSURL = evilURL(rng)
	case 1:
		c.Req.ACSURL = other.ACS[0].Location
	case 2:
		c.Req.ACSIndex = []string{"1", "99", "-1", "65535"}[rng.Intn(4)]
		c.Req.ACSURL = evilURL(rng)
	case 3:
		c.Req.ProtocolBinding = []string{spsim.BindPost, spsim.BindRedirect, spsim.BindArtifact, "x", otherSAMLBindings[0]}[rng.Intn(5)]
		c.Req.ACSURL = evilURL(rng)
	case 4:
		// near misses of a registered URL: "the same endpoint" for a lenient comparison, another origin / target for a browser
		reg := c.SPD.ACS[rng.Intn(len(c.SPD.ACS))].Location
		switch rng.Intn(6) {
		case 0:
			c.Req.ACSURL = reg + ".evil-" + randHex(rng, 3) + ".example"
		case 1:
			c.Req.ACSURL = strings.Replace(reg, "https://spa.example", "https://spa.example:8443", 1)
		case 2:
			sep := "?"
			if strings.Contains(reg, "?") {
				sep = "&"
			}
			c.Req.ACSURL = reg + sep + "next=" + evilURL(rng)
		case 3:
			c.Req.ACSURL = strings.Replace(reg, "https://spa.example", "https://SPA.Example", 1)
		case 4:
			c.Req.ACSURL = strings.Replace(reg, "/ep/", "/ep%2F", 1)
		default:
			c.Req.ACSURL = reg + "#" + evilURL(rng)
		}
		if c.Req.ACSURL == reg {
			c.Req.ACSURL = reg + "/x"
		}
	}
	c.HasRel, c.Relay = true, evilURL(rng)
	if rng.Intn(5) == 0 {
		c.Relay += "?" + strings.Repeat(plainString(rng, 40)+"&", 150+rng.Intn(200)) // 6-14 kB: very long redirect URLs
	}
	// outcome mix: accepted, or failing at some step after the consumer service is known, or before
	fail := []string{"", "", "destination_wrong", "conditions_expired", "id_empty", "version_empty", "issuer_unregistered", "unsigned_but_required", "persist_fails", "not_wellformed"}[rng.Intn(10)]
	var mod func(e *env.Env)
	switch fail {
	case "":
	case "unsigned_but_required":
		c.Signed = false
		c.SPD.AuthnRequestsSigned = "true"
	case "persist_fails":
		mod = func(e *env.Env) {
			e.W.Plan = func(tag, op string, occ int) string {
				if op == "CreateAuthRequest" {
					return "error"
				}
				return ""
			}
		}
	default:
		for _, dv := range c06Deviations {
			if dv.Name == fail {
				dv.Apply(rng, c)
			}
		}
	}
	c.Labels = []string{"sso", fail}
	c.WireEdit = func(s *ssoSend) { s.Extra = append(s.Extra, overrideParams(rng)...) }
	e, call := c.run(rng, mod)
	class := fmt.Sprintf("sso|fail=%s|%s|n_acs=%d", fail, c.Binding, len(c.SPD.ACS))
	desc := c.describe()
	viol := func(clause, reason string) {
		r.Violate(core.Violation{Clause: clause, Class: class, Reason: reason, Workload: wl, Index: idx, Case: desc, Observed: call.Describe()})
	}
	_ = e
	if call.Panic != "" {
		viol("panic", call.Panic)
		return
	}
	d := call.D
	r.Eval(fmt.Sprintf("%s|%s|%d", class, d.Kind, d.Status))
	// persisted pair must be one registered entry of the issuer's SP
	if ev := call.First("CreateAuthRequest"); ev != nil && len(ev.Args) >= 2 {
		r.Count("sso_persist_attempts", 1)
		found := false
		for _, a := range c.SPD.ACS {
			if a.Location == ev.Args[0] && a.Binding == ev.Args[1] {
				found = true
			}
		}
		if !found {
			viol("persisted_pair_not_registered", fmt.Sprintf("CreateAuthRequest(%q, %q) is not an AssertionConsumerService entry of %s", ev.Args[0], ev.Args[1], c.SPD.EntityID))
		}
	}
	if ev := evilIn(d.Target); ev != "" && d.Status != 303 {
		viol("delivered_to_foreign_url", "delivery target "+ev)
	}
	if d.Msg != nil {
		if ev := evilIn(d.Msg.Destination, d.Msg.SCRecipient); ev != "" {
			viol("foreign_destination_in_message", "Destination/Recipient "+ev)
		}
	}
	if d.Kind == "form" || (d.Kind == "redirect" && d.Status == 302) {
		r.Count("sso_error_replies_delivered_to_sp", 1)
		okEntry := false
		wantBinding := spsim.BindPost
		if d.Kind == "redirect" {
			wantBinding = spsim.BindRedirect
		}
		var match string
		for _, a := range c.SPD.ACS {
			if a.Binding == wantBinding && deliveryTargetOK(d, a.Location) {
				okEntry = true
				match = a.Location
			}
		}
		if !okEntry {
			viol("target_not_registered", fmt.Sprintf("%s delivery to %q is not a registered %s consumer service of the issuer's SP", d.Kind, d.Target, wantBinding))
		} else if d.Msg != nil && d.Msg.Destination != match {
			// several registered entries may only-encode to the same action; accept any of them
			alt := false
			for _, a := range c.SPD.ACS {
				if a.Binding == wantBinding && a.Location == d.Msg.Destination && deliveryTargetOK(d, a.Location) {
					alt = true
				}
			}
			if !alt {
				viol("destination_differs_from_target", fmt.Sprintf("message Destination %q, delivery target %q", d.Msg.Destination, d.Target))
			}
		}
	} else if d.Kind == "xml-body" && d.Msg != nil && d.Msg.Destination != "" {
		reg := false
		for _, a := range c.SPD.ACS {
			if a.Location == d.Msg.Destination {
				reg = true
			}
		}
		if !reg {
			viol("foreign_destination_in_message", "Destination "+d.Msg.Destination+" is not registered")
		}
	}
	if idx < 6 {
		r.Sample("sso", map[string]any{"class": class, "acs": c.SPD.ACS, "kind": d.Kind, "target": d.Target})
	}
}

func c02Callback(r *core.Run, idx int, rng *rand.Rand) {
	const wl = "callback_targets"
	canary := fmt.Sprintf("MK%dx", idx)
	sc := randScenario(rng, canary, false)
	sc.Host = ""
	sc.Opts.HostPath = ""
	sc.S.ACS = hostileEndpoint(rng, strings.ToLower(canary)+".sp.example", rng.Intn(3), false)
	sc.S.RelayState = evilURL(rng)
	if rng.Intn(5) == 0 {
		sc.S.RelayState += "?" + strings.Repeat(plainString(rng, 40)+"&", 150+rng.Intn(200))
	}
	if rng.Intn(6) == 0 {
		// a stored request without consumer URL whose other fields (taken from the protocol message when it was
		// persisted) name URLs: none of them is a delivery target, the reply stays in the HTTP body
		sc.S.ACS = ""
		sc.S.Destination = evilURL(rng)
		if rng.Intn(2) == 0 {
			sc.S.Issuer = evilURL(rng)
		}
		r.Count("stored_requests_without_consumer_url", 1)
	}
	state := idx % 3 // done, pending, done+late failure
	if state == 1 {
		sc.Done = false
	}
	e := sc.build()
	if state == 2 {
		e.W.ForgetUser(sc.U.UserID)
	}
	kv := overrideParams(rng)
	q := "id=" + url.QueryEscape(sc.S.ID)
	body := ""
	for i := 0; i+1 < len(kv); i += 2 {
		if rng.Intn(2) == 0 {
			q += "&" + url.QueryEscape(kv[i]) + "=" + url.QueryEscape(kv[i+1])
		} else {
			body += "&" + url.QueryEscape(kv[i]) + "=" + url.QueryEscape(kv[i+1])
		}
	}
	method := "GET"
	if body != "" {
		method = "POST"
		body = body[1:]
	}
	call := e.Do(env.Req{Method: method, Path: env.PathLogin, Query: q, Body: body})
	bind := sc.S.Binding[strings.LastIndex(sc.S.Binding, ":")+1:]
	class := fmt.Sprintf("callback|state=%d|%s", state, bind)
	desc := map[string]any{"stored_request": sc.S, "query": clipS(q, 600), "body": clipS(body, 600)}
	viol := func(clause, reason string) {
		r.Violate(core.Violation{Clause: clause, Class: class, Reason: reason, Workload: wl, Index: idx, Case: desc, Observed: call.Describe()})
	}
	if call.Panic != "" {
		viol("panic", call.Panic)
		return
	}
	d := call.D
	r.Eval(fmt.Sprintf("%s|%s|%v", class, d.Kind, hasC14NSpecial(sc.S.ACS, true)))
	wantKind := "form"
	if sc.S.Binding == spsim.BindRedirect {
		wantKind = "redirect"
	}
	if d.Msg == nil {
		// nothing is handed to the browser for delivery (a plain error page): no target to judge
		r.Count("callback_without_message", 1)
		return
	}
	r.Count("callback_replies_"+d.Kind, 1)
	if sc.S.ACS == "" {
		if d.Kind != "xml-body" {
			viol("target_not_stored_url", fmt.Sprintf("the stored request has no consumer URL, the reply was delivered as %s to %q", d.Kind, d.Target))
		} else if ev := evilIn(d.Msg.Destination, d.Msg.SCRecipient); ev != "" {
			viol("foreign_destination_in_message", "Destination/Recipient "+ev)
		}
		return
	}
	if d.Kind != wantKind {
		viol("delivery_binding", fmt.Sprintf("stored binding %s but reply delivered as %s", bind, d.Kind))
		return
	}
	if !deliveryTargetOK(d, sc.S.ACS) {
		viol("target_not_stored_url", fmt.Sprintf("delivery target %q, stored consumer URL %q", d.Target, sc.S.ACS))
	}
	if d.Msg.Destination != sc.S.ACS {
		viol("destination_not_stored_url", fmt.Sprintf("Destination %q, stored %q", d.Msg.Destination, sc.S.ACS))
	}
	if d.Success() && d.Msg.SCRecipient != sc.S.ACS {
		viol("recipient_not_stored_url", fmt.Sprintf("Recipient %q, stored %q", d.Msg.SCRecipient, sc.S.ACS))
	}
	if idx < 4 {
		r.Sample("callback", map[string]any{"class": class, "stored_acs": sc.S.ACS, "target": d.Target, "success": d.Success()})
	}
}

func c02Logout(r *core.Run, idx int, rng *rand.Rand) {
	const wl = "logout_targets"
	e := env.Static(env.Opts{})
	d := stdSP(0)
	d.SLO = nil
	for k := rng.Intn(4); k > 0; k-- {
		d.SLO = append(d.SLO, spsim.SLO{Binding: []string{spsim.BindPost, spsim.BindRedirect, spsim.BindSOAP}[rng.Intn(3)], Location: hostileEndpoint(rng, "spa.example", k, false)})
	}
	mustRegister(e.W, d, "appA")
	other := stdSP(1)
	mustRegister(e.W, other, "appB")
	l := conformantLogout(rng, d)
	l.Destination = []string{"", idpSLO, evilURL(rng)}[rng.Intn(3)]
	fail := []string{"", "", "expired", "future", "issuer_unregistered", "undecodable"}[rng.Intn(6)]
	switch fail {
	case "expired":
		l.NotOnOrAfter = tsFrac(time.Now().Add(-time.Hour), 0)
	case "future":
		l.IssueInstant = tsFrac(time.Now().Add(time.Hour), 0)
	case "issuer_unregistered":
		l.Issuer = "https://unknown.example/metadata"
	}
	x := l.XML(rng)
	if fail == "undecodable" {
		x = x[:len(x)/2]
	}
	s := ssoSend{Path: env.PathSLO, Binding: []string{"redirect", "post"}[rng.Intn(2)], XML: x, HasRelay: true, Relay: evilURL(rng)}
	s.Extra = overrideParams(rng)
	call, _ := s.do(e)
	class := fmt.Sprintf("logout|fail=%s|n_slo=%d|%s", fail, len(d.SLO), s.Binding)
	desc := map[string]any{"slo": d.SLO, "fail": fail, "xml": clipS(x, 1500)}
	viol := func(clause, reason string) {
		r.Violate(core.Violation{Clause: clause, Class: class, Reason: reason, Workload: wl, Index: idx, Case: desc, Observed: call.Describe()})
	}
	if call.Panic != "" {
		viol("panic", call.Panic)
		return
	}
	dd := call.D
	r.Eval(fmt.Sprintf("%s|%s", class, dd.Kind))
	r.Count("logout_replies_"+dd.Kind, 1)
	if ev := evilIn(dd.Target); ev != "" {
		viol("delivered_to_foreign_url", "delivery target "+ev)
	}
	if dd.Msg != nil {
		if ev := evilIn(dd.Msg.Destination); ev != "" {
			viol("foreign_destination_in_message", "Destination "+ev)
		}
	}
	switch dd.Kind {
	case "form", "redirect":
		// the statement asks for a registered location of the requester (C13 is the check that asks for the first one)
		var hit *spsim.SLO
		for i := range d.SLO {
			if deliveryTargetOK(dd, d.SLO[i].Location) {
				hit = &d.SLO[i]
				break
			}
		}
		if len(d.SLO) == 0 || fail == "issuer_unregistered" || fail == "undecodable" {
			viol("target_without_registration", dd.Kind+" delivery to "+dd.Target+" although no SingleLogoutService is known for the requester")
		} else if hit == nil {
			viol("target_not_registered", fmt.Sprintf("%s delivery to %q, registered SingleLogoutService locations %v", dd.Kind, dd.Target, d.SLO))
		} else if dd.Msg != nil && dd.Msg.Destination != hit.Location {
			viol("destination_differs_from_target", fmt.Sprintf("Destination %q, SingleLogoutService delivered to %q", dd.Msg.Destination, hit.Location))
		}
	}
	// afterwards, on the same provider: a request that names nobody (it does not decode, has no Issuer, or names a
	// stranger). Its reply has no registered party to go to, whoever was served before
	if idx%2 == 0 {
		l2 := conformantLogout(rng, d)
		kind := []string{"undecodable", "no_issuer_element", "issuer_unregistered", "not_base64"}[rng.Intn(4)]
		switch kind {
		case "no_issuer_element":
			l2.NoIssuer = true
		case "issuer_unregistered":
			l2.Issuer = "https://nobody-" + randHex(rng, 3) + ".example/metadata"
		}
		x2 := l2.XML(rng)
		if kind == "undecodable" {
			x2 = x2[:len(x2)/3]
		}
		s2 := ssoSend{Path: env.PathSLO, Binding: []string{"redirect", "post"}[rng.Intn(2)], XML: x2, HasRelay: true, Relay: "MKfollowup"}
		if kind == "not_base64" {
			s2.rawSAMLRequest, s2.forceRaw = "%%%not-base64%%%", true
		}
		call2, _ := s2.do(e)
		r.Count("logout_followed_by_a_request_that_names_nobody", 1)
		if call2.Panic == "" && (call2.D.Kind == "form" || call2.D.Kind == "redirect") {
			r.Violate(core.Violation{Clause: "target_without_registration", Class: "logout_followup|" + kind, Reason: fmt.Sprintf("the reply to a request that names nobody (%s) was delivered as %s to %q after a logout of %s had been served", kind, call2.D.Kind, call2.D.Target, d.EntityID), Workload: wl, Index: idx,
				Case: map[string]any{"first": desc, "followup": kind}, Observed: call2.Describe()})
		}
	}
}

// c02Registration keeps ONE provider alive while the requester's consumer services are re-registered:
// what is persisted and where error replies go must follow the current registration.
func c02Registration(r *core.Run, idx int, rng *rand.Rand) {
	const wl = "registration_changes"
	e := env.Static(env.Opts{})
	d := stdSP(0)
	d.AuthnRequestsSigned = ""
	version := 0
	reg := func() {
		d2 := *d
		b := []string{spsim.BindPost, spsim.BindRedirect}[rng.Intn(2)]
		d2.ACS = []spsim.ACS{
			{Binding: b, Location: fmt.Sprintf("https://sp0.example/acs/v%d", version), Index: "1"},
			{Binding: spsim.BindPost, Location: fmt.Sprintf("https://sp0.example/acs/v%d/alt", version), Index: "2"},
		}
		if rng.Intn(2) == 0 { // order and indexes change as well
			d2.ACS[0], d2.ACS[1] = d2.ACS[1], d2.ACS[0]
			d2.ACS[0].Index, d2.ACS[1].Index = "5", "3"
		}
		d.ACS = d2.ACS
		if version > 0 && rng.Intn(2) == 0 {
			// the storage refreshes its long-lived object in place instead of building a new one
			if err := e.W.ReplaceMetadataInPlace(d2.EntityID, d2.XML()); err == nil {
				return
			} // (not registered at the moment: registered anew below)
		}
		mustRegister(e.W, &d2, "appA")
	}
	reg()
	e.W.NilForUnknown = rng.Intn(2) == 0
	for k := 0; k < 8; k++ {
		if rng.Intn(3) == 0 {
			version++
			reg()
		}
		if k > 0 && rng.Intn(4) == 0 {
			// the requester's registration is revoked: whatever was known about it before, a request in its name is
			// neither persisted nor answered at any of its former endpoints
			e.W.RemoveSP(d.EntityID)
			var call *env.Call
			if rng.Intn(2) == 0 {
				a := validAuthn(rng, d)
				s := ssoSend{Binding: []string{"redirect", "post"}[rng.Intn(2)], XML: a.XML(rng), HasRelay: true, Relay: "MKrelay"}
				call, _ = s.do(e)
			} else {
				l := conformantLogout(rng, d)
				s := ssoSend{Path: env.PathSLO, Binding: []string{"redirect", "post"}[rng.Intn(2)], XML: l.XML(rng), HasRelay: true, Relay: "MKrelay"}
				call, _ = s.do(e)
			}
			r.Count("requests_in_the_name_of_a_revoked_registration", 1)
			if call.Panic == "" && (call.Accepted() || call.D.Kind == "form" || call.D.Kind == "redirect") {
				r.Violate(core.Violation{Clause: "delivered_although_requester_unknown", Class: fmt.Sprintf("registration|step=%d|revoked", k), Reason: fmt.Sprintf("the requester's registration was revoked, yet the request was persisted (%v) or answered by %s delivery to %q", call.Accepted(), call.D.Kind, call.D.Target), Workload: wl, Index: idx, Observed: call.Describe()})
			}
			reg()
		}
		a := validAuthn(rng, d)
		a.ProtocolBinding = []string{"", spsim.BindPost, spsim.BindRedirect, spsim.BindArtifact}[rng.Intn(4)]
		fail := rng.Intn(3) == 0
		if fail {
			a.Destination = "https://wrong.example/SSO"
		}
		early := rng.Intn(4) == 0 // fails before any consumer service is known: nothing may be delivered to an SP
		if early {
			a.Issuer = "https://unregistered-" + randHex(rng, 3) + ".example/metadata"
		}
		s := ssoSend{Binding: []string{"redirect", "post"}[rng.Intn(2)], XML: a.XML(rng), HasRelay: true, Relay: "MKrelay"}
		if early && rng.Intn(2) == 0 {
			s.XML = "<broken"
		}
		call, _ := s.do(e)
		if early {
			r.Count("registration_sequence_early_failures", 1)
			if call.Panic == "" && (call.D.Kind == "form" || call.D.Kind == "redirect") {
				r.Violate(core.Violation{Clause: "delivered_although_requester_unknown", Class: fmt.Sprintf("registration|step=%d|early_failure", k), Reason: fmt.Sprintf("a request that fails before its service provider is known was answered by %s delivery to %q", call.D.Kind, call.D.Target), Workload: wl, Index: idx, Observed: call.Describe()})
			}
			continue
		}
		class := fmt.Sprintf("registration|version=%d|step=%d|fail=%v", version, k, fail)
		desc := map[string]any{"step": k, "current_acs": d.ACS, "requested_binding": a.ProtocolBinding}
		r.Eval(fmt.Sprintf("%s|%d", class, idx))
		r.Count("registration_sequence_requests", 1)
		viol := func(clause, reason string) {
			r.Violate(core.Violation{Clause: clause, Class: class, Reason: reason, Workload: wl, Index: idx, Case: desc, Observed: call.Describe()})
		}
		if call.Panic != "" {
			viol("panic", call.Panic)
			return
		}
		cur := func(url, binding string) bool {
			for _, x := range d.ACS {
				if x.Location == url && (binding == "" || x.Binding == binding) {
					return true
				}
			}
			return false
		}
		if ev := call.First("CreateAuthRequest"); ev != nil && len(ev.Args) >= 2 && !cur(ev.Args[0], ev.Args[1]) {
			viol("persisted_pair_not_current_registration", fmt.Sprintf("CreateAuthRequest(%q, %q) is not an entry of the current registration (version %d)", ev.Args[0], ev.Args[1], version))
		}
		dd := call.D
		if dd.Kind == "form" || (dd.Kind == "redirect" && dd.Status == 302) {
			ok := false
			for _, x := range d.ACS {
				if deliveryTargetOK(dd, x.Location) {
					ok = true
				}
			}
			if !ok {
				viol("target_not_current_registration", fmt.Sprintf("reply delivered to %q, current registration (version %d) has %v", dd.Target, version, d.ACS))
			}
			r.Count("registration_targets_checked", 1)
		}
	}
}

func init() {
	register(&Prop{
		ID: "C02", Level: "exploration", DeathIsViolation: true,
		TimeoutQuick: 5 * time.Minute, TimeoutThorough: 30 * time.Minute,
		Build: func(c *Ctx) []core.Workload {
			r := c.Run
			r.Rule = "SSO requests naming foreign AssertionConsumerServiceURL / Index / ProtocolBinding, a URL as RelayState and extra parameters named like target overrides, against SP metadata with 1-5 consumer services (any binding/index/isDefault mix, URLs with query strings and URL/HTML/XML special characters), succeeding or failing at several steps; callbacks for stored requests with hostile consumer URLs and override parameters; logout requests with foreign Destination against 0-3 SingleLogoutService entries. Monitor: the (URL, binding) pair handed to CreateAuthRequest is one registered entry; every form action / Location is a registered URL of the issuer's SP (form: 'only-encodes' relation, redirect: exact after non-ASCII escaping) with the matching binding, resp. the stored URL at the callback, resp. a registered SingleLogoutService location (C13 asks for the first one); Destination / Recipient equal it; no canary host evil-*.example ever appears as target or Destination. A further workload keeps ONE provider alive while the requester's consumer services are re-registered between requests. Distinct = (endpoint, failure kind, transport, list size, reply kind)."
			r.Assume("registered endpoint URLs are absolute http(s) URLs without fragment")
			r.Require("sso_persist_attempts", 50)
			r.Require("callback_replies_form", 50)
			r.Require("callback_replies_redirect", 50)
			r.Require("logout_replies_form", 50)
			r.Require("registration_sequence_early_failures", 50)
			r.Require("tenant_sequence_requests", 100)
			return []core.Workload{
				{Name: "callback_histories", N: c.Pick(120, 1200), Fn: cbHistory("C02")},
				{Name: "sso_targets", N: c.Pick(900, 9000), Fn: c02SSO},
				{Name: "callback_targets", N: c.Pick(400, 4000), Fn: c02Callback},
				{Name: "logout_targets", N: c.Pick(400, 4000), Fn: c02Logout},
				{Name: "registration_changes", N: c.Pick(150, 1500), Fn: c02Registration},
				{Name: "tenant_sequences", N: c.Pick(120, 1200), Fn: func(r *core.Run, idx int, rng *rand.Rand) {
					tenantSequence(r, "tenant_sequences", idx, rng, true, false)
				}},
				{Name: "tenants_overlapping", N: c.Pick(30, 300), Fn: func(r *core.Run, idx int, rng *rand.Rand) { tenantOverlap(r, "tenants_overlapping", idx, rng) }},
			}
		},
	})
}
