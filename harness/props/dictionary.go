package props

import (
	"go/scanner"
	"go/token"
	"os"
	"path/filepath"
	"sort"
	"strconv"
	"strings"
	"sync"
)

// repoDictionary returns the string literals of the library's (non-test) source, the way a fuzzer
// builds a dictionary from its target: values a handler may treat specially (placeholders, sentinels,
// prefixes) are exactly the ones worth sending as attacker-controlled input.
var (
	dictOnce sync.Once
	dictVals []string
)

func repoRoot() string {
	if v := os.Getenv("VERIF_REPO"); v != "" {
		return v
	}
	return "/repo"
}

func repoDictionary() []string {
	dictOnce.Do(func() {
		seen := map[string]bool{}
		_ = filepath.Walk(filepath.Join(repoRoot(), "pkg"), func(path string, info os.FileInfo, err error) error {
			if err != nil || info.IsDir() || !strings.HasSuffix(path, ".go") || strings.HasSuffix(path, "_test.go") || strings.Contains(path, "/mock/") {
				return nil
			}
			src, err := os.ReadFile(path)
			if err != nil {
				return nil
			}
			fset := token.NewFileSet()
			var s scanner.Scanner
			s.Init(fset.AddFile(path, fset.Base(), len(src)), src, nil, 0)
			for {
				_, tok, lit := s.Scan()
				if tok == token.EOF {
					break
				}
				if tok != token.STRING {
					continue
				}
				v, err := strconv.Unquote(lit)
				if err != nil || len(v) < 2 || len(v) > 120 || strings.HasPrefix(v, "xml:\"") {
					continue
				}
				seen[v] = true
			}
			return nil
		})
		for v := range seen {
			dictVals = append(dictVals, v)
		}
		sort.Strings(dictVals)
	})
	return dictVals
}
