package props

import (
	"go/scanner"
	"go/token"
	"net/url"
	"os"
	"path/filepath"
	"regexp"
	"sort"
	"strconv"
	"strings"
	"sync"
	"verif/harness/core"
	"verif/harness/env"
)

// repoDictionary returns the string literals of the library's (non-test) source, the way a fuzzer
// builds a dictionary from its target: values a handler may treat specially (placeholders, sentinels,
// prefixes) are exactly the ones worth sending as attacker-controlled input.
var (
	dictOnce sync.Once
	dictVals []string
)

func repoRoot() string {
	if v := os.Getenv("VERIF_REPO"); v != "" {
		return v
	}
	return "/repo"
}

func repoDictionary() []string {
	dictOnce.Do(func() {
		seen := map[string]bool{}
		_ = filepath.Walk(filepath.Join(repoRoot(), "pkg"), func(path string, info os.FileInfo, err error) error {
			if err != nil || info.IsDir() || !strings.HasSuffix(path, ".go") || strings.HasSuffix(path, "_test.go") || strings.Contains(path, "/mock/") {
				return nil
			}
			src, err := os.ReadFile(path)
			if err != nil {
				return nil
			}
			fset := token.NewFileSet()
			var s scanner.Scanner
			s.Init(fset.AddFile(path, fset.Base(), len(src)), src, nil, 0)
			for {
				_, tok, lit := s.Scan()
				if tok == token.EOF {
					break
				}
				if tok != token.STRING {
					continue
				}
				v, err := strconv.Unquote(lit)
				if err != nil || len(v) < 2 || len(v) > 120 || strings.HasPrefix(v, "xml:\"") {
					continue
				}
				seen[v] = true
			}
			return nil
		})
		for v := range seen {
			dictVals = append(dictVals, v)
		}
		sort.Strings(dictVals)
	})
	return dictVals
}

var dictWordRE = regexp.MustCompile(`^[A-Za-z][A-Za-z0-9_.-]{1,23}$`)

// dictWords are the entries of the dictionary that look like a name (of a parameter, a header, an option).
func dictWords() []string {
	var out []string
	for _, w := range repoDictionary() {
		if dictWordRE.MatchString(w) {
			out = append(out, w)
		}
	}
	return out
}

// dictQuery is a query string that carries every name of the dictionary as a parameter (values "", 1, true in turn);
// skip names are left out.
func dictQuery(skip ...string) string {
	var b strings.Builder
next:
	for i, w := range dictWords() {
		for _, s := range skip {
			if strings.EqualFold(s, w) {
				continue next
			}
		}
		if b.Len() > 0 {
			b.WriteByte('&')
		}
		b.WriteString(w + "=" + []string{"", "1", "true"}[i%3])
	}
	return b.String()
}

// protocolParams are the parameter names of the bindings themselves (never sent as noise).
var protocolParams = []string{"SAMLRequest", "SAMLResponse", "SAMLEncoding", "RelayState", "SigAlg", "Signature", "id"}

// dictHeaders are request headers named after every name of the dictionary (and its X- form); header names with a
// meaning for net/http or for the issuer derivation are left out.
func dictHeaders() map[string]string {
	out := map[string]string{}
	for i, w := range dictWords() {
		switch strings.ToLower(w) {
		case "content-type", "content-length", "content-disposition", "host", "forwarded", "transfer-encoding", "connection", "expect", "http", "https":
			continue
		}
		if strings.ContainsAny(w, "._") {
			continue
		}
		v := []string{"1", "true", "on"}[i%3]
		out[w] = v
		if !strings.HasPrefix(strings.ToLower(w), "x-") {
			out["X-"+w] = v
		}
	}
	return out
}

// withUnaskedNames makes every request of the environment carry parameters and headers nobody asked for, named after
// every name the library's source mentions (a switch hidden behind such a name must not change what is refused).
func withUnaskedNames(e *env.Env, r *core.Run) {
	if os.Getenv("VERIF_NO_UNASKED_NAMES") != "" {
		return
	}
	e.ExtraQuery, e.ExtraHeaders = dictQuery(protocolParams...), dictHeaders()
	r.Count("cases_with_unasked_parameter_and_header_names", 1)
}

// dictValues are the entries of the dictionary that look like a value with a meaning in the protocol (URIs: status
// codes, bindings, formats, algorithms) plus a few switch-like words.
func dictValues() []string {
	out := []string{"true", "1", "on", "ok", "success", "Success", "done"}
	for _, w := range repoDictionary() {
		if strings.HasPrefix(w, "urn:") || strings.HasPrefix(w, "http://") || strings.HasPrefix(w, "https://") {
			out = append(out, w)
		}
	}
	return out
}

// dictQueryWith gives every name of the dictionary the same value.
func dictQueryWith(value string, skip ...string) string {
	var b strings.Builder
next:
	for _, w := range dictWords() {
		for _, s := range skip {
			if strings.EqualFold(s, w) {
				continue next
			}
		}
		if b.Len() > 0 {
			b.WriteByte('&')
		}
		b.WriteString(w + "=" + url.QueryEscape(value))
	}
	return b.String()
}

// dictHeadersWith gives every header of dictHeaders the same value.
func dictHeadersWith(value string) map[string]string {
	out := dictHeaders()
	for k := range out {
		out[k] = value
	}
	return out
}
