package props

import (
	"net/http"

	"context"
	"fmt"
	"github.com/zitadel/saml/pkg/provider"
	"math/rand"
	"net/url"
	"sort"
	"strings"
	"sync"
	"sync/atomic"
	"time"
	"verif/harness/reply"

	"verif/harness/core"
	"verif/harness/env"
	"verif/harness/keys"
	"verif/harness/sim"
	"verif/harness/spsim"
	"verif/harness/verify"
)

// C10 — storage and key failures fail closed (fault enumeration).

type c10Scenario struct {
	Name string
	Opts env.Opts
	// run builds a fresh world and returns the function that issues the scenario's request.
	run func(o env.Opts) (*env.Env, func() *env.Call)
}

// Run issues the request on a fresh provider with the plan installed. With warm, the same request is
// first served fault-free on the same provider (so that anything the provider remembers from a good
// request - keys, metadata, service providers - is in place when the fault strikes).
func (sc *c10Scenario) Run(o env.Opts, plan sim.FaultPlan, warm bool) (*env.Env, *env.Call) {
	return sc.RunTimed(o, plan, nil, warm)
}

// RunTimed additionally installs a hook that runs at the start of every storage call (delays).
func (sc *c10Scenario) RunTimed(o env.Opts, plan sim.FaultPlan, before func(ctx context.Context, tag, op string, occ int), warm bool) (*env.Env, *env.Call) {
	e, send := sc.run(o)
	e.Cancellable = true
	if warm {
		send()
	}
	e.W.Plan = plan
	e.W.Before = before
	e.W.PartialDelay = 15 * time.Millisecond
	return e, send()
}

var faultableOps = map[string]bool{
	"GetMetadataSigningKey": true, "GetResponseSigningKey": true, "GetEntityByID": true, "GetEntityIDByAppID": true,
	"CreateAuthRequest": true, "AuthRequestByID": true, "SetUserinfoWithUserID": true, "SetUserinfoWithLoginName": true, "Health": true,
}

func faultKinds(op string) []string {
	// "returned error" comes in three flavours: a plain error, a Temporary()/Timeout() error without context inside, a timeout-class error that wraps
	// context.DeadlineExceeded (the storage's own deadline, the request is alive) and an error that wraps
	// context.Canceled (a closed connection pool)
	if op == "GetMetadataSigningKey" || op == "GetResponseSigningKey" {
		return append([]string{sim.FaultError, sim.FaultTimeout, sim.FaultTemporary, sim.FaultPoolClosed, sim.FaultNilRecord, sim.FaultKeyNoCert, sim.FaultCertNoKey, sim.FaultEmptyCert}, errTextKinds...)
	}
	switch op {
	case "GetEntityByID":
		// a failing lookup may still hand back what it had (a stale or half-checked record) beside its error
		return append([]string{sim.FaultError, sim.FaultTimeout, sim.FaultTemporary, sim.FaultPoolClosed, sim.FaultRecordAndError, sim.FaultNilPtrError}, errTextKinds...)
	case "AuthRequestByID":
		return append([]string{sim.FaultError, sim.FaultTimeout, sim.FaultTemporary, sim.FaultPoolClosed, sim.FaultRecordAndError, sim.FaultTypedNil, sim.FaultNilPtrError}, errTextKinds...)
	}
	return append([]string{sim.FaultError, sim.FaultTimeout, sim.FaultTemporary, sim.FaultPoolClosed, sim.FaultNilPtrError}, errTextKinds...)
}

// errTextKinds: returned errors whose text is unusual (long and multi-byte, full of format verbs, full of markup) -
// the text ends up in status messages and log lines.
var errTextKinds = []string{sim.FaultErrTextWide, sim.FaultErrTextVerbs, sim.FaultErrTextMarkup}

func c10Scenarios() []c10Scenario {
	mk := func(o env.Opts) *env.Env {
		e := env.Static(o)
		mustRegister(e.W, stdSP(0), "appA")
		return e
	}
	fixedRng := func() *rand.Rand { return rand.New(rand.NewSource(7)) }
	sso := func(binding string, signed bool) func(o env.Opts) (*env.Env, func() *env.Call) {
		return func(o env.Opts) (*env.Env, func() *env.Call) {
			e := mk(o)
			rng := fixedRng()
			a := validAuthn(rng, stdSP(0))
			a.Style = spsim.Style{PfxP: "samlp", PfxA: "saml"}
			x := a.XML(rng)
			s := ssoSend{Binding: binding, XML: x, HasRelay: true, Relay: "MKrelay"}
			if signed && binding == "redirect" {
				s.SignKey, s.Alg = keys.Get("sp0"), spsim.AlgRSASHA256
			}
			if signed && binding == "post" {
				sx, err := spsim.SignEnveloped(x, keys.Get("sp0"), spsim.XMLSignOpts{Alg: spsim.AlgRSASHA256})
				if err != nil {
					panic(err)
				}
				s.XML = sx
			}
			return e, func() *env.Call { c, _ := s.do(e); return c }
		}
	}
	callback := func(binding string, acs string) func(o env.Opts) (*env.Env, func() *env.Call) {
		return func(o env.Opts) (*env.Env, func() *env.Call) {
			e := mk(o)
			rng := fixedRng()
			sc := randScenario(rng, "MKcbx", false)
			sc.Host = ""
			sc.S.Binding, sc.S.ACS = binding, acs
			sc.install(e.W)
			return e, func() *env.Call { return e.Do(env.Req{Path: env.PathLogin, Query: "id=" + url.QueryEscape(sc.S.ID)}) }
		}
	}
	logoutP := func(binding, principal string) func(o env.Opts) (*env.Env, func() *env.Call) {
		return func(o env.Opts) (*env.Env, func() *env.Call) {
			e := mk(o)
			rng := fixedRng()
			l := conformantLogout(rng, stdSP(0))
			l.NoNameID, l.OtherPrincipal = true, principal
			s := ssoSend{Path: env.PathSLO, Binding: binding, XML: l.XML(rng), HasRelay: true, Relay: "MKrelay"}
			return e, func() *env.Call { c, _ := s.do(e); return c }
		}
	}
	logout := func(binding string) func(o env.Opts) (*env.Env, func() *env.Call) {
		return func(o env.Opts) (*env.Env, func() *env.Call) {
			e := mk(o)
			rng := fixedRng()
			l := conformantLogout(rng, stdSP(0))
			s := ssoSend{Path: env.PathSLO, Binding: binding, XML: l.XML(rng), HasRelay: true, Relay: "MKrelay"}
			return e, func() *env.Call { c, _ := s.do(e); return c }
		}
	}
	query := func(o env.Opts) (*env.Env, func() *env.Call) {
		e := mk(o)
		rng := fixedRng()
		u := randUser(rng, "U_MKqx", false)
		e.W.AddUser(u)
		q := conformantQuery(rng, stdSP(0), u.Username)
		body := q.XML(rng)
		return e, func() *env.Call { return e.Do(env.Req{Method: "POST", Path: env.PathAttr, Body: body, CT: "text/xml"}) }
	}
	get := func(path string) func(o env.Opts) (*env.Env, func() *env.Call) {
		return func(o env.Opts) (*env.Env, func() *env.Call) {
			e := mk(o)
			return e, func() *env.Call { return e.Do(env.Req{Path: path}) }
		}
	}
	// endpoints that take no parameter, asked with every name the library's source mentions as a parameter: whatever
	// switch a name may flip, a storage failure stays a failure
	getWithNames := func(path string) func(o env.Opts) (*env.Env, func() *env.Call) {
		return func(o env.Opts) (*env.Env, func() *env.Call) {
			e := mk(o)
			return e, func() *env.Call { return e.Do(env.Req{Path: path, Query: dictQuery()}) }
		}
	}
	// the same requests with white space around the Issuer text (pretty-printed documents): whatever a handler does
	// about that, a storage failure stays a failure
	padded := func(kind, binding string) func(o env.Opts) (*env.Env, func() *env.Call) {
		return func(o env.Opts) (*env.Env, func() *env.Call) {
			e := mk(o)
			rng := fixedRng()
			var x string
			path := env.PathSSO
			if kind == "sso" {
				a := validAuthn(rng, stdSP(0))
				a.Style = spsim.Style{PfxP: "samlp", PfxA: "saml"}
				a.Issuer = "\n    " + a.Issuer + "\n  "
				x = a.XML(rng)
			} else {
				l := conformantLogout(rng, stdSP(0))
				l.Issuer = "\n    " + l.Issuer + "\n  "
				x, path = l.XML(rng), env.PathSLO
			}
			s := ssoSend{Path: path, Binding: binding, XML: x, HasRelay: true, Relay: "MKrelay"}
			return e, func() *env.Call { c, _ := s.do(e); return c }
		}
	}
	// every scenario once more with parameters and headers nobody asked for, named after every name the library's
	// source mentions: whatever switch a name may flip, a storage failure stays a failure
	noisy := func(run func(o env.Opts) (*env.Env, func() *env.Call)) func(o env.Opts) (*env.Env, func() *env.Call) {
		return func(o env.Opts) (*env.Env, func() *env.Call) {
			e, send := run(o)
			e.ExtraQuery, e.ExtraHeaders = dictQuery(protocolParams...), dictHeaders()
			return e, send
		}
	}
	base := []c10Scenario{
		{Name: "sso_redirect_padded_issuer", run: padded("sso", "redirect")},
		{Name: "logout_post_padded_issuer", run: padded("logout", "post")},
		{Name: "sso_redirect_unsigned", run: sso("redirect", false)},
		{Name: "sso_redirect_signed", run: sso("redirect", true)},
		{Name: "sso_post_unsigned", run: sso("post", false)},
		{Name: "sso_post_signed", run: sso("post", true)},
		{Name: "callback_post", run: callback(spsim.BindPost, "https://mkcbx.sp.example/acs")},
		{Name: "callback_redirect", run: callback(spsim.BindRedirect, "https://mkcbx.sp.example/acs")},
		{Name: "callback_body", run: callback(spsim.BindPost, "")},
		{Name: "logout_post", run: logout("post")},
		{Name: "logout_redirect", run: logout("redirect")},
		{Name: "logout_post_encrypted_id", run: logoutP("post", "EncryptedID")},
		{Name: "logout_redirect_base_id", run: logoutP("redirect", "BaseID")},
		{Name: "logout_post_no_principal", run: logoutP("post", "")},
		{Name: "attribute_query", run: query},
		{Name: "metadata_unsigned", run: get(env.PathMetadata)},
		{Name: "metadata_signed", Opts: env.Opts{MetaSigAlg: spsim.AlgRSASHA256}, run: get(env.PathMetadata)},
		{Name: "certificate", run: get(env.PathCert)},
		{Name: "readiness", run: get("/ready")},
		{Name: "health", run: get("/healthz")},
		{Name: "sso_redirect_unsigned_error_url_configured", Opts: env.Opts{MetaIDP: &provider.MetadataIDPConfig{ErrorURL: "https://idp.example/error?code=ERRORURL_CODE&ts=ERRORURL_TS"}}, run: sso("redirect", false)},
		{Name: "callback_post_error_url_configured", Opts: env.Opts{MetaIDP: &provider.MetadataIDPConfig{ErrorURL: "https://idp.example/error"}}, run: callback(spsim.BindPost, "https://mkcbx.sp.example/acs")},
		{Name: "attribute_query_error_url_configured", Opts: env.Opts{MetaIDP: &provider.MetadataIDPConfig{ErrorURL: "https://idp.example/error"}}, run: query},
		{Name: "readiness_with_named_parameters", run: getWithNames("/ready")},
		{Name: "health_with_named_parameters", run: getWithNames("/healthz")},
		{Name: "metadata_signed_with_named_parameters", Opts: env.Opts{MetaSigAlg: spsim.AlgRSASHA256}, run: getWithNames(env.PathMetadata)},
		{Name: "certificate_with_named_parameters", run: getWithNames(env.PathCert)},
	}
	out := base
	for _, sc := range base {
		if strings.HasSuffix(sc.Name, "_with_named_parameters") || strings.HasSuffix(sc.Name, "_padded_issuer") {
			continue
		}
		out = append(out, c10Scenario{Name: sc.Name + "_with_unasked_names", Opts: sc.Opts, run: noisy(sc.run)})
	}
	return out
}

type faultPos struct {
	Op   string
	Occ  int
	Kind string
}

func (f faultPos) String() string { return fmt.Sprintf("%s#%d:%s", f.Op, f.Occ, f.Kind) }

// planFor builds a plan from fault positions and records which of them fired.
func planFor(fs []faultPos, fired map[string]bool) sim.FaultPlan {
	return func(tag, op string, occ int) string {
		for _, f := range fs {
			if f.Op == op && f.Occ == occ {
				fired[f.String()] = true
				return f.Kind
			}
		}
		return ""
	}
}

// opSequence lists the faultable storage calls of a call in order.
func opSequence(call *env.Call) []faultPos {
	n := map[string]int{}
	var out []faultPos
	for _, ev := range call.Events {
		if faultableOps[ev.Op] {
			n[ev.Op]++
			out = append(out, faultPos{Op: ev.Op, Occ: n[ev.Op]})
		}
	}
	return out
}

// c10Judge applies the fail-closed clauses to a call in which at least one fault fired.
func c10Judge(r *core.Run, wl string, idx int, class string, sc *c10Scenario, call *env.Call, faults []faultPos) {
	c10JudgeOpt(r, wl, idx, class, sc, call, faults, false)
}

// c10JudgeOpt: with anyRefusal a plain HTTP error of any class (4xx as well) counts as an error reply - used for a
// request that made no failing storage call itself (it was refused, or shares a neighbour's failed read).
func c10JudgeOpt(r *core.Run, wl string, idx int, class string, sc *c10Scenario, call *env.Call, faults []faultPos, anyRefusal bool) {
	desc := map[string]any{"scenario": sc.Name, "faults": fmt.Sprint(faults), "sig_alg": sc.Opts.SigAlg, "meta_sig_alg": sc.Opts.MetaSigAlg}
	viol := func(clause, reason string) {
		r.Violate(core.Violation{Clause: clause, Class: class, Reason: reason, Workload: wl, Index: idx, Case: desc, Observed: call.Describe()})
	}
	if call.Panic != "" {
		viol("panic", call.Panic)
		return
	}
	d := call.D
	if d.Success() {
		viol("success_after_fault", "Success response although a storage operation failed")
	}
	if strings.Contains(d.FullText(), "U_MK") {
		viol("user_data_after_fault", "reply contains user attributes although a storage operation failed")
	}
	if strings.Contains(string(d.Body), "EntityDescriptor") && strings.Contains(string(d.Body), "SignatureValue") {
		viol("signed_metadata_after_fault", "signed metadata served although a storage operation failed")
	}
	// no persistence after the failure
	faultSeen := false
	for _, ev := range call.Events {
		if ev.Err && (ev.Res == sim.FaultError || strings.Contains(ev.Res, "_")) {
			faultSeen = true
		}
		if ev.Op == "GetMetadataSigningKey" || ev.Op == "GetResponseSigningKey" {
			if ev.Res != "" {
				faultSeen = true
			}
		}
		if faultSeen && ev.Op == "CreateAuthRequest" && !ev.Err {
			viol("persist_after_fault", "CreateAuthRequest succeeded after the injected failure")
		}
	}
	if d.Status == 303 {
		viol("login_redirect_after_fault", "browser sent on to login although a storage operation failed: "+d.Location)
	}
	isErr := d.Status >= 500 || (d.Msg != nil && d.Msg.StatusCode != "" && !d.Success()) || (anyRefusal && d.Status >= 400 && d.Msg == nil)
	if !isErr {
		viol("not_an_error_reply", fmt.Sprintf("status %d kind %s is neither HTTP 5xx nor a non-Success SAML response", d.Status, d.Kind))
	}
	r.Seen("error_reply_shapes", fmt.Sprintf("%s/%d/%s", sc.Name, d.Status, d.Kind))
}

func c10Single(scs []c10Scenario, pairs, warm bool) func(r *core.Run, idx int, rng *rand.Rand) {
	return func(r *core.Run, idx int, _ *rand.Rand) {
		wl := "single_faults"
		if pairs {
			wl = "fault_pairs"
		}
		if warm {
			wl += "_after_good_request"
		}
		sc := &scs[idx]
		_, base := sc.Run(sc.Opts, nil, warm)
		seq := opSequence(base)
		r.Count("scenarios_recorded", 1)
		r.Count("storage_calls_recorded", int64(len(seq)))
		if base.Panic != "" {
			r.Violate(core.Violation{Clause: "panic_without_fault", Class: sc.Name, Reason: base.Panic, Workload: wl, Index: idx, Observed: base.Describe()})
			return
		}
		if idx < 15 && !pairs && !warm {
			var s []string
			for _, p := range seq {
				s = append(s, fmt.Sprintf("%s#%d", p.Op, p.Occ))
			}
			r.Sample("call_sequence", map[string]any{"scenario": sc.Name, "fault_free_status": base.D.Status, "fault_free_kind": base.D.Kind, "storage_calls": s})
		}
		for _, p := range seq {
			for _, k := range faultKinds(p.Op) {
				f1 := faultPos{p.Op, p.Occ, k}
				fired := map[string]bool{}
				_, call := sc.Run(sc.Opts, planFor([]faultPos{f1}, fired), warm)
				if !fired[f1.String()] {
					r.Count("fault_not_reached", 1)
					continue
				}
				if !pairs {
					r.Eval(wl + "|" + sc.Name + "|" + f1.String())
					r.Count("single_faults_injected", 1)
					if warm {
						r.Count("single_faults_injected_after_good_request", 1)
					}
					c10Judge(r, wl, idx, sc.Name+"|"+p.Op+"|"+k, sc, call, []faultPos{f1})
					// the same fault with other relative timing: where a handler issues storage calls side by side, which
					// result arrives first must not matter (the failing call is slow / every other call is slow); user
					// lookups additionally fail after having delivered part of the record
					for _, timing := range []string{"failing_call_slow", "other_calls_slow", "partial_record", "client_gone"} {
						kind := k
						if timing == "client_gone" {
							// the failure is the client going away at this very call: the request's context is cancelled, this
							// call and every later one return the context's error (explored once per call, not per kind)
							if k != sim.FaultError {
								continue
							}
							gone := false
							_, callG := sc.RunTimed(sc.Opts, nil, func(ctx context.Context, _, op string, occ int) {
								if op == p.Op && occ == p.Occ {
									gone = env.CancelRequest(ctx)
								}
							}, warm)
							if !gone {
								r.Count("fault_not_reached", 1)
								continue
							}
							r.Eval(wl + "|" + sc.Name + "|" + p.Op + fmt.Sprint(p.Occ) + "|client_gone")
							r.Count("requests_whose_client_went_away_at_a_storage_call", 1)
							c10Judge(r, wl, idx, sc.Name+"|"+p.Op+"|client_gone", sc, callG, []faultPos{{p.Op, p.Occ, sim.FaultCtx}})
							continue
						}
						if timing == "partial_record" {
							if !strings.HasPrefix(p.Op, "SetUserinfo") {
								continue
							}
							kind = sim.FaultPartial
						}
						ft := faultPos{p.Op, p.Occ, kind}
						firedT := map[string]bool{}
						slowFailing := timing == "failing_call_slow"
						before := func(_ context.Context, _, op string, occ int) {
							if (op == ft.Op && occ == ft.Occ) == slowFailing {
								time.Sleep(15 * time.Millisecond)
							}
						}
						if timing == "partial_record" {
							before = nil
						}
						_, callT := sc.RunTimed(sc.Opts, planFor([]faultPos{ft}, firedT), before, warm)
						if !firedT[ft.String()] {
							r.Count("fault_not_reached", 1)
							continue
						}
						r.Eval(wl + "|" + sc.Name + "|" + ft.String() + "|" + timing)
						r.Count("single_faults_injected_with_other_timing", 1)
						c10Judge(r, wl, idx, sc.Name+"|"+p.Op+"|"+kind+"|"+timing, sc, callT, []faultPos{ft})
					}
					continue
				}
				// second fault at every call that still happens after the first
				seq2 := opSequence(call)
				r.Count("pair_first_faults_explored", 1)
				after := false
				for _, p2 := range seq2 {
					if p2.Op == f1.Op && p2.Occ == f1.Occ {
						after = true
						continue
					}
					if !after {
						continue
					}
					r.Count("calls_after_first_fault", 1)
					for _, k2 := range faultKinds(p2.Op) {
						f2 := faultPos{p2.Op, p2.Occ, k2}
						fired2 := map[string]bool{}
						_, call2 := sc.Run(sc.Opts, planFor([]faultPos{f1, f2}, fired2), warm)
						if !fired2[f1.String()] || !fired2[f2.String()] {
							r.Count("fault_not_reached", 1)
							continue
						}
						r.Eval(sc.Name + "|" + f1.String() + "|" + f2.String())
						r.Count("fault_pairs_injected", 1)
						c10Judge(r, wl, idx, sc.Name+"|"+f1.Op+"|"+f1.Kind+"+"+f2.Op+"|"+f2.Kind, sc, call2, []faultPos{f1, f2})
					}
				}
			}
		}
	}
}

// c10Alg re-runs the signing scenarios with an unusable configured signature algorithm.
func c10Alg(scs []c10Scenario) func(r *core.Run, idx int, rng *rand.Rand) {
	algs := []string{"", "urn:unknown:algorithm", "http://www.w3.org/2001/04/xmldsig-more#rsa-md5", "http://www.w3.org/2001/04/xmldsig-more#rsa-sha512", "http://www.w3.org/2000/09/xmldsig#dsa-sha1"}
	return func(r *core.Run, idx int, _ *rand.Rand) {
		const wl = "unusable_algorithm"
		sc := scs[idx/len(algs)]
		alg := algs[idx%len(algs)]
		signing := map[string]bool{"callback_post": true, "callback_redirect": true, "callback_body": true, "attribute_query": true, "metadata_signed": true}
		if !signing[sc.Name] {
			return
		}
		o := sc.Opts
		if sc.Name == "metadata_signed" {
			if alg == "" {
				return // empty = signing switched off, a different configuration, not a fault
			}
			o.MetaSigAlg = alg
		} else {
			o.SigAlg, o.NoSigAlg = alg, true
		}
		sc.Opts = o
		_, call := sc.Run(o, nil, false)
		r.Eval(sc.Name + "|alg=" + alg)
		r.Count("algorithm_faults_injected", 1)
		class := sc.Name + "|algorithm|" + alg
		if strings.HasSuffix(alg, "rsa-sha512") && call.Panic == "" && (call.D.Success() || (sc.Name == "metadata_signed" && call.D.Status == 200)) {
			// the algorithm turned out to be usable: then the artefact must verify
			r.Count("algorithm_usable_after_all", 1)
			if sc.Name == "metadata_signed" {
				if err := verify.V1(call.D.Body, "EntityDescriptor", keys.Get("idp_meta").Cert); err != nil {
					r.Violate(core.Violation{Clause: "signature_invalid", Class: class, Reason: err.Error(), Workload: wl, Index: idx, Observed: call.Describe()})
				}
				return
			}
			fails, _, _ := verifyEmitted(call.D, respCert())
			for _, f := range fails {
				if f.Clause == "v2_rejects" || f.Clause == "verifiers_disagree" {
					continue
				}
				r.Violate(core.Violation{Clause: f.Clause, Class: class, Reason: f.Reason, Workload: wl, Index: idx, Observed: call.Describe()})
			}
			return
		}
		c10JudgeOpt(r, wl, idx, class, &sc, call, []faultPos{{Op: "SignatureAlgorithm", Occ: 1, Kind: alg}}, true) // no storage operation fails here: any refusal will do
	}
}

// c10Concurrent: an operation of the storage fails for everybody while TWO identical requests are in flight on one
// provider. The first request to reach the failing operation is held inside the storage until the second has reached
// the storage as well (or clearly never will, because it waits for the first one's result instead of asking itself).
// Both replies are judged by the fail-closed clauses: a request that shares somebody else's failed read has failed too.
func c10Concurrent(scs []c10Scenario) func(r *core.Run, idx int, rng *rand.Rand) {
	return func(r *core.Run, idx int, _ *rand.Rand) {
		const wl = "concurrent_requests_during_a_fault"
		sc := &scs[idx]
		_, base := sc.Run(sc.Opts, nil, false)
		ops := map[string]bool{}
		for _, p := range opSequence(base) {
			ops[p.Op] = true
		}
		var names []string
		for op := range ops {
			names = append(names, op)
		}
		sort.Strings(names)
		for _, op := range names {
			for _, kind := range []string{sim.FaultError, sim.FaultPoolClosed} {
				e, send := sc.run(sc.Opts)
				var arrivals atomic.Int64
				second := make(chan struct{})
				var once sync.Once
				e.W.Plan = func(_, o string, _ int) string {
					if o == op {
						return kind
					}
					return ""
				}
				e.W.Before = func(_ context.Context, _, o string, _ int) {
					if o != op {
						if arrivals.Load() > 0 {
							once.Do(func() { close(second) })
						}
						return
					}
					if arrivals.Add(1) == 1 {
						select {
						case <-second:
						case <-time.After(60 * time.Millisecond):
						}
					} else {
						once.Do(func() { close(second) })
					}
				}
				calls := make([]*env.Call, 2)
				var wg sync.WaitGroup
				for i := range calls {
					wg.Add(1)
					go func(i int) {
						defer wg.Done()
						if i == 1 {
							// the second request starts when the first is inside the failing call (or has finished)
							for k := 0; k < 2000 && arrivals.Load() == 0; k++ {
								time.Sleep(50 * time.Microsecond)
							}
						}
						calls[i] = send()
					}(i)
				}
				wg.Wait()
				for i, call := range calls {
					class := fmt.Sprintf("%s|%s|%s|concurrent|request_%d", sc.Name, op, kind, i+1)
					r.Eval(class)
					r.Count("requests_judged_beside_a_concurrent_fault", 1)
					// did this request meet the failing operation itself?
					own := false
					for _, ev := range call.Events {
						if ev.Op == op && ev.Err {
							own = true
						}
					}
					c10JudgeOpt(r, wl, idx, class, sc, call, []faultPos{{Op: op, Occ: 0, Kind: kind}}, !own)
				}
			}
		}
	}
}

func init() {
	register(&Prop{
		ID: "C10", Level: "fault_enumeration", DeathIsViolation: true,
		TimeoutQuick: 5 * time.Minute, TimeoutThorough: 30 * time.Minute,
		Build: func(c *Ctx) []core.Workload {
			r := c.Run
			scs := c10Scenarios()
			var names []string
			for _, s := range scs {
				names = append(names, s.Name)
			}
			sort.Strings(names)
			r.Extra("scenarios", names)
			r.Rule = "for each endpoint scenario (SSO redirect/POST signed/unsigned, SSO and logout with white space around the Issuer text, callback POST/Redirect/body, logout POST/redirect, attribute query, metadata signed/unsigned, certificate, readiness, health) a fault-free recording run yields the sequence of storage calls; then every (operation, occurrence) x fault kind {error - plain, timeout-class wrapping context.DeadlineExceeded, wrapping context.Canceled; for the two key getters also nil record, key without certificate, certificate without key, empty certificate} is injected singly (quick and thorough; once on a fresh provider and once right after the same request was served fault-free by the same provider; each also with the failing call delayed, with all other calls delayed, and - user lookups - failing after part of the record was delivered) and in pairs (thorough: the second fault at every call that still happens after the first, sequence re-recorded); the signing scenarios are re-run with unusable configured signature algorithms; every operation is also made to fail for everybody while two identical requests are in flight (the first held inside the failing call until the second has reached the storage), both judged. After the first fault the reply must be HTTP 5xx or a non-Success SAML response: no panic, no Success, no user canary, no signed metadata, no persistence, no login redirect. Distinct = (scenario, fault positions and kinds); all non-trivial."
			r.SetExhaustive(true)
			r.Assume("exhaustive over the listed scenarios, their recorded call sequences and the listed fault kinds; other requests may reach other call sequences")
			r.Require("single_faults_injected", 120)
			r.Require("single_faults_injected_after_good_request", 60)
			r.Require("single_faults_injected_with_other_timing", 200)
			r.Require("algorithm_faults_injected", 15)
			wls := []core.Workload{
				{Name: "single_faults", N: len(scs), Fn: c10Single(scs, false, false)},
				{Name: "single_faults_after_good_request", N: len(scs), Fn: c10Single(scs, false, true)},
				{Name: "unusable_algorithm", N: len(scs) * 5, Fn: c10Alg(scs)},
				{Name: "concurrent_requests_during_a_fault", N: len(scs), Fn: c10Concurrent(scs)},
				{Name: "readiness_probe_lists", N: 26, Fn: c10ProbeLists},
				{Name: "readiness_after_an_abandoned_probe", N: 8, Fn: c10AbandonedProbe},
			}
			if c.Thorough {
				wls = append(wls, core.Workload{Name: "fault_pairs", N: len(scs), Fn: c10Single(scs, true, false)})
				wls = append(wls, core.Workload{Name: "fault_pairs_after_good_request", N: len(scs), Fn: c10Single(scs, true, true)})
				r.Assume("a second fault can only be injected where the handler still calls storage after the first failure; on a tree where every failure ends the request at once the pair enumeration is empty (fault_pairs_injected = 0) and calls_after_first_fault = 0 is itself the observation")
			}
			return wls
		},
		After: func(c *Ctx) { verify.Py.Close() },
	})
}

// c10ProbeLists: the exported Readiness handler with lists of 1..4 probes of which a non-empty subset fails (the
// storage's health probe through ReadyStorage, a probe of the integrator, a storage that is not there) - at every
// position, in every combination: one failing probe makes the reply an error.
func c10ProbeLists(r *core.Run, idx int, rng *rand.Rand) {
	const wl = "readiness_probe_lists"
	// idx enumerates (length, failing subset): 1+3+7+15 = 26
	k, mask := 1, idx+1
	for mask >= 1<<k {
		mask -= (1 << k) - 1
		k++
	}
	w := sim.NewWorld()
	w.Plan = func(_, op string, _ int) string {
		if op == "Health" {
			return []string{sim.FaultError, sim.FaultTimeout, sim.FaultErrTextWide}[idx%3]
		}
		return ""
	}
	healthy := sim.NewWorld()
	var probes []provider.ProbesFn
	var shape []string
	for j := 0; j < k; j++ {
		if mask&(1<<j) != 0 {
			switch (idx + j) % 3 {
			case 0:
				probes = append(probes, provider.ReadyStorage(w))
				shape = append(shape, "storage_health_fails")
			case 1:
				probes = append(probes, func(context.Context) error { return sim.ErrInjected })
				shape = append(shape, "integrator_probe_fails")
			default:
				probes = append(probes, provider.ReadyStorage(nil))
				shape = append(shape, "no_storage")
			}
		} else {
			if j%2 == 0 {
				probes = append(probes, provider.ReadyStorage(healthy))
			} else {
				probes = append(probes, func(context.Context) error { return nil })
			}
			shape = append(shape, "ok")
		}
	}
	class := "probe_list|" + strings.Join(shape, ",")
	r.Eval(class)
	r.Count("readiness_probe_lists_with_a_failing_probe", 1)
	rec := reply.NewRecorder()
	req, _ := http.NewRequestWithContext(sim.WithTag(context.Background(), fmt.Sprintf("probe%d", idx)), "GET", "/ready", nil)
	panicked := ""
	func() {
		defer func() {
			if p := recover(); p != nil {
				panicked = fmt.Sprint(p)
			}
		}()
		provider.Readiness(rec, req, probes...)
	}()
	d := reply.Decode(rec)
	desc := map[string]any{"probes": shape}
	obs := map[string]any{"status": d.Status, "body": clipS(string(d.Body), 300)}
	if panicked != "" {
		r.Violate(core.Violation{Clause: "panic", Class: class, Reason: panicked, Workload: wl, Index: idx, Case: desc, Observed: obs})
		return
	}
	if d.Status < 500 {
		r.Violate(core.Violation{Clause: "not_an_error_reply", Class: class, Reason: fmt.Sprintf("status %d although a readiness probe failed", d.Status), Workload: wl, Index: idx, Case: desc, Observed: obs})
	}
}

// c10AbandonedProbe: a readiness probe whose Health call hangs (and does not look at the context) is abandoned by its
// client; the call returns - successfully - a little later. The next probe, during which Health fails, is answered
// with an error all the same: what an earlier probe found out is not this probe's answer.
func c10AbandonedProbe(r *core.Run, idx int, rng *rand.Rand) {
	const wl = "readiness_after_an_abandoned_probe"
	e := env.Static(env.Opts{})
	e.W.IgnoreCtx = true
	tagA := fmt.Sprintf("abandoned%d", idx)
	entered, release := make(chan struct{}), make(chan struct{})
	var once sync.Once
	failing := false
	e.W.Before = func(_ context.Context, tag, op string, _ int) {
		if op == "Health" && tag == tagA {
			once.Do(func() { close(entered) })
			<-release
		}
	}
	e.W.Plan = func(tag, op string, _ int) string {
		if op == "Health" && failing && tag != tagA {
			return []string{sim.FaultError, sim.FaultTimeout, sim.FaultTemporary, sim.FaultErrTextWide}[idx%4]
		}
		return ""
	}
	ctxA, cancelA := context.WithCancel(context.Background())
	doneA := make(chan struct{})
	go func() {
		defer close(doneA)
		e.Do(env.Req{Path: "/ready", Ctx: ctxA, Tag: tagA})
	}()
	select {
	case <-entered:
	case <-doneA:
	case <-time.After(2 * time.Second):
	}
	cancelA() // the prober goes away
	time.Sleep(time.Duration(1+idx%3) * 5 * time.Millisecond)
	close(release) // the hanging call comes back, successfully
	select {
	case <-doneA:
	case <-time.After(5 * time.Second):
	}
	time.Sleep(5 * time.Millisecond)
	failing = true
	for k := 0; k < 3; k++ {
		call := e.Do(env.Req{Path: "/ready"})
		class := fmt.Sprintf("abandoned_probe|then_failing_probe_%d", k)
		r.Eval(fmt.Sprintf("%s|%d", class, idx))
		r.Count("failing_probes_after_an_abandoned_one", 1)
		if call.Panic != "" {
			r.Violate(core.Violation{Clause: "panic", Class: class, Reason: call.Panic, Workload: wl, Index: idx, Observed: call.Describe()})
			return
		}
		if call.D.Status < 500 {
			r.Violate(core.Violation{Clause: "not_an_error_reply", Class: class, Reason: fmt.Sprintf("status %d although the health probe of this request failed (an earlier probe had been abandoned while its health call was pending)", call.D.Status), Workload: wl, Index: idx, Observed: call.Describe()})
			return
		}
	}
}
