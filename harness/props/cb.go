package props

import (
	"crypto/x509"
	"fmt"
	"github.com/zitadel/saml/pkg/provider/serviceprovider"
	"math/rand"
	"net/url"
	"strings"
	"sync"
	"time"

	"verif/harness/env"
	"verif/harness/keys"
	"verif/harness/reply"
	"verif/harness/sim"
	"verif/harness/spsim"
	"verif/harness/verify"
)

// ---------- callback scenarios ----------

// cbScenario is one stored request + user + configuration for the login callback.
type cbScenario struct {
	Opts     env.Opts
	Host     string
	S        *sim.AuthReq
	Done     bool
	U        *sim.User
	Audience string // entity registered for S.AppID
	Canary   string
	Exp      time.Duration
	EntityID string // entity ID configured through the metadata endpoint's URL ("" = derived from the issuer)
	// ForeignParams: the callback carries, besides the id, parameters named like the fields of the stored request
	// (RelayState, consumer URL, binding ...) with values of its own - the reply is made from the stored request
	ForeignParams bool
}

// timeLayouts are the WithCustomTimeFormat variants ("" = default).
var timeLayouts = []string{"", "", time.RFC3339, time.RFC3339Nano, "2006-01-02T15:04:05Z"}

// randScenario draws a stored request and user. hostile selects strings with special characters.
func randScenario(rng *rand.Rand, canary string, hostile bool) *cbScenario {
	sc := &cbScenario{Canary: canary, Exp: 5 * time.Minute}
	str := func(field string, parts int) string {
		s := canary + field
		if hostile {
			s += legalXMLString(rng, parts)
		}
		return s
	}
	sc.U = randUser(rng, "U_"+canary, hostile)
	sc.Audience = "https://" + strings.ToLower(canary) + ".sp.example/metadata"
	if hostile && rng.Intn(2) == 0 {
		sc.Audience += legalXMLString(rng, 3)
	}
	sc.S = &sim.AuthReq{
		ID:            canary + "rid" + randHex(rng, 6),
		AppID:         str("app", 2),
		RelayState:    str("relay", 5),
		ACS:           "https://" + strings.ToLower(canary) + ".sp.example/acs",
		Binding:       []string{spsim.BindPost, spsim.BindRedirect}[rng.Intn(2)],
		AuthRequestID: str("authnid", 3),
		UserID:        sc.U.UserID,
	}
	if rng.Intn(6) == 0 {
		sc.S.RelayState = ""
	}
	sc.ForeignParams = rng.Intn(3) == 0
	if hostile {
		switch rng.Intn(6) {
		case 0:
			sc.S.ACS += "?a=1&b=" + plainString(rng, 3)
		case 1:
			sc.S.ACS += "/" + url.PathEscape(legalXMLString(rng, 3))
		case 2:
			sc.S.ACS = str("acs", 4) // arbitrary string, not even a URL
		}
	}
	// a consumer URL whose own query already has a parameter named like one of the protocol's makes every redirect
	// reply ambiguous for the receiver, whatever the IdP does: such registrations are outside what is judged
	if i := strings.IndexByte(sc.S.ACS, '?'); i >= 0 {
		for _, kv := range strings.FieldsFunc(sc.S.ACS[i+1:], func(r rune) bool { return r == '&' || r == ';' }) {
			k, _, _ := strings.Cut(kv, "=")
			if dk, err := url.QueryUnescape(k); err == nil {
				k = dk
			}
			switch k {
			case "SAMLResponse", "SAMLRequest", "RelayState", "SigAlg", "Signature", "SAMLEncoding":
				sc.S.ACS = sc.S.ACS[:i]
			}
		}
	}
	sc.Done = true
	sc.Opts.TimeFormat = timeLayouts[rng.Intn(len(timeLayouts))]
	sc.Opts.SigAlg = []string{spsim.AlgRSASHA1, spsim.AlgRSASHA256}[rng.Intn(2)]
	if rng.Intn(3) == 0 {
		sc.Host = []string{"h1.idp.example", "login.h2.example:8443", "h3.example"}[rng.Intn(3)]
		sc.Opts.HostPath = []string{"", "/saml", "idp/v2"}[rng.Intn(3)]
	}
	return sc
}

// build creates the provider and world for the scenario.
func (sc *cbScenario) build() *env.Env {
	var e *env.Env
	if sc.Host != "" {
		var err error
		e, err = env.New(sc.Opts)
		if err != nil {
			panic(err)
		}
	} else {
		e = env.Static(sc.Opts)
	}
	sc.install(e.W)
	return e
}

// install stores the scenario's records in a world.
func (sc *cbScenario) install(w *sim.World) {
	if sc.S != nil {
		sc.S.SetDone(sc.Done)
		w.PutRequest(sc.S)
		w.SetApp(sc.S.AppID, sc.Audience)
		// the audience is a registered service provider whose own metadata may say anything about signed assertions
		// (the callback of the unchanged library never looks at it); a registration that fails is left out
		if len(sc.S.ID)%2 == 0 {
			d := stdSP(0)
			d.EntityID = sc.Audience
			d.WantAssertionsSigned = []string{"false", "0", "true", ""}[len(sc.S.ID)/2%4]
			if sp, err := serviceprovider.NewServiceProvider(sc.S.AppID, &serviceprovider.Config{Metadata: d.XML()}, w.LoginURL); err == nil && sp.GetEntityID() == sc.Audience {
				_, _ = w.AddSP(sc.S.AppID, d.XML())
			}
		}
	}
	if sc.U != nil {
		w.AddUser(sc.U)
	}
}

// entityID is the IdP entity ID for this scenario.
func (sc *cbScenario) entityID() string {
	if sc.EntityID != "" {
		return sc.EntityID
	}
	if sc.Host == "" {
		return idpEntityID
	}
	p := sc.Opts.HostPath
	if p != "" && !strings.HasPrefix(p, "/") {
		p = "/" + p
	}
	return strings.TrimSuffix("https://"+sc.Host+p, "/") + "/metadata"
}

func (sc *cbScenario) layout() string {
	if sc.Opts.TimeFormat != "" {
		return sc.Opts.TimeFormat
	}
	return spsim.TimeLayout
}

// callback issues the callback with the id in the query.
func (sc *cbScenario) callback(e *env.Env) *env.Call {
	q := "id=" + url.QueryEscape(sc.S.ID)
	if sc.ForeignParams {
		q += "&RelayState=foreign-relay-state&AssertionConsumerServiceURL=" + url.QueryEscape("https://evil-cb.example/acs") + "&ProtocolBinding=" + url.QueryEscape(spsim.BindRedirect) +
			"&Destination=" + url.QueryEscape("https://evil-cb.example/dest") + "&InResponseTo=foreign-id&userID=foreign-user&applicationID=foreign-app"
	}
	return e.Do(env.Req{Method: "GET", Path: env.PathLogin, Query: q, Host: sc.Host})
}

// ---------- global freshness of IDs ----------

var idSeen sync.Map

// freshID records id and reports whether it had been seen before in this process.
func freshID(id string) bool {
	_, loaded := idSeen.LoadOrStore(id, struct{}{})
	return !loaded
}

// ---------- expat-side extraction ----------

// pyMessage builds the field view of a Response from the expat dump (independent of etree).
func pyMessage(nodes []verify.PyNode) *reply.Message {
	if len(nodes) == 0 {
		return nil
	}
	// skip a SOAP envelope
	start := 0
	if nodes[0].Local == "Envelope" {
		for i, n := range nodes {
			if n.Depth == 2 {
				start = i
				break
			}
		}
	}
	base := nodes[start].Depth
	root := nodes[start]
	m := &reply.Message{Root: root.Local, RootNS: root.NS}
	m.ID = root.Attrs["ID"]
	m.InResponseTo, m.HasInResponse = root.Attrs["InResponseTo"]
	m.Destination, m.HasDest = root.Attrs["Destination"]
	m.IssueInstant = root.Attrs["IssueInstant"]
	m.Version = root.Attrs["Version"]
	// path tracking
	path := []string{root.Local}
	var curAttr *reply.Attribute
	for _, n := range nodes[start+1:] {
		d := n.Depth - base
		if d <= 0 {
			break
		}
		if d < len(path) {
			path = path[:d]
		}
		path = append(path, n.Local)
		p := strings.Join(path[1:], "/")
		if n.Local == "Signature" {
			m.SignatureCount++
		}
		if v, ok := n.Attrs["ID"]; ok {
			m.AllIDs = append(m.AllIDs, v)
		}
		switch p {
		case "Issuer":
			m.Issuer = n.Text
		case "Status/StatusCode":
			m.StatusCode = n.Attrs["Value"]
		case "Status/StatusMessage":
			m.StatusMessage = n.Text
		case "Assertion":
			m.HasAssertion = true
			m.AssertionID = n.Attrs["ID"]
			m.AssertionInst = n.Attrs["IssueInstant"]
		case "Assertion/Issuer":
			m.AssertionIssuer = n.Text
		case "Assertion/Signature":
			m.AssertionSigned = true
		case "Assertion/Subject/NameID":
			m.HasNameID = true
			m.NameID = n.Text
			m.NameIDFormat = n.Attrs["Format"]
		case "Assertion/Subject/SubjectConfirmation":
			m.SCMethod = n.Attrs["Method"]
		case "Assertion/Subject/SubjectConfirmation/SubjectConfirmationData":
			m.SCInResponseTo = n.Attrs["InResponseTo"]
			m.SCRecipient, m.HasSCRecipient = n.Attrs["Recipient"]
			m.SCNotOnOrAfter = n.Attrs["NotOnOrAfter"]
		case "Assertion/Conditions":
			m.CondNotBefore = n.Attrs["NotBefore"]
			m.CondNotOnOrAfter = n.Attrs["NotOnOrAfter"]
		case "Assertion/Conditions/AudienceRestriction/Audience":
			m.Audiences = append(m.Audiences, n.Text)
		case "Assertion/AttributeStatement/Attribute":
			m.Attributes = append(m.Attributes, reply.Attribute{Name: n.Attrs["Name"], NameFormat: n.Attrs["NameFormat"], FriendlyName: n.Attrs["FriendlyName"]})
			curAttr = &m.Attributes[len(m.Attributes)-1]
		case "Assertion/AttributeStatement/Attribute/AttributeValue":
			if curAttr != nil {
				curAttr.Values = append(curAttr.Values, n.Text)
				m.AttrValueCount++
			}
		case "Assertion/AuthnStatement":
			m.AuthnInstant = n.Attrs["AuthnInstant"]
			m.SessionIndex = n.Attrs["SessionIndex"]
		}
	}
	return m
}

// diffMessages compares the two independent extractions.
func diffMessages(a, b *reply.Message) string {
	type f struct{ n, x, y string }
	for _, c := range []f{
		{"Root", a.Root, b.Root}, {"ID", a.ID, b.ID}, {"InResponseTo", a.InResponseTo, b.InResponseTo}, {"Destination", a.Destination, b.Destination},
		{"IssueInstant", a.IssueInstant, b.IssueInstant}, {"Issuer", a.Issuer, b.Issuer}, {"StatusCode", a.StatusCode, b.StatusCode},
		{"StatusMessage", a.StatusMessage, b.StatusMessage}, {"AssertionID", a.AssertionID, b.AssertionID}, {"AssertionIssuer", a.AssertionIssuer, b.AssertionIssuer},
		{"NameID", a.NameID, b.NameID}, {"SCInResponseTo", a.SCInResponseTo, b.SCInResponseTo}, {"SCRecipient", a.SCRecipient, b.SCRecipient},
		{"SCNotOnOrAfter", a.SCNotOnOrAfter, b.SCNotOnOrAfter}, {"CondNotBefore", a.CondNotBefore, b.CondNotBefore}, {"CondNotOnOrAfter", a.CondNotOnOrAfter, b.CondNotOnOrAfter},
		{"Audiences", fmt.Sprintf("%q", a.Audiences), fmt.Sprintf("%q", b.Audiences)},
		{"Attributes", fmt.Sprintf("%q", attrMultiset(msgAttrs(a))), fmt.Sprintf("%q", attrMultiset(msgAttrs(b)))},
		{"SignatureCount", fmt.Sprint(a.SignatureCount), fmt.Sprint(b.SignatureCount)},
	} {
		if c.x != c.y {
			return fmt.Sprintf("%s: etree %q, expat %q", c.n, c.x, c.y)
		}
	}
	return ""
}

// ---------- C03 clauses ----------

type clauseFail struct{ Clause, Reason string }

// checkSuccessBinding evaluates the C03 clauses on a Success reply of the callback.
func checkSuccessBinding(sc *cbScenario, call *env.Call, m *reply.Message) (fails []clauseFail, judged []string) {
	add := func(c, why string) { fails = append(fails, clauseFail{c, why}) }
	ok := func(c string) { judged = append(judged, c) }
	S, U := sc.S, sc.U
	d := call.D
	if m.InResponseTo != S.AuthRequestID {
		add("in_response_to", fmt.Sprintf("Response InResponseTo %q, request ID %q", m.InResponseTo, S.AuthRequestID))
	}
	if m.SCInResponseTo != S.AuthRequestID {
		add("sc_in_response_to", fmt.Sprintf("SubjectConfirmationData InResponseTo %q, request ID %q", m.SCInResponseTo, S.AuthRequestID))
	}
	ok("in_response_to")
	if S.ACS != "" {
		if !m.HasDest || m.Destination != S.ACS {
			add("destination", fmt.Sprintf("Destination %q, consumer URL %q", m.Destination, S.ACS))
		}
		if !m.HasSCRecipient || m.SCRecipient != S.ACS {
			add("recipient", fmt.Sprintf("Recipient %q, consumer URL %q", m.SCRecipient, S.ACS))
		}
		ok("destination_recipient")
	} else if (m.HasDest && m.Destination != "") || (m.HasSCRecipient && m.SCRecipient != "") {
		add("destination", fmt.Sprintf("Destination %q / Recipient %q although the stored consumer URL is empty", m.Destination, m.SCRecipient))
	}
	want := sc.entityID()
	if m.Issuer != want || m.AssertionIssuer != want {
		add("issuer", fmt.Sprintf("Issuer %q / assertion Issuer %q, IdP entity ID %q", m.Issuer, m.AssertionIssuer, want))
	}
	ok("issuer")
	if len(m.Audiences) != 1 || m.Audiences[0] != sc.Audience {
		add("audience", fmt.Sprintf("Audience %q, registered entity %q", m.Audiences, sc.Audience))
	}
	ok("audience")
	if !m.HasNameID || m.NameID != U.Username {
		add("name_id", fmt.Sprintf("NameID %q, user name %q", m.NameID, U.Username))
	}
	ok("name_id")
	got, ref := attrMultiset(msgAttrs(m)), attrMultiset(refAttributes(U))
	if !equalStrings(got, ref) {
		add("attributes", fmt.Sprintf("attribute statement %q, user record %q", got, ref))
	}
	ok("attributes")
	// RelayState
	switch d.Kind {
	case "form":
		if !d.HasRelay || normNL(d.RelayState) != normNL(S.RelayState) {
			add("relay_state", fmt.Sprintf("RelayState field %q, stored %q", d.RelayState, S.RelayState))
		}
		ok("relay_state_form")
	case "redirect":
		if S.RelayState == "" {
			if d.HasRelay && d.RelayState != "" {
				add("relay_state", fmt.Sprintf("RelayState parameter %q although none is stored", d.RelayState))
			}
		} else if !d.HasRelay || d.RelayState != S.RelayState {
			add("relay_state", fmt.Sprintf("RelayState parameter %q, stored %q", d.RelayState, S.RelayState))
		}
		ok("relay_state_redirect")
	}
	// validity window
	layout := sc.layout()
	ii, err := time.Parse(layout, m.AssertionInst)
	if err != nil {
		add("issue_instant", fmt.Sprintf("assertion IssueInstant %q does not parse with the configured layout %q", m.AssertionInst, layout))
		return
	}
	if m.CondNotBefore != m.AssertionInst {
		add("not_before", fmt.Sprintf("NotBefore %q, IssueInstant %q", m.CondNotBefore, m.AssertionInst))
	}
	wantNOA := ii.Add(sc.Exp).UTC().Format(layout)
	if m.CondNotOnOrAfter != wantNOA || m.SCNotOnOrAfter != wantNOA {
		add("not_on_or_after", fmt.Sprintf("NotOnOrAfter %q / %q, IssueInstant + lifetime = %q", m.CondNotOnOrAfter, m.SCNotOnOrAfter, wantNOA))
	}
	t0, _ := time.Parse(layout, call.T0.UTC().Format(layout))
	if ii.Before(t0.Add(-time.Second)) || ii.After(call.T1.Add(time.Second)) {
		add("issue_instant_bracket", fmt.Sprintf("IssueInstant %s outside the call bracket [%s, %s]", m.AssertionInst, call.T0.UTC().Format(time.RFC3339Nano), call.T1.UTC().Format(time.RFC3339Nano)))
	}
	ok("validity_window")
	// IDs
	if m.ID == m.AssertionID {
		add("ids_distinct", "response and assertion share the ID "+m.ID)
	}
	for _, id := range []string{m.ID, m.AssertionID} {
		if !isNCName(id) {
			add("id_syntax", fmt.Sprintf("ID %q is not an xs:ID", id))
		}
		if !freshID(id) {
			add("id_fresh", fmt.Sprintf("ID %q was already used in this run", id))
		}
	}
	ok("ids")
	return
}

// ---------- C04 helpers ----------

func respCert() *x509.Certificate { return keys.Get("idp_resp").Cert }

// verifyEmitted checks the signature of a Success reply with the independent verifiers.
// It returns failures as (clause, reason); oracleErr != nil means the oracles themselves failed.
func verifyEmitted(d *reply.Decoded, cert *x509.Certificate) (fails []clauseFail, kind string, oracleErr error) {
	switch d.Kind {
	case "redirect":
		kind = "redirect_query_signature"
		if d.Sig == "" {
			return []clauseFail{{"unsigned_success", "redirect-binding Success reply without Signature parameter"}}, kind, nil
		}
		if err := verify.Redirect(d, "SAMLResponse", cert); err != nil {
			fails = append(fails, clauseFail{"signature_invalid_redirect", err.Error()})
		}
		return fails, kind, nil
	default:
		kind = "enveloped_assertion_signature"
		if d.Msg == nil || !d.Msg.AssertionSigned {
			return []clauseFail{{"unsigned_success", "Success reply whose assertion carries no signature (delivery " + d.Kind + ")"}}, kind, nil
		}
		e1 := verify.V1(d.XML, "Assertion", cert)
		ok2, why2, err := verify.V2(d.XML, "Assertion", cert)
		if err != nil {
			return nil, kind, err
		}
		if e1 != nil {
			fails = append(fails, clauseFail{"v1_rejects", e1.Error()})
		}
		if !ok2 {
			fails = append(fails, clauseFail{"v2_rejects", why2})
		}
		if (e1 == nil) != ok2 {
			fails = append(fails, clauseFail{"verifiers_disagree", fmt.Sprintf("goxmldsig: %v, python: %v %s", e1, ok2, why2)})
		}
		return fails, kind, nil
	}
}
