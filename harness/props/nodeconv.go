package props

import (
	"github.com/beevik/etree"

	"verif/harness/spsim"
)

// etreeToNode converts an etree element into the harness Node model (prefixes and xmlns attributes kept verbatim).
func etreeToNode(e *etree.Element) *spsim.Node {
	name := e.Tag
	if e.Space != "" {
		name = e.Space + ":" + e.Tag
	}
	n := spsim.El(name)
	for _, a := range e.Attr {
		k := a.Key
		if a.Space != "" {
			k = a.Space + ":" + a.Key
		}
		n.Attrs = append(n.Attrs, spsim.Attr{Name: k, Value: a.Value})
	}
	for _, t := range e.Child {
		switch c := t.(type) {
		case *etree.Element:
			n.Kids = append(n.Kids, etreeToNode(c))
		case *etree.CharData:
			if len(e.ChildElements()) == 0 {
				n.Text += c.Data
			}
		}
	}
	return n
}
