package props

import (
	"context"
	"fmt"
	"math/rand"
	"net/url"
	"strings"
	"sync"
	"time"

	"verif/harness/core"
	"verif/harness/env"
	"verif/harness/keys"
	"verif/harness/sim"
	"verif/harness/spsim"
)

// C08 — one SSO request, one outcome; rejected requests leave no trace.

// the other bindings SAML 2.0 and its extensions define: an IdP that does not answer through them must refuse, one
// that does must follow the same two-outcome rule
var otherSAMLBindings = []string{"urn:oasis:names:tc:SAML:2.0:bindings:HTTP-POST-SimpleSign", "urn:oasis:names:tc:SAML:2.0:bindings:SOAP", "urn:oasis:names:tc:SAML:2.0:bindings:URI",
	"urn:oasis:names:tc:SAML:2.0:profiles:holder-of-key:SSO:browser", "urn:oasis:names:tc:SAML:1.0:profiles:browser-post"}

var c08Bindings = []string{spsim.BindPost, spsim.BindRedirect, spsim.BindArtifact, spsim.BindPAOS, "urn:example:binding:unknown", "HTTP-POST",
	otherSAMLBindings[0], otherSAMLBindings[0], otherSAMLBindings[1], otherSAMLBindings[2], otherSAMLBindings[3], otherSAMLBindings[4],
	spsim.BindPost + " ", " " + spsim.BindRedirect, "\n\t" + spsim.BindPost + "\n", strings.ToLower(spsim.BindPost), spsim.BindRedirect + "/"}

// randACS draws a consumer list over the given bindings (any index / isDefault mix, unique locations).
func randACS(rng *rand.Rand, host string, bindings []string, maxN int) []spsim.ACS {
	n := rng.Intn(maxN + 1)
	var out []spsim.ACS
	for k := 0; k < n; k++ {
		a := spsim.ACS{
			Binding:   bindings[rng.Intn(len(bindings))],
			Location:  fmt.Sprintf("https://%s/acs/%d", host, k),
			Index:     []string{"0", "1", "2", "7", "65535"}[rng.Intn(5)],
			IsDefault: []string{"", "", "true", "false", "1", "0"}[rng.Intn(6)],
		}
		out = append(out, a)
	}
	return out
}

// judgeSSOOutcome checks the one-outcome clauses for one SSO call. It returns the outcome class.
func judgeSSOOutcome(r *core.Run, wl string, idx int, class string, e *env.Env, call *env.Call, desc any) string {
	viol := func(clause, reason string) {
		r.Violate(core.Violation{Clause: clause, Class: class, Reason: reason, Workload: wl, Index: idx, Case: desc, Observed: call.Describe()})
	}
	if call.Panic != "" {
		viol("panic", "handler panicked: "+call.Panic)
		return "panic"
	}
	d := call.D
	creates := call.Count("CreateAuthRequest", false)
	okCreates := call.Count("CreateAuthRequest", true)
	if creates > 1 {
		viol("persist_count", fmt.Sprintf("CreateAuthRequest invoked %d times for one request", creates))
	}
	if d.HeaderCalls > 1 {
		viol("multiple_headers", fmt.Sprintf("WriteHeader called %d times", d.HeaderCalls))
	}
	if d.XMLDocs > 1 || d.Forms > 1 || strings.Count(string(d.Body), "<samlp:Response") > 1 || strings.Count(string(d.Body), "<html") > 1 {
		viol("concatenated_reply", fmt.Sprintf("reply contains %d XML declarations / %d forms", d.XMLDocs, d.Forms))
	}
	if okCreates == 1 {
		ev := call.First("CreateAuthRequest")
		for _, x := range call.Events {
			if x.Op == "CreateAuthRequest" && !x.Err {
				ev = &x
				break
			}
		}
		want := e.W.LoginURL(ev.Res)
		if d.Status != 303 || d.Location != want {
			viol("accepted_not_redirected", fmt.Sprintf("request persisted as %s but reply is status %d Location %q (want 303 to %q)", ev.Res, d.Status, d.Location, want))
		}
		if len(ev.Args) >= 2 && ev.Args[1] != spsim.BindPost && ev.Args[1] != spsim.BindRedirect {
			viol("persisted_unanswerable", "persisted with a binding the IdP cannot answer: "+ev.Args[1])
		}
		if d.Msg != nil {
			viol("accepted_with_message", "a SAML message was written although the request was persisted")
		}
		return "accepted"
	}
	// nothing persisted: exactly one non-Success Response, or a plain HTTP error
	if d.Status == 303 && strings.HasPrefix(d.Location, "https://login.idp.example/") {
		viol("redirected_without_persist", "browser sent to login although nothing was persisted: "+d.Location)
		return "bad"
	}
	switch d.Kind {
	case "http-error":
		return "http_error"
	case "empty":
		viol("empty_reply", fmt.Sprintf("status %d with empty body and no Location", d.Status))
		return "empty"
	case "xml-body", "form", "redirect":
		if d.Msg == nil {
			viol("unreadable_reply", "reply carries no decodable SAML message: "+d.Err)
			return "bad"
		}
		if d.Msg.Root != "Response" {
			viol("wrong_message", "reply root is "+d.Msg.Root)
		}
		if d.Msg.StatusCode == "" {
			viol("no_status", "Response without status code")
		}
		if d.Success() {
			viol("success_without_persist", "SSO endpoint produced a Success response")
		}
		if d.Kind == "redirect" && d.Status != 302 && d.Status != 303 {
			viol("redirect_status", fmt.Sprintf("redirect-binding reply with status %d", d.Status))
		}
		if d.Kind != "redirect" && d.Status != 200 {
			if d.Status >= 400 {
				return "http_error"
			}
			viol("reply_status", fmt.Sprintf("message reply with status %d", d.Status))
		}
		return "saml_error_" + d.Kind
	default:
		if d.Status >= 400 {
			return "http_error"
		}
		viol("unclassified_reply", fmt.Sprintf("status %d kind %s", d.Status, d.Kind))
		return "bad"
	}
}

// c08ConcurrentDuplicates submits one request twice (or two requests sharing one ID) at the same time on one provider.
// Both submissions are held inside CreateAuthRequest until the other one is there too (or clearly will not come),
// so whatever the handler does around persisting happens for both at once. Each submission is then judged on its own:
// persisted => 303 to the login URL of the identifier it got; not persisted => one error reply; afterwards the
// storage holds exactly the records of the submissions that were sent on to login.
func c08ConcurrentDuplicates(r *core.Run, idx int, rng *rand.Rand) {
	const wl = "concurrent_duplicates"
	c := conformantSSO(rng)
	c.Host = ""
	c.Signed = false
	c.SPD.AuthnRequestsSigned, c.Want = "", ""
	e := env.Static(env.Opts{})
	mustRegister(e.W, c.SPD, "appA")
	x1 := c.Req.XML(rng)
	x2 := x1
	sameContent := idx%2 == 0
	if !sameContent { // same request ID, other content
		c.Req.ProviderName = "other " + plainString(rng, 4)
		x2 = c.Req.XML(rng)
	}
	mk := func(x, tag string) env.Req {
		if idx%4 < 2 {
			return env.Req{Method: "POST", Path: env.PathSSO, Body: spsim.FormBody("SAMLRequest", spsim.B64([]byte(x)), "RelayState", "MKrelay"), Tag: tag}
		}
		return env.Req{Path: env.PathSSO, Query: "SAMLRequest=" + url.QueryEscape(spsim.DeflateB64(x)) + "&RelayState=MKrelay", Tag: tag}
	}
	tags := [2]string{fmt.Sprintf("dupA%d", idx), fmt.Sprintf("dupB%d", idx)}
	var inside [2]chan struct{}
	inside[0], inside[1] = make(chan struct{}), make(chan struct{})
	var once [2]sync.Once
	e.W.Before = func(_ context.Context, tag, op string, occ int) {
		if op != "CreateAuthRequest" {
			return
		}
		for i := range tags {
			if tag == tags[i] {
				once[i].Do(func() { close(inside[i]) })
				select {
				case <-inside[1-i]:
				case <-time.After(30 * time.Millisecond):
				}
			}
		}
	}
	reqs := [2]env.Req{mk(x1, tags[0]), mk(x2, tags[1])}
	var calls [2]*env.Call
	var wg sync.WaitGroup
	for i := range reqs {
		wg.Add(1)
		go func(i int) { defer wg.Done(); calls[i] = e.Do(reqs[i]) }(i)
	}
	wg.Wait()
	class := fmt.Sprintf("concurrent_duplicates|same_content=%v", sameContent)
	r.Eval(fmt.Sprintf("%s|%d", class, idx))
	r.Count("concurrent_duplicate_pairs", 1)
	sentOn := 0
	for i, call := range calls {
		desc := map[string]any{"submission": i, "same_content": sameContent, "xml": clipS([]string{x1, x2}[i], 1200)}
		if judgeSSOOutcome(r, wl, idx, class, e, call, desc) == "accepted" {
			sentOn++
		}
	}
	select {
	case <-inside[0]:
		select {
		case <-inside[1]:
			r.Count("pairs_with_both_submissions_inside_persist", 1)
		default:
		}
	default:
	}
	if n := e.W.NumRequests(); n != sentOn {
		r.Violate(core.Violation{Clause: "record_left_behind", Class: class, Reason: fmt.Sprintf("%d records are stored but %d submissions were sent on to login", n, sentOn), Workload: wl, Index: idx,
			Case: map[string]any{"same_content": sameContent}, Observed: map[string]any{"first": calls[0].Describe(), "second": calls[1].Describe()}})
	}
}

// c08CancelledDuringPersist: the client goes away (the request context is cancelled) while the storage is inside
// CreateAuthRequest, and the storage finishes the write it has started. Whatever the handler answers, the dichotomy
// holds: a stored record means the request was sent on to login with exactly that record's identifier.
func c08CancelledDuringPersist(r *core.Run, idx int, rng *rand.Rand) {
	const wl = "cancelled_during_persist"
	c := conformantSSO(rng)
	c.Host = ""
	c.Signed = false
	c.SPD.AuthnRequestsSigned, c.Want = "", ""
	e := env.Static(env.Opts{})
	e.W.IgnoreCtx = true
	mustRegister(e.W, c.SPD, "appA")
	x := c.Req.XML(rng)
	ctx, cancel := context.WithCancel(context.Background())
	defer cancel()
	lateWrite := idx%2 == 0
	e.W.Before = func(_ context.Context, _, op string, _ int) {
		if op == "CreateAuthRequest" {
			cancel()
			if lateWrite {
				time.Sleep(3 * time.Millisecond) // the write completes a moment after the cancellation
			}
		}
	}
	var rq env.Req
	if idx%4 < 2 {
		rq = env.Req{Method: "POST", Path: env.PathSSO, Body: spsim.FormBody("SAMLRequest", spsim.B64([]byte(x)), "RelayState", "MKrelay"), Ctx: ctx}
	} else {
		rq = env.Req{Path: env.PathSSO, Query: "SAMLRequest=" + url.QueryEscape(spsim.DeflateB64(x)) + "&RelayState=MKrelay", Ctx: ctx}
	}
	call := e.Do(rq)
	time.Sleep(10 * time.Millisecond) // a storage call the handler no longer waits for gets time to finish
	call.Events = e.W.Events(call.Tag)
	class := fmt.Sprintf("cancelled_during_persist|late_write=%v", lateWrite)
	r.Eval(fmt.Sprintf("%s|%d", class, idx))
	r.Count("requests_cancelled_during_persist", 1)
	desc := map[string]any{"late_write": lateWrite}
	out := judgeSSOOutcome(r, wl, idx, class, e, call, desc)
	sentOn := 0
	if out == "accepted" {
		sentOn = 1
	}
	if n := e.W.NumRequests(); n != sentOn {
		r.Violate(core.Violation{Clause: "record_left_behind", Class: class, Reason: fmt.Sprintf("%d record(s) stored although the reply (status %d, %s) did not send the browser on to login", n, call.D.Status, call.D.Kind), Workload: wl, Index: idx, Case: desc, Observed: call.Describe()})
	}
}

func c08Case(r *core.Run, idx int, rng *rand.Rand) {
	const wl = "sso_outcomes"
	c := conformantSSO(rng)
	kind := idx % 8
	var mod func(e *env.Env)
	switch kind {
	case 0: // conformant, supported bindings
		c.Labels = append(c.Labels, "conformant")
	case 1, 2: // arbitrary consumer bindings
		c.SPD.ACS = randACS(rng, "spx.example", c08Bindings, 4)
		if rng.Intn(3) == 0 {
			c.Req.ProtocolBinding = c08Bindings[rng.Intn(len(c08Bindings))]
		}
		c.Labels = append(c.Labels, "any_acs_bindings")
	case 3: // only unsupported bindings
		c.SPD.ACS = randACS(rng, "spx.example", c08Bindings[2:], 3)
		if len(c.SPD.ACS) == 0 {
			c.SPD.ACS = []spsim.ACS{{Binding: spsim.BindArtifact, Location: "https://spx.example/art", Index: "0"}}
		}
		c.Labels = append(c.Labels, "unsupported_acs_only")
	case 4: // invalid at one of the validation steps
		dv := c06Deviations[rng.Intn(len(c06Deviations))]
		dv.Apply(rng, c)
		c.Labels = append(c.Labels, "invalid:"+dv.Name)
	case 5: // signature problems
		switch rng.Intn(4) {
		case 0:
			c.Signed = true
			c.SPD.Cert = keys.Get("sp0")
			spd := *c.SPD
			c.SPD = &spd
			c.Labels = append(c.Labels, "signed_by_foreign_key")
			sign := keys.Get("attacker")
			c.WireEdit = func(s *ssoSend) {
				if s.SignKey != nil {
					s.SignKey = sign
				}
			}
			if c.Binding == "post" {
				c.Signed = false
				c.PostEdit = func(x string) string {
					out, err := spsim.SignEnveloped(x, sign, c.XS)
					if err != nil {
						panic(err)
					}
					return out
				}
			}
		case 1:
			c.Signed = false
			c.SPD.AuthnRequestsSigned = "true"
			c.Labels = append(c.Labels, "unsigned_but_required")
		case 2:
			c.Signed = true
			c.SPD.Cert = keys.Get("sp1")
			c.Binding = "redirect"
			c.Labels = append(c.Labels, "redirect_tampered_after_signing")
			which := rng.Intn(3)
			c.WireEdit = func(s *ssoSend) {
				s.AfterSign = func(m *spsim.RedirectMsg) {
					switch which {
					case 0:
						m.RelayState, m.HasRelay = m.RelayState+"x", true
					case 1:
						b := []byte(m.Signature)
						if b[10] == 'A' {
							b[10] = 'B'
						} else {
							b[10] = 'A'
						}
						m.Signature = string(b)
					default:
						m.Value = spsim.DeflateB64(strings.Replace(s.XML, `Version="2.0"`, `Version="2.0" Consent="urn:x"`, 1))
					}
				}
			}
		default:
			c.Signed = true
			c.Binding = "post"
			c.Labels = append(c.Labels, "post_edited_after_signing")
			c.PostEdit = func(x string) string { return strings.Replace(x, `Version="2.0"`, `Version="2.0" Consent="urn:x"`, 1) }
		}
	case 6: // persistence fails
		// persistence (or, half as often, the service-provider lookup) fails, with every flavour of error
		kind := []string{sim.FaultError, sim.FaultTimeout, sim.FaultTemporary, sim.FaultPoolClosed}[rng.Intn(4)]
		failing := []string{"CreateAuthRequest", "CreateAuthRequest", "GetEntityByID"}[rng.Intn(3)]
		c.Labels = append(c.Labels, "persist_fails", failing+"/"+kind)
		mod = func(e *env.Env) {
			e.W.Plan = func(tag, op string, occ int) string {
				if op == failing {
					return kind
				}
				return ""
			}
		}
	case 7: // SP without any consumer service / empty binding attribute
		if rng.Intn(2) == 0 {
			c.SPD.ACS = nil
			c.Labels = append(c.Labels, "no_acs")
		} else {
			c.SPD.ACS = []spsim.ACS{{Binding: "", Location: "https://spx.example/acs", Index: "0"}}
			c.Labels = append(c.Labels, "acs_without_binding")
		}
	}
	if rng.Intn(6) == 0 {
		// RelayState beyond the 80 bytes the specification recommends (peers do send more)
		c.HasRel, c.Relay = true, plainString(rng, 81+rng.Intn(40))
		if rng.Intn(3) == 0 {
			c.Relay = strings.Repeat(plainString(rng, 32), 4+rng.Intn(60))
		}
		c.Labels = append(c.Labels, "long_relaystate")
	}
	// identifiers as storages hand them out: counters, tokens with characters that mean something in a URL; the
	// login URL is built by the application, which escapes the identifier itself
	idShape := rng.Intn(4)
	if idShape > 0 {
		inner := mod
		mod = func(e *env.Env) {
			if inner != nil {
				inner(e)
			}
			e.W.ReqTag = []string{"", "tenant-7/", "AbC+/dEf==", "id with blank "}[idShape]
			e.W.LoginURL = func(id string) string {
				return "https://login.idp.example/ui/login?authRequestID=" + url.QueryEscape(id)
			}
		}
		c.Labels = append(c.Labels, fmt.Sprintf("id_shape_%d", idShape))
	}
	if kind == 0 && rng.Intn(3) == 0 {
		// the record is written and no error is reported, but the request handed back carries no identifier
		inner := mod
		mod = func(e *env.Env) {
			if inner != nil {
				inner(e)
			}
			e.W.Plan = func(_, op string, _ int) string {
				if op == "CreateAuthRequest" {
					return sim.FaultNoIdentifier
				}
				return ""
			}
		}
		c.Labels = append(c.Labels, "stored_without_identifier")
	}
	if c.Signed && c.Binding == "redirect" && rng.Intn(2) == 0 {
		// the query of a signed redirect message in the other legal percent-encoding styles
		c.Pct = []string{spsim.PctLower, spsim.Pct20, spsim.PctAll}[rng.Intn(3)]
		c.Labels = append(c.Labels, "pct="+c.Pct)
	}
	e, call := c.run(rng, mod)
	out := judgeSSOOutcome(r, wl, idx, c.label(), e, call, c.describe())
	if kind == 6 && call.Accepted() {
		r.Violate(core.Violation{Clause: "persist_failed_but_accepted", Class: c.label(), Reason: "harness inconsistency", Workload: wl, Index: idx})
	}
	if kind == 6 && call.Count("CreateAuthRequest", false) == 1 {
		r.Count("persist_fault_reached", 1)
		if call.D.Status == 303 {
			r.Violate(core.Violation{Clause: "redirect_after_failed_persist", Class: c.label(), Reason: "303 although CreateAuthRequest failed", Workload: wl, Index: idx, Case: c.describe(), Observed: call.Describe()})
		}
	}
	// "rejected requests leave no trace": nothing stored unless accepted
	if out != "accepted" && e.W.NumRequests() != 0 {
		r.Violate(core.Violation{Clause: "trace_left", Class: c.label(), Reason: fmt.Sprintf("%d request records exist after a rejected request", e.W.NumRequests()), Workload: wl, Index: idx, Case: c.describe(), Observed: call.Describe()})
	}
	if out == "accepted" && e.W.NumRequests() != 1 {
		r.Violate(core.Violation{Clause: "persist_count", Class: c.label(), Reason: fmt.Sprintf("%d request records exist after one accepted request", e.W.NumRequests()), Workload: wl, Index: idx, Case: c.describe(), Observed: call.Describe()})
	}
	r.Count("outcome_"+out, 1)
	r.Count("kind_"+strings.SplitN(c.label(), ",", 2)[0], 1)
	acsSig := ""
	for _, a := range c.SPD.ACS {
		acsSig += a.Binding[strings.LastIndexAny(a.Binding, ":-")+1:] + "/" + a.Index + "/" + a.IsDefault + ";"
	}
	r.Eval(fmt.Sprintf("%s|%s|%s|%s|%s|%v", c.label(), out, acsSig, c.Binding, c.Req.ProtocolBinding, c.Signed))
	r.Seen("reply_shapes", fmt.Sprintf("%s/%d/%s", out, call.D.Status, call.D.Kind))
	if idx < 16 {
		r.Sample("sso_"+out, map[string]any{"labels": c.Labels, "acs": c.SPD.ACS, "binding": c.Binding, "status": call.D.Status, "kind": call.D.Kind, "events": len(call.Events)})
	}
}

// c08Registration: one provider, the requester is re-registered between requests (also as unanswerable).
func c08Registration(r *core.Run, idx int, rng *rand.Rand) {
	const wl = "registration_changes"
	e := env.Static(env.Opts{})
	d := stdSP(0)
	d.AuthnRequestsSigned = ""
	answerable := true
	version := 0
	reg := func() {
		d2 := *d
		answerable = rng.Intn(3) > 0
		b := []string{spsim.BindPost, spsim.BindRedirect}[rng.Intn(2)]
		if !answerable {
			b = append([]string{spsim.BindArtifact, spsim.BindPAOS, "urn:example:unknown"}, otherSAMLBindings...)[rng.Intn(3+len(otherSAMLBindings))]
		}
		d2.ACS = []spsim.ACS{{Binding: b, Location: fmt.Sprintf("https://sp0.example/acs/v%d", version), Index: "0"}}
		d.ACS = d2.ACS
		mustRegister(e.W, &d2, "appA")
	}
	reg()
	for k := 0; k < 8; k++ {
		if k > 0 && rng.Intn(2) == 0 {
			version++
			reg()
		}
		before := e.W.NumRequests()
		a := validAuthn(rng, d)
		a.ProtocolBinding = []string{"", spsim.BindPost}[rng.Intn(2)]
		s := ssoSend{Binding: []string{"redirect", "post"}[rng.Intn(2)], XML: a.XML(rng), HasRelay: true, Relay: "MKrelay"}
		call, _ := s.do(e)
		class := fmt.Sprintf("registration|answerable=%v|version=%d|step=%d", answerable, version, k)
		desc := map[string]any{"step": k, "current_acs": d.ACS}
		out := judgeSSOOutcome(r, wl, idx, class, e, call, desc)
		r.Eval(fmt.Sprintf("%s|%d|%s", class, idx, out))
		r.Count("registration_sequence_requests", 1)
		stored := e.W.NumRequests() - before
		if !answerable && (out == "accepted" || stored != 0) {
			r.Violate(core.Violation{Clause: "unanswerable_request_persisted", Class: class, Reason: fmt.Sprintf("the requester is currently registered with the unanswerable binding %s only, yet outcome=%s and %d record(s) were stored", d.ACS[0].Binding, out, stored), Workload: wl, Index: idx, Case: desc, Observed: call.Describe()})
		}
		if answerable {
			if out != "accepted" {
				r.Count("registration_answerable_not_accepted", 1)
			} else if ev := call.First("CreateAuthRequest"); ev == nil || len(ev.Args) < 2 || ev.Args[0] != d.ACS[0].Location || ev.Args[1] != d.ACS[0].Binding {
				r.Violate(core.Violation{Clause: "persisted_with_stale_registration", Class: class, Reason: fmt.Sprintf("persisted %v, current registration %v", ev, d.ACS), Workload: wl, Index: idx, Case: desc, Observed: call.Describe()})
			}
			r.Count("registration_answerable_checked", 1)
		} else {
			r.Count("registration_unanswerable_checked", 1)
		}
	}
}

func containsLabel(ls []string, l string) bool {
	for _, x := range ls {
		if x == l {
			return true
		}
	}
	return false
}

func init() {
	register(&Prop{
		ID: "C08", Level: "exploration", DeathIsViolation: true,
		TimeoutQuick: 5 * time.Minute, TimeoutThorough: 30 * time.Minute,
		Build: func(c *Ctx) []core.Workload {
			r := c.Run
			r.Rule = "each case is one SSO request against a fresh provider+world: conformant / arbitrary consumer bindings {POST,Redirect,Artifact,PAOS,unknown} / only unsupported bindings / invalid at one validation step / signature problems / failing persistence / no usable consumer service. The monitor reads the storage event log and the recorded ResponseWriter calls. A second workload keeps ONE provider alive while the requester is re-registered between requests, also with an unanswerable binding only. Distinct = (labels, outcome, consumer list shape, transport, requested binding); all are non-trivial."
			r.Assume("LoginURL of the simulated storage is https://login.idp.example/ui/login?authRequestID=<id>")
			r.Require("outcome_accepted", 20)
			r.Require("persist_fault_reached", 5)
			r.Require("distinct_reply_shapes", 2)
			r.Require("registration_unanswerable_checked", 100)
			r.Require("registration_answerable_checked", 100)
			r.Require("concurrent_duplicate_pairs", 50)
			r.Require("requests_cancelled_during_persist", 50)
			return []core.Workload{
				{Name: "sso_outcomes", N: c.Pick(1600, 16000), Fn: c08Case},
				{Name: "registration_changes", N: c.Pick(150, 1500), Fn: c08Registration},
				{Name: "concurrent_duplicates", N: c.Pick(80, 800), Fn: c08ConcurrentDuplicates},
				{Name: "cancelled_during_persist", N: c.Pick(60, 600), Fn: c08CancelledDuringPersist},
			}
		},
		After: func(c *Ctx) {
			n := int64(0)
			for _, k := range []string{"outcome_saml_error_form", "outcome_saml_error_redirect", "outcome_saml_error_xml-body", "outcome_http_error"} {
				n += c.Run.Counter(k)
			}
			c.Run.Count("outcome_rejected_total", n)
			c.Run.Require("outcome_rejected_total", 50)
		},
	})
}
