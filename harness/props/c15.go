package props

import (
	"context"
	"crypto/sha256"
	"errors"
	"fmt"
	"math/rand"
	"net/url"
	"regexp"
	"runtime"
	"sort"
	"strings"
	"sync"
	"sync/atomic"
	"time"

	"github.com/google/uuid"
	"github.com/zitadel/saml/pkg/provider"
	"github.com/zitadel/saml/pkg/provider/key"

	"verif/harness/core"
	"verif/harness/env"
	"verif/harness/keys"
	"verif/harness/sim"
	"verif/harness/spsim"
)

// C15 — concurrent requests are isolated, race-free and get unique message IDs.

var canaryRe = regexp.MustCompile(`MK_c(\d+)x|hc(\d+)\.idp\.example|spc(\d+)\.example`)

// foreignCanary returns a canary of another client found in text ("" = none).
func foreignCanary(text string, client int) string {
	for _, m := range canaryRe.FindAllStringSubmatch(text, -1) {
		for _, g := range m[1:] {
			if g != "" && g != fmt.Sprint(client) {
				return m[0]
			}
		}
	}
	return ""
}

func stripSpace(s string) string {
	return strings.Map(func(r rune) rune {
		if r == ' ' || r == '\n' || r == '\r' || r == '\t' {
			return -1
		}
		return r
	}, s)
}

type idRegistry struct {
	mu   sync.Mutex
	seen map[string]string
}

func (g *idRegistry) add(id, where string) (dup string) {
	g.mu.Lock()
	defer g.mu.Unlock()
	if prev, ok := g.seen[id]; ok {
		return prev
	}
	g.seen[id] = where
	return ""
}

func c15Round(r *core.Run, idx int, rng *rand.Rand) {
	const wl = "concurrent_rounds"
	thorough := r.Tier == "thorough"
	clients := []int{16, 32, 64}[idx%3]
	procs := []int{2, 4, 16}[(idx/3)%3]
	ops := 60
	if thorough {
		ops = 200
	}
	old := runtime.GOMAXPROCS(procs)
	defer runtime.GOMAXPROCS(old)

	// every other round the issuer comes from the Forwarded header while all clients share one upstream Host
	forwarded := (idx/9)%2 == 1 || idx%4 == 3
	// some rounds publish the metadata (= entity ID) under one fixed URL while all locations still follow the host
	fixedEntity := idx%4 == 2
	opts := env.Opts{HostPath: "/saml", UseFwd: forwarded, SigAlg: spsim.AlgRSASHA256, MetaSigAlg: []string{"", spsim.AlgRSASHA256}[idx%2]}
	if fixedEntity {
		m := provider.NewEndpointWithURL("/metadata", "https://entity.idp.example/saml/metadata")
		opts.Metadata = &m
	}
	entityOf := func(host string) string {
		if fixedEntity {
			return "https://entity.idp.example/saml/metadata"
		}
		return "https://" + host + "/saml/metadata"
	}
	// organisation and contact data come from the configuration; parts of them are left out in some rounds
	switch idx % 5 {
	case 1:
		opts.Org = &provider.Organisation{Name: "ACME"}
	case 2:
		opts.Org = &provider.Organisation{Name: "ACME", DisplayName: "ACME Corp.", URL: "https://acme.example"}
		opts.Contact = &provider.ContactPerson{ContactType: "technical", Company: "ACME", GivenName: "A", SurName: "B", EmailAddress: "ops@acme.example"}
	case 3:
		opts.Org = &provider.Organisation{DisplayName: "ACME Corp."}
		opts.Contact = &provider.ContactPerson{ContactType: "support"}
	case 4:
		opts.Org, opts.Contact = &provider.Organisation{}, &provider.ContactPerson{}
	}
	if idx%2 == 1 {
		// a legal time layout without fractions of a second: whatever is derived from instants repeats within a second
		opts.TimeFormat = "2006-01-02T15:04:05Z"
	}
	e, err := env.New(opts)
	if err != nil {
		panic(err)
	}
	e.Name = fmt.Sprintf("r%d-", idx)
	// in some rounds every virtual host has a signing key of its own, which the storage picks by the issuer in the
	// caller's context
	tenantKeys := idx%3 == 1
	tenantPairs := []*keys.Pair{keys.Get("idp_resp"), keys.Get("sp3"), keys.Get("sp0"), keys.Get("sp1"), keys.Get("sp2"), keys.Get("attacker")} // not the metadata signing key, which signed metadata carries for every host
	pairOf := func(c int) *keys.Pair {
		if !tenantKeys {
			return tenantPairs[0]
		}
		return tenantPairs[c%len(tenantPairs)]
	}
	if tenantKeys {
		byHost := map[string]*key.CertificateAndKey{}
		for c := 0; c < clients; c++ {
			p := pairOf(c)
			byHost[fmt.Sprintf("hc%d.idp.example", c)] = &key.CertificateAndKey{Certificate: p.CertDER, Key: p.RSA}
		}
		e.W.RespKeyFor = func(issuer string) *key.CertificateAndKey {
			if u, err := url.Parse(issuer); err == nil {
				return byHost[u.Host]
			}
			return nil
		}
		r.Count("rounds_with_a_key_per_host", 1)
	}
	var dctr atomic.Int64
	e.W.Delay = func(op string) {
		switch n := dctr.Add(1); n % 7 {
		case 0, 3:
			runtime.Gosched()
		case 1:
			time.Sleep(time.Duration(10+n%90) * time.Microsecond)
		case 5:
			if n%50 == 5 {
				time.Sleep(time.Millisecond)
			}
		}
	}
	type clientState struct {
		sp       *spsim.SPDesc
		user     *sim.User
		host     string
		sessions []string
		acsOf    map[string]string // consumer URL persisted for each session
		answered map[string]bool   // sessions that already got a Success
		ref      []refAttr         // attributes of the user as registered (deep copy)
	}
	cs := make([]*clientState, clients)
	userOfApp := map[string]*sim.User{}
	for c := 0; c < clients; c++ {
		d := stdSP(c % 4)
		d.EntityID = fmt.Sprintf("https://spc%d.example/metadata", c)
		// several consumer services, two of one binding, listed out of index order and without a default: which one a
		// request gets depends on the request alone (its ProtocolBinding), never on what other sessions asked for
		own, other := []string{spsim.BindPost, spsim.BindRedirect}[c%2], []string{spsim.BindPost, spsim.BindRedirect}[(c+1)%2]
		d.ACS = []spsim.ACS{
			{Binding: own, Location: fmt.Sprintf("https://spc%d.example/acs", c), Index: "5"},
			{Binding: other, Location: fmt.Sprintf("https://spc%d.example/acs/other", c), Index: "3"},
			{Binding: own, Location: fmt.Sprintf("https://spc%d.example/acs/low", c), Index: "1"},
		}
		d.SLO = []spsim.SLO{{Binding: spsim.BindPost, Location: fmt.Sprintf("https://spc%d.example/slo", c)}}
		mustRegister(e.W, d, fmt.Sprintf("appc%d", c))
		u := randUser(rand.New(rand.NewSource(int64(idx*1000+c))), fmt.Sprintf("U_MK_c%dx", c), false)
		e.W.AddUser(u)
		userOfApp[fmt.Sprintf("appc%d", c)] = u
		cs[c] = &clientState{sp: d, user: u, host: fmt.Sprintf("hc%d.idp.example", c), acsOf: map[string]string{}, answered: map[string]bool{}}
		for _, a := range refAttributes(u) {
			a.Values = append([]string(nil), a.Values...)
			cs[c].ref = append(cs[c].ref, a)
		}
	}
	e.W.UserFor = func(reqID, appID string) string {
		if u := userOfApp[appID]; u != nil {
			return u.UserID
		}
		return ""
	}
	ids := &idRegistry{seen: map[string]string{}}
	var inflight, maxInflight, total atomic.Int64
	type vio struct {
		clause, class, reason string
		obs                   any
	}
	var vmu sync.Mutex
	var vios []vio
	report := func(clause, class, reason string, call *env.Call) {
		vmu.Lock()
		if len(vios) < 20 {
			vios = append(vios, vio{clause, class, reason, call.Describe()})
		}
		vmu.Unlock()
	}
	seeds := make([]int64, clients)
	for c := range seeds {
		seeds[c] = rng.Int63()
	}
	kinds := map[string]*atomic.Int64{}
	for _, k := range []string{"sso", "callback_done", "callback_pending", "callback_repeated_refused", "logout", "query", "metadata", "certificate"} {
		kinds[k] = &atomic.Int64{}
	}
	var wg sync.WaitGroup
	start := make(chan struct{})
	for c := 0; c < clients; c++ {
		wg.Add(1)
		go func(c int) {
			defer wg.Done()
			lr := rand.New(rand.NewSource(seeds[c]))
			st := cs[c]
			<-start
			do := func(kind string, rq env.Req) *env.Call {
				rq.Host = st.host
				// the connection is slow now and then: the handler blocks inside Write while others run
				rq.OnWrite = func() {
					switch n := dctr.Add(1); n % 5 {
					case 0:
						runtime.Gosched()
					case 2:
						time.Sleep(time.Duration(5+n%40) * time.Microsecond)
					}
				}
				if forwarded {
					rq.Host = "lb.internal"
					rq.Headers = map[string][]string{"Forwarded": {"for=192.0.2.1;host=" + st.host + ";proto=https"}}
				}
				n := inflight.Add(1)
				for {
					m := maxInflight.Load()
					if n <= m || maxInflight.CompareAndSwap(m, n) {
						break
					}
				}
				call := e.Do(rq)
				inflight.Add(-1)
				total.Add(1)
				kinds[kind].Add(1)
				class := fmt.Sprintf("%s|clients=%d|procs=%d", kind, clients, procs)
				if call.Panic != "" {
					report("panic", class, call.Panic, call)
					return call
				}
				if f := foreignCanary(call.D.FullText(), c); f != "" {
					report("foreign_data_in_reply", class, fmt.Sprintf("reply to client %d contains %q", c, f), call)
				}
				if tenantKeys {
					// certificates in the reply (certificate endpoint, metadata KeyDescriptor, KeyInfo of signed assertions)
					flat := stripSpace(string(call.D.Body)) + " " + stripSpace(call.D.FullText())
					own := pairOf(c)
					for _, p := range tenantPairs {
						if p != own && strings.Contains(flat, p.B64()) {
							report("foreign_data_in_reply", class, fmt.Sprintf("reply to client %d (host %s, whose signing certificate is %q) carries the certificate %q of another host", c, st.host, own.Name, p.Name), call)
							break
						}
					}
					if (kind == "metadata" || kind == "certificate") && call.D.Status == 200 && !strings.Contains(flat, own.B64()) {
						report("reply_not_determined_by_own_request", class, fmt.Sprintf("%s reply to client %d (host %s) does not carry the host's own signing certificate %q", kind, c, st.host, own.Name), call)
					}
				}
				var found []string
				if call.D.Msg != nil {
					found = append(found, call.D.Msg.AllIDs...)
				}
				if kind == "metadata" && call.D.Doc != nil {
					for _, el := range call.D.Doc.Root().FindElements("//*[@ID]") {
						found = append(found, el.SelectAttrValue("ID", ""))
					}
				}
				for _, id := range found {
					if id == "" {
						continue // failure replies carry an empty assertion element
					}
					if !isNCName(id) {
						report("id_syntax", class, fmt.Sprintf("ID %q is not an xs:ID", id), call)
					}
					if prev := ids.add(id, call.Tag); prev != "" && prev != call.Tag {
						report("duplicate_id", class, fmt.Sprintf("ID %q issued twice (requests %s and %s)", id, prev, call.Tag), call)
					}
				}
				return call
			}
			for k := 0; k < ops; k++ {
				switch op := lr.Intn(10); {
				case op < 3 || len(st.sessions) == 0:
					a := validAuthn(lr, st.sp)
					a.ACSURL, a.ACSIndex = "", ""
					a.ProtocolBinding = []string{"", st.sp.ACS[0].Binding, st.sp.ACS[1].Binding}[lr.Intn(3)]
					a.ID = fmt.Sprintf("MK_c%dxreq%d", c, k)
					a.Destination = "https://" + st.host + "/saml/SSO"
					s := ssoSend{Binding: []string{"redirect", "post"}[lr.Intn(2)], XML: a.XML(lr), HasRelay: true, Relay: fmt.Sprintf("MK_c%dxrelay%d", c, k)}
					var q, body, method string
					if s.Binding == "post" {
						method, body = "POST", spsim.FormBody("SAMLRequest", spsim.B64([]byte(s.XML)), "RelayState", s.Relay)
					} else {
						method, q = "GET", "SAMLRequest="+url.QueryEscape(spsim.DeflateB64(s.XML))+"&RelayState="+url.QueryEscape(s.Relay)
					}
					call := do("sso", env.Req{Method: method, Path: env.PathSSO, Query: q, Body: body})
					if ev := call.First("CreateAuthRequest"); ev != nil && !ev.Err {
						st.sessions = append(st.sessions, ev.Res)
						okPair := false
						if len(ev.Args) >= 4 {
							for _, p := range refConsumerChoice(st.sp.ACS, a.ProtocolBinding) {
								if p >= 0 && ev.Args[0] == st.sp.ACS[p].Location && ev.Args[1] == st.sp.ACS[p].Binding {
									okPair = true
								}
							}
							st.acsOf[ev.Res] = ev.Args[0]
						}
						if len(ev.Args) >= 4 && (!okPair || ev.Args[3] != fmt.Sprintf("appc%d", c) || ev.Args[2] != s.Relay) {
							report("foreign_data_persisted", "sso", fmt.Sprintf("client %d (requested binding %q) persisted %v - not determined by its own request and registration", c, a.ProtocolBinding, ev.Args), call)
						}
					} else if call.Panic == "" {
						report("own_request_rejected", "sso", fmt.Sprintf("client %d: status %d", c, call.D.Status), call)
					}
				case op < 6:
					id := st.sessions[lr.Intn(len(st.sessions))]
					done := lr.Intn(3) > 0
					kind := "callback_pending"
					if done {
						e.W.Request(id).SetDone(true)
						kind = "callback_done"
					}
					call := do(kind, env.Req{Path: env.PathLogin, Query: "id=" + url.QueryEscape(id)})
					if call.Panic == "" && done {
						if !call.D.Success() {
							// a provider may treat a request as used up once it has been answered: only the first callback
							// of a completed session has to succeed
							if !st.answered[id] {
								report("own_callback_failed", kind, fmt.Sprintf("client %d: completed session %s not answered with Success at its first callback (status %d)", c, id, call.D.Status), call)
							} else {
								kinds["callback_repeated_refused"].Add(1)
							}
						} else {
							st.answered[id] = true
							m := call.D.Msg
							if d := setDiffList(attrMultiset(st.ref), attrMultiset(msgAttrs(m))); d != "" {
								report("reply_not_determined_by_own_request", kind, fmt.Sprintf("client %d: attribute statement differs from the registered record of %s: %s", c, st.user.Username, d), call)
							}
							if m.NameID != st.user.Username || m.Issuer != entityOf(st.host) || len(m.Audiences) != 1 || m.Audiences[0] != st.sp.EntityID || !strings.HasPrefix(call.D.RelayState, fmt.Sprintf("MK_c%dx", c)) || m.Destination != st.acsOf[id] {
								report("reply_not_determined_by_own_request", kind, fmt.Sprintf("client %d: NameID %q Issuer %q Audience %v RelayState %q Destination %q", c, m.NameID, m.Issuer, m.Audiences, call.D.RelayState, m.Destination), call)
							}
						}
					}
				case op < 7:
					l := conformantLogout(lr, st.sp)
					l.ID = fmt.Sprintf("MK_c%dxlogout%d", c, k)
					call := do("logout", env.Req{Method: "POST", Path: env.PathSLO, Body: spsim.FormBody("SAMLRequest", spsim.B64([]byte(l.XML(lr))), "RelayState", fmt.Sprintf("MK_c%dxlrelay%d", c, k))})
					if call.Panic == "" && (call.D.Msg == nil || call.D.Msg.InResponseTo != l.ID || call.D.Msg.Issuer != entityOf(st.host)) {
						report("reply_not_determined_by_own_request", "logout", fmt.Sprintf("client %d: logout reply %+v", c, call.D.Msg), call)
					}
				case op < 8:
					q := conformantQuery(lr, st.sp, st.user.Username)
					q.ID = fmt.Sprintf("MK_c%dxquery%d", c, k)
					q.Destination = ""
					if lr.Intn(3) == 0 {
						askForSomeValues(lr, q, st.user)
					}
					call := do("query", env.Req{Method: "POST", Path: env.PathAttr, Body: q.XML(lr), CT: "text/xml"})
					if call.Panic == "" && (!call.D.Success() || call.D.Msg.InResponseTo != q.ID || call.D.Msg.NameID != st.user.Username) {
						report("reply_not_determined_by_own_request", "query", fmt.Sprintf("client %d: query reply status %d", c, call.D.Status), call)
					} else if call.Panic == "" {
						// the attributes are those of the record the query names, as registered
						if d, _ := queryFilterDiff(st.ref, q.Attrs, msgAttrs(call.D.Msg)); d != "" {
							report("reply_not_determined_by_own_request", "query", fmt.Sprintf("client %d: attributes differ from the registered record of %s: %s", c, st.user.Username, d), call)
						}
					}
				case op < 9:
					call := do("metadata", env.Req{Path: env.PathMetadata})
					if call.Panic == "" && (!strings.Contains(string(call.D.Body), `entityID="`+entityOf(st.host)+`"`) || !strings.Contains(string(call.D.Body), `Location="https://`+st.host+`/saml/SSO"`)) {
						report("reply_not_determined_by_own_request", "metadata", fmt.Sprintf("client %d: metadata for host %s has another entityID", c, st.host), call)
					}
				default:
					do("certificate", env.Req{Path: env.PathCert})
				}
			}
		}(c)
	}
	close(start)
	wg.Wait()
	if mut := e.W.Mutated(); mut != "" {
		r.Violate(core.Violation{Clause: "storage_record_changed", Class: "round", Reason: "a record owned by the storage was written to while serving requests, so later replies depend on earlier foreign requests: " + mut, Workload: wl, Index: idx})
	}

	// interleaving evidence from the storage event log
	events := e.W.AllEvents()
	first, last := map[string]int{}, map[string]int{}
	for i, ev := range events {
		if _, ok := first[ev.Tag]; !ok {
			first[ev.Tag] = i
		}
		last[ev.Tag] = i
	}
	interleaved, sigs := 0, map[[8]byte]bool{}
	for tag, f := range first {
		var b strings.Builder
		foreign := 0
		for i := f; i <= last[tag]; i++ {
			if events[i].Tag != tag {
				foreign++
				b.WriteString(events[i].Op[:3])
			} else {
				b.WriteString("|")
			}
		}
		if foreign > 0 {
			interleaved++
			h := sha256.Sum256([]byte(b.String()))
			var k [8]byte
			copy(k[:], h[:8])
			sigs[k] = true
		}
	}
	r.Count("requests", total.Load())
	if forwarded {
		r.Count("rounds_with_forwarded_issuer", 1)
	}
	r.Count("requests_with_foreign_storage_events_inside_their_span", int64(interleaved))
	r.Count("distinct_interleaving_signatures", int64(len(sigs)))
	r.Max("max_in_flight", maxInflight.Load())
	r.Count("ids_checked", int64(len(ids.seen)))
	var ks []string
	for k, v := range kinds {
		r.Count("op_"+k, v.Load())
		ks = append(ks, k)
	}
	sort.Strings(ks)
	r.EvalBulk(total.Load(), int64(len(sigs)))
	for _, v := range vios {
		r.Violate(core.Violation{Clause: v.clause, Class: v.class, Reason: v.reason, Workload: wl, Index: idx, Observed: v.obs})
	}
	if maxInflight.Load() < 2 {
		r.Inconclusive(fmt.Sprintf("round %d never had two requests in flight", idx))
	}
	if idx == 0 {
		r.Sample("round", map[string]any{"issuer_from_forwarded_header": forwarded, "clients": clients, "gomaxprocs": procs, "ops_per_client": ops, "requests": total.Load(), "max_in_flight": maxInflight.Load(), "interleaved_requests": interleaved, "distinct_interleaving_signatures": len(sigs)})
	}
}

// c15IDs hammers the exported ID generator from many goroutines: every value must be an xs:ID and unique.
func c15IDs(r *core.Run, idx int, rng *rand.Rand) {
	const wl = "id_generator"
	const G, N = 32, 12000
	out := make([][]string, G)
	var wg sync.WaitGroup
	for g := 0; g < G; g++ {
		wg.Add(1)
		go func(g int) {
			defer wg.Done()
			ids := make([]string, N)
			for i := range ids {
				ids[i] = provider.NewID()
				if i%64 == 0 {
					runtime.Gosched()
				}
			}
			out[g] = ids
		}(g)
	}
	wg.Wait()
	seen := make(map[string]int, G*N)
	dups, bad := 0, 0
	first := ""
	for g, ids := range out {
		for _, id := range ids {
			if !isNCName(id) {
				bad++
			}
			if _, ok := seen[id]; ok {
				dups++
				if first == "" {
					first = id
				}
			}
			seen[id] = g
		}
	}
	r.EvalBulk(G*N, int64(len(seen)))
	r.Count("ids_from_generator", G*N)
	if dups > 0 {
		r.Violate(core.Violation{Clause: "duplicate_id", Class: "id_generator", Reason: fmt.Sprintf("%d of %d IDs drawn concurrently by %d goroutines are duplicates (e.g. %s)", dups, G*N, G, first), Workload: wl, Index: idx})
	}
	if bad > 0 {
		r.Violate(core.Violation{Clause: "id_syntax", Class: "id_generator", Reason: fmt.Sprintf("%d IDs are not xs:ID values", bad), Workload: wl, Index: idx})
	}
}

type failingEntropy struct{}

func (failingEntropy) Read(p []byte) (int, error) { return 0, errors.New("injected entropy fault") }

// c15Entropy: the random source the ID generator draws from fails for a while (it is process-wide, so this workload runs
// alone). A request may die then; but every reply that does leave the provider carries IDs that are xs:ID values,
// distinct from each other and from every ID seen before and after.
func c15Entropy(r *core.Run, idx int, rng *rand.Rand) {
	const wl = "entropy_fault"
	e := env.Static(env.Opts{MetaSigAlg: spsim.AlgRSASHA256})
	d := stdSP(0)
	d.SLO = []spsim.SLO{{Binding: spsim.BindPost, Location: "https://sp0.example/slo"}}
	mustRegister(e.W, d, "appA")
	seen := map[string]string{}
	dups, bad, died, replies := 0, 0, 0, 0
	var first string
	serve := func(phase string, n int) {
		for k := 0; k < n; k++ {
			sc := randScenario(rng, fmt.Sprintf("MK%dp%s%dx", idx, phase, k), false)
			sc.Host = ""
			sc.install(e.W)
			l := conformantLogout(rng, d)
			calls := []*env.Call{
				e.Do(env.Req{Path: env.PathLogin, Query: "id=" + url.QueryEscape(sc.S.ID)}),
				e.Do(env.Req{Path: env.PathMetadata}),
				e.Do(env.Req{Method: "POST", Path: env.PathSLO, Body: spsim.FormBody("SAMLRequest", spsim.B64([]byte(l.XML(rng))))}),
			}
			for ci, c := range calls {
				if c.Panic != "" {
					died++
					continue
				}
				var ids []string
				if c.D.Msg != nil {
					ids = append(ids, c.D.Msg.AllIDs...)
				}
				if ci == 1 && c.D.Doc != nil {
					for _, el := range c.D.Doc.Root().FindElements("//*[@ID]") {
						ids = append(ids, el.SelectAttrValue("ID", ""))
					}
					if id := c.D.Doc.Root().SelectAttrValue("ID", ""); id != "" {
						ids = append(ids, id)
					}
				}
				if len(ids) > 0 {
					replies++
				}
				inReply := map[string]bool{}
				for _, id := range ids {
					if id == "" || inReply[id] && ci == 1 {
						continue // the root's ID is collected twice for metadata
					}
					if !isNCName(id) {
						bad++
					}
					where := fmt.Sprintf("%s/%d/%d", phase, k, ci)
					if prev, ok := seen[id]; ok && !(inReply[id] && prev == where) {
						dups++
						if first == "" {
							first = fmt.Sprintf("%q in %s and %s", id, prev, where)
						}
					}
					seen[id] = where
					inReply[id] = true
				}
			}
		}
	}
	serve("healthy", 6)
	uuid.SetRand(failingEntropy{})
	serve("fault", 6)
	uuid.SetRand(nil)
	serve("recovered", 6)
	r.Eval(fmt.Sprintf("entropy|%d", idx))
	r.Count("replies_around_entropy_fault", int64(replies))
	r.Count("requests_that_died_during_entropy_fault", int64(died))
	if dups > 0 {
		r.Violate(core.Violation{Clause: "duplicate_id", Class: "entropy_fault", Reason: fmt.Sprintf("%d IDs were issued more than once around a failure of the random source (e.g. %s)", dups, first), Workload: wl, Index: idx})
	}
	if bad > 0 {
		r.Violate(core.Violation{Clause: "id_syntax", Class: "entropy_fault", Reason: fmt.Sprintf("%d IDs are not xs:ID values", bad), Workload: wl, Index: idx})
	}
}

func init() {
	register(&Prop{
		ID: "C15", Level: "exploration", Race: true, DeathIsViolation: true,
		TimeoutQuick: 10 * time.Minute, TimeoutThorough: 60 * time.Minute,
		Build: func(c *Ctx) []core.Workload {
			r := c.Run
			r.Rule = "one provider instance with a host-derived issuer (from the Host header, or - every other round - from the Forwarded header while all clients share one upstream Host) serves N = 16 / 32 / 64 concurrent clients (GOMAXPROCS 2 / 4 / 16), each running a random mix of SSO, callback (pending and completed), logout, attribute query, metadata and certificate requests for its own sessions, service provider, user and Host, with Gosched / microsecond-millisecond delays injected inside every storage call and at the start of ResponseWriter.Write (a slow connection); the binary is built with -race. Monitors: (1) every DATA RACE report of the race detector with repo frames; (2) every canary token (client number in request IDs, RelayState, consumer URLs, entity IDs, Host, user attributes) found in a fully decoded reply must be the requesting client's, and what is persisted must be the client's own; (3) every Response / Assertion / metadata ID seen in the run is an xs:ID and pairwise distinct. The concurrent workloads of C06/C07 (six clients of three hosts), C08 (one request submitted twice, both held inside persist), C07 (aborted neighbour) and C16 (first requests of a fresh registration all at once) run once more in this race-detector build; the storage's user records are compared with their registered state after every round. Evidence lists max in-flight requests and distinct interleaving signatures of the storage log. Evaluations = requests served; distinct = distinct interleaving signatures (the sequence of other requests' storage operations observed between a request's first and last storage event)."
			r.Require("requests", int64(c.Pick(3000, 100000)))
			r.Require("max_in_flight", 4)
			r.Require("distinct_interleaving_signatures", 100)
			r.Require("ids_checked", 1000)
			r.Require("race_log_files", 0)
			r.Require("rounds_with_forwarded_issuer", 1)
			r.Require("ids_from_generator", 300000)
			return []core.Workload{
				{Name: "concurrent_rounds", N: c.Pick(4, 27), Workers: 1, Fn: c15Round},
				{Name: "id_generator", N: c.Pick(1, 6), Workers: 1, Fn: c15IDs},
				// the concurrent workloads of other checks once more, in the race-detector build: clients of several hosts in
				// flight on one provider, one request submitted twice at once, a request beside an aborted neighbour
				{Name: "multi_host_concurrent", N: c.Pick(12, 120), Fn: func(r *core.Run, idx int, rng *rand.Rand) {
					multiHostConcurrent(r, "multi_host_concurrent", idx, rng, idx%2 == 0)
				}},
				{Name: "concurrent_duplicates", N: c.Pick(16, 160), Fn: c08ConcurrentDuplicates},
				{Name: "aborted_neighbour", N: c.Pick(12, 120), Fn: c07AbortedNeighbour},
				{Name: "concurrent_signed_requests", N: c.Pick(4, 40), Workers: 1, Fn: c07ConcurrentSigned},
				{Name: "concurrent_first_use", N: c.Pick(10, 100), Fn: c16ConcurrentFirstUse},
				{Name: "tenants_overlapping", N: c.Pick(30, 300), Fn: func(r *core.Run, idx int, rng *rand.Rand) { tenantOverlap(r, "tenants_overlapping", idx, rng) }},
				{Name: "entropy_fault", N: c.Pick(2, 10), Workers: 1, Fn: c15Entropy},
				{Name: "after_many_failed_neighbours", N: c.Pick(4, 24), Fn: c15AfterFailures},
			}
		},
	})
}

// c15AfterFailures: many requests of other sessions fail on one provider (each at one storage call of its own: the
// signing key cannot be read, the user is unknown, the service provider lookup fails ...), several of them at the same
// time. Afterwards the requests of healthy sessions are served as if nothing had happened: a reply depends on its own
// request and the records it names, not on how the requests before it ended. (Each healthy request carries a generous
// deadline, so that a provider that makes it wait for something the failed ones never gave back answers at all.)
func c15AfterFailures(r *core.Run, idx int, rng *rand.Rand) {
	const wl = "after_many_failed_neighbours"
	e := env.Static(env.Opts{})
	e.Name = fmt.Sprintf("af%d-", idx)
	sp := stdSP(0)
	mustRegister(e.W, sp, "appA")
	failOp := []string{"GetResponseSigningKey", "SetUserinfoWithUserID", "GetEntityIDByAppID", "GetResponseSigningKey"}[idx%4]
	failKind := []string{sim.FaultError, sim.FaultTimeout, sim.FaultNilRecord, sim.FaultPoolClosed}[(idx/4)%4]
	if failOp != "GetResponseSigningKey" && failKind == sim.FaultNilRecord {
		failKind = sim.FaultError
	}
	e.W.Plan = func(tag, op string, _ int) string {
		if strings.Contains(tag, "bad") && op == failOp {
			return failKind
		}
		return ""
	}
	nBad := 4*runtime.GOMAXPROCS(0) + 8
	var wg sync.WaitGroup
	for i := 0; i < nBad; i++ {
		sc := randScenario(rng, fmt.Sprintf("MK%db%d", idx, i), false)
		sc.Host = ""
		sc.install(e.W)
		wg.Add(1)
		go func(i int, id string) {
			defer wg.Done()
			e.Do(env.Req{Path: env.PathLogin, Query: "id=" + url.QueryEscape(id), Tag: fmt.Sprintf("af%d-bad%d", idx, i)})
		}(i, sc.S.ID)
		if i%4 == 3 {
			wg.Wait() // four at a time
		}
	}
	wg.Wait()
	r.Count("failed_neighbour_requests", int64(nBad))
	class := fmt.Sprintf("after_failures|%s|%s", failOp, failKind)
	for k := 0; k < 3; k++ {
		sc := randScenario(rng, fmt.Sprintf("MK%dg%d", idx, k), false)
		sc.Host = ""
		sc.S.Binding = []string{spsim.BindPost, spsim.BindRedirect, spsim.BindPost}[k]
		sc.install(e.W)
		ctx, cancel := context.WithTimeout(context.Background(), 15*time.Second)
		t0 := time.Now()
		call := e.Do(env.Req{Path: env.PathLogin, Query: "id=" + url.QueryEscape(sc.S.ID), Ctx: ctx, Tag: fmt.Sprintf("af%d-good%d", idx, k)})
		cancel()
		r.Eval(fmt.Sprintf("%s|%d|%d", class, idx, k))
		r.Count("healthy_requests_after_failed_neighbours", 1)
		if call.Panic != "" || !call.D.Success() {
			why := call.Panic
			if why == "" {
				why = fmt.Sprintf("status %d kind %s after %s", call.D.Status, call.D.Kind, time.Since(t0).Round(100*time.Millisecond))
				if call.D.Msg != nil {
					why += " " + call.D.Msg.StatusCode
				}
			}
			r.Violate(core.Violation{Clause: "own_callback_failed", Class: class, Reason: fmt.Sprintf("completed session %s not answered with Success after %d requests of other sessions had failed at %s: %s", sc.S.ID, nBad, failOp, why), Workload: wl, Index: idx,
				Case: map[string]any{"failed_neighbours": nBad, "failing_call": failOp, "fault": failKind}, Observed: call.Describe()})
			return
		}
	}
}
