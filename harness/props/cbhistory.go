package props

import (
	"fmt"
	"math/rand"
	"strings"

	"verif/harness/core"
	"verif/harness/env"
	"verif/harness/spsim"
)

// cbHistory is a workload shared by the checks that judge callback replies (C02, C03, C04, C17): ONE provider, two
// completed sessions that collide in what sessions can collide in (the SP-chosen AuthnRequest ID, the RelayState,
// the user, the application), called back repeatedly and alternately - A, A, B, A, A, B - while the registration of
// A's application may change in between. Every reply is judged on its own by the clauses of the property; a
// repetition may be refused (a provider may treat a request as used up), but whatever is answered has to be right.
func cbHistory(prop string) func(r *core.Run, idx int, rng *rand.Rand) {
	return func(r *core.Run, idx int, rng *rand.Rand) {
		const wl = "callback_histories"
		if prop == "C17" {
			c17Skeletons()
			if c17SkelErr != "" {
				return
			}
		}
		canary := fmt.Sprintf("MK%dh", idx)
		a := randScenario(rng, canary+"a", (prop == "C03" || prop == "C04") && idx%3 == 0)
		b := randScenario(rng, canary+"b", false)
		if prop == "C02" || prop == "C17" {
			a.Host, a.Opts.HostPath = "", ""
		}
		b.Host, b.Opts = a.Host, a.Opts
		collide := []string{"authn_request_id", "authn_request_id", "relay_state", "user", "application", "nothing"}[idx%6]
		switch collide {
		case "authn_request_id":
			b.S.AuthRequestID = a.S.AuthRequestID
			if idx%12 < 6 {
				b.S.RelayState = a.S.RelayState
			}
		case "relay_state":
			b.S.RelayState = a.S.RelayState
		case "user":
			b.U = a.U
			b.S.UserID = a.S.UserID
		case "application":
			b.S.AppID, b.Audience = a.S.AppID, a.Audience
		}
		a.S.Binding = []string{spsim.BindPost, spsim.BindRedirect}[(idx/6)%2]
		if prop == "C17" {
			a.S.Binding, b.S.Binding = spsim.BindPost, spsim.BindPost
			a.S.RelayState = hostileRelay(rng)
			if collide == "relay_state" {
				b.S.RelayState = a.S.RelayState
			}
		}
		if prop == "C04" && idx%5 == 3 {
			// a RelayState beyond the 80 bytes the binding recommends
			a.S.RelayState += "/deep/link?" + strings.Repeat(plainString(rng, 6)+"&", 10+rng.Intn(20))
			if collide == "relay_state" {
				b.S.RelayState = a.S.RelayState
			}
		}
		e := a.build()
		b.install(e.W)
		if prop == "C17" && idx%2 == 0 {
			// the provider's first page is an SSO error reply (a request refused after its consumer was chosen)
			spd := stdSP(0)
			spd.AuthnRequestsSigned = ""
			spd.ACS = []spsim.ACS{{Binding: spsim.BindPost, Location: "https://sp0.example/acs/first-page", Index: "0"}}
			mustRegister(e.W, spd, "app-first-page")
			bad := validAuthn(rng, spd)
			bad.Destination = "https://elsewhere.example/SSO"
			s0 := ssoSend{Binding: []string{"redirect", "post"}[rng.Intn(2)], XML: bad.XML(rng), HasRelay: true, Relay: hostileRelay(rng)}
			c0, _ := s0.do(e)
			if c0.Panic == "" && c0.D.Kind == "form" {
				r.Count("histories_starting_with_an_sso_error_page", 1)
			}
		}
		reRegister := idx%4 == 1
		var pub *metaView
		if prop == "C04" {
			pub = fetchMeta(e, env.PathMetadata, a.Host, nil)
			if pub.Err != "" || pub.Cert == nil {
				r.Violate(core.Violation{Clause: "published_certificate", Class: "callback_history", Reason: "metadata does not publish a usable signing certificate: " + pub.Err, Workload: wl, Index: idx})
				return
			}
		}
		steps := []struct {
			name string
			sc   *cbScenario
		}{{"A#1", a}, {"A#2", a}, {"B#1", b}, {"A#3", a}, {"A#4", a}, {"B#2", b}}
		r.Eval(fmt.Sprintf("history|%s|%s|%s|%v|%d", collide, bindName(a.S.Binding), bindName(b.S.Binding), reRegister, len(a.S.RelayState)))
		for si, st := range steps {
			if reRegister && si == 2 {
				// the application is registered under another entity ID from now on
				a.Audience += "/v2"
				e.W.SetApp(a.S.AppID, a.Audience)
				if collide == "application" {
					b.Audience = a.Audience
				}
				r.Count("histories_with_changed_registration", 1)
			}
			sc := st.sc
			call := sc.callback(e)
			class := fmt.Sprintf("callback_history|collide=%s|%s|%s", collide, st.name, bindName(sc.S.Binding))
			if reRegister && si >= 2 {
				class += "|app_re_registered"
			}
			desc := map[string]any{"step": st.name, "collision": collide, "session_a": a.S, "session_b": b.S, "audience": sc.Audience, "re_registered": reRegister && si >= 2}
			viol := func(clause, reason string) {
				r.Violate(core.Violation{Clause: clause, Class: class, Reason: reason, Workload: wl, Index: idx, Case: desc, Observed: call.Describe()})
			}
			r.Count("history_callbacks", 1)
			if call.Panic != "" {
				viol("panic", call.Panic)
				return
			}
			d := call.D
			if d.Success() {
				r.Count("history_success_replies", 1)
				if si > 0 {
					r.Count("history_success_replies_after_the_first", 1)
				}
			}
			// a reply with status 200 that is neither a page, nor a message, nor an error is nothing a browser can act on
			if d.Status == 200 && d.Msg == nil && d.Kind != "form" && len(strings.TrimSpace(string(d.Body))) == 0 {
				viol("empty_reply", fmt.Sprintf("callback %s of a completed session answered with status 200 and an empty body", st.name))
				continue
			}
			switch prop {
			case "C02":
				if d.Msg == nil {
					continue
				}
				want := "form"
				if sc.S.Binding == spsim.BindRedirect {
					want = "redirect"
				}
				if d.Kind != "form" && d.Kind != "redirect" {
					r.Count("history_reply_not_handed_to_the_browser_for_delivery", 1)
					continue // a message returned in the body has no target
				}
				if d.Kind != want {
					viol("delivery_binding", fmt.Sprintf("stored binding %s but reply delivered as %s", bindName(sc.S.Binding), d.Kind))
					continue
				}
				if !deliveryTargetOK(d, sc.S.ACS) {
					viol("target_not_stored_url", fmt.Sprintf("delivery target %q, consumer URL persisted for this request %q", d.Target, sc.S.ACS))
				}
				if d.Msg.Destination != sc.S.ACS {
					viol("destination_not_stored_url", fmt.Sprintf("Destination %q, stored %q", d.Msg.Destination, sc.S.ACS))
				}
				if d.Success() && d.Msg.SCRecipient != sc.S.ACS {
					viol("recipient_not_stored_url", fmt.Sprintf("Recipient %q, stored %q", d.Msg.SCRecipient, sc.S.ACS))
				}
			case "C03":
				if !d.Success() {
					continue
				}
				fails, _ := checkSuccessBinding(sc, call, d.Msg)
				for _, f := range fails {
					viol(f.Clause, f.Reason)
				}
			case "C04":
				if !d.Success() {
					if d.Kind == "redirect" && d.Status == 302 && d.Msg == nil {
						viol("redirect_reply_unparseable", "the Location sent carries no recoverable SAMLResponse parameter: "+clipS(d.Location, 300))
					}
					continue
				}
				fails, kind, oerr := verifyEmitted(d, pub.Cert)
				if oerr != nil {
					r.Inconclusive("python oracle unavailable: " + oerr.Error())
					return
				}
				r.Count("verified_"+kind, 1)
				for _, f := range fails {
					viol(f.Clause, f.Reason)
				}
			case "C17":
				if d.Kind != "form" {
					r.Count("not_a_form_"+d.Kind, 1)
					// the first callback of a completed session with an https consumer and nothing failing: the login has
					// to be delivered, and the page is how (a provider may refuse repetitions)
					if si == 0 && d.Status >= 500 && strings.HasPrefix(sc.S.ACS, "https://") {
						viol("no_page_for_a_completed_login", fmt.Sprintf("the first callback of a completed session was answered with status %d instead of the auto-submit page: %s", d.Status, clipS(string(d.Body), 160)))
					}
					continue
				}
				c17Judge(r, wl, idx, class, c17PostSkel, d, sc.S.ACS, sc.S.RelayState, desc, call)
			}
		}
	}
}

func bindName(b string) string { return b[strings.LastIndex(b, ":")+1:] }
