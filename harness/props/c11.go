package props

import (
	"bytes"
	"fmt"
	"math/rand"
	"net/url"
	"runtime"
	"strings"
	"sync"
	"sync/atomic"
	"time"

	"github.com/zitadel/saml/pkg/provider"
	"github.com/zitadel/saml/pkg/provider/key"
	samlxml "github.com/zitadel/saml/pkg/provider/xml"

	"verif/harness/core"
	"verif/harness/env"
	"verif/harness/keys"
	"verif/harness/sim"
	"verif/harness/spsim"
	"verif/harness/verify"
)

// C11 — published metadata matches what the IdP actually does.

type epConf struct {
	Mode string // default | path | path_noslash | url
	Path string
	URL  string
}

func (c epConf) endpoint() *provider.Endpoint {
	switch c.Mode {
	case "default":
		return nil
	case "url":
		e := provider.NewEndpointWithURL(c.Path, c.URL)
		return &e
	}
	e := provider.NewEndpoint(c.Path)
	return &e
}

// route is the path this endpoint is served at.
func (c epConf) route(def string) string {
	p := c.Path
	if c.Mode == "default" {
		p = def
	}
	return "/" + strings.TrimPrefix(p, "/")
}

// pathUnescaped is the path a server derives from an advertised location whose path is percent-encoded ("" when it
// cannot be decoded).
func pathUnescaped(p string) string {
	u, err := url.PathUnescape(p)
	if err != nil {
		return ""
	}
	return u
}

// foldHost lower-cases scheme and authority of a URL: how a host name is spelt (IdP.Example vs idp.example) is not
// what this property is about, as long as metadata and responses agree (which the Issuer clauses judge).
func foldHost(u string) string {
	i := strings.Index(u, "://")
	if i < 0 {
		return u
	}
	j := strings.IndexAny(u[i+3:], "/?#")
	if j < 0 {
		return strings.ToLower(u)
	}
	return strings.ToLower(u[:i+3+j]) + u[i+3+j:]
}

func randEp(rng *rand.Rand, used map[string]bool, name string) epConf {
	for {
		c := epConf{Mode: []string{"default", "default", "path", "path_noslash", "url"}[rng.Intn(5)]}
		seg := func() string {
			// now and then a segment that is percent-encoded on the wire (a client requests the advertised location
			// escaped, the server hands the handler the decoded path)
			return []string{"a", "sso", "x-y", "v1.2", "Caps", "under_score", "t~", "pr\u00fcfen", "single sign on", "\u540d\u524d", "a(b)", "it's"}[rng.Intn(12)] + plainString(rng, 3)
		}
		switch c.Mode {
		case "path":
			c.Path = "/" + seg()
			if rng.Intn(2) == 0 {
				c.Path += "/" + seg()
			}
			if rng.Intn(4) == 0 {
				c.Path += "/" // a trailing slash is part of the route
			}
		case "path_noslash":
			c.Path = seg()
			if rng.Intn(2) == 0 {
				c.Path += "/" + seg()
			}
			if rng.Intn(4) == 0 {
				c.Path += "/"
			}
		case "url":
			c.Path = "/" + seg()
			c.URL = "https://ext-" + name + ".example/" + seg()
		}
		r := c.route(map[string]string{"cert": "certificate", "cb": "login", "sso": "SSO", "slo": "SLO", "attr": "attribute", "meta": "metadata"}[name])
		if used[r] {
			continue
		}
		used[r] = true
		return c
	}
}

func c11Case(r *core.Run, idx int, rng *rand.Rand) {
	const wl = "configurations"
	used := map[string]bool{"/healthz": true, "/ready": true}
	// reserve the default routes so that custom paths never collide with them
	for _, d := range []string{"/certificate", "/login", "/SSO", "/SLO", "/attribute", "/metadata"} {
		used[d] = true
	}
	delete(used, "")
	eps := map[string]epConf{}
	for _, n := range []string{"cert", "cb", "sso", "slo", "attr", "meta"} {
		// default routes may be used by their own endpoint
		c := randEp(rng, used, n)
		eps[n] = c
	}
	// now and then the configured paths nest or share a prefix (each is still a route of its own)
	if rng.Intn(5) == 0 {
		base := "/" + plainString(rng, 3)
		layouts := [][]string{{base, base + "/logout", base + "/attributes", base + "/login", base + "/cert"}, {base, base + "_logout", base + "_attr", base + "_login", base + "_cert"}, {base + "/", base + "/x", base + "/x/y", base + "/x/y/z", base + "/x/y/z/c"}}
		l := layouts[rng.Intn(len(layouts))]
		for i, n := range []string{"sso", "slo", "attr", "cb", "cert"} {
			eps[n] = epConf{Mode: "path", Path: l[i]}
		}
	}
	if eps["meta"].Mode == "url" { // the entity ID may be any URL; keep it path-configured half of the time
		if rng.Intn(2) == 0 {
			m := eps["meta"]
			m.Mode, m.URL = "path", ""
			eps["meta"] = m
		}
	}
	want := []string{"", "", "false", "0", "true", "1", "TRUE", "yes"}[rng.Intn(8)]
	o := env.Opts{
		WantSigned: want,
		Endpoints:  &provider.EndpointConfig{Certificate: eps["cert"].endpoint(), Callback: eps["cb"].endpoint(), SingleSignOn: eps["sso"].endpoint(), SingleLogOut: eps["slo"].endpoint(), Attribute: eps["attr"].endpoint()},
		Metadata:   eps["meta"].endpoint(),
		SigAlg:     []string{spsim.AlgRSASHA1, spsim.AlgRSASHA256}[rng.Intn(2)],
	}
	if rng.Intn(3) == 0 {
		o.EncAlg = "http://www.w3.org/2001/04/xmlenc#aes256-cbc"
	}
	if rng.Intn(3) == 0 {
		o.MetaPath = []string{"/saml/v2/metadata", "other-metadata", "/"}[rng.Intn(3)]
	}
	if rng.Intn(3) == 0 {
		o.DigestAlg = []string{"http://www.w3.org/2001/04/xmlenc#sha256", "http://www.w3.org/2000/09/xmldsig#sha1", "http://www.w3.org/2001/04/xmlenc#sha512"}[rng.Intn(3)]
	}
	if rng.Intn(3) == 0 {
		o.Org = &provider.Organisation{Name: "Org " + plainString(rng, 3), DisplayName: "D", URL: "https://org.example"}
	}
	if rng.Intn(3) == 0 {
		o.Contact = &provider.ContactPerson{ContactType: "technical", Company: "C", GivenName: "G", SurName: "S", EmailAddress: "mailto:x@y.example", TelephoneNumber: "+1"}
	}
	if rng.Intn(3) == 0 {
		o.MetaIDP = &provider.MetadataIDPConfig{ValidUntil: time.Duration(1+rng.Intn(48)) * time.Hour, CacheDuration: "PT2H", ErrorURL: "https://idp.example/err"}
	}
	if rng.Intn(4) == 0 {
		o.MetaSigAlg = spsim.AlgRSASHA256
	}
	if rng.Intn(4) == 0 {
		o.TimeFormat = timeLayouts[rng.Intn(len(timeLayouts))]
	}
	// issuer
	// now and then the provider runs in insecure mode (WithAllowInsecure): static issuers may be http, derived ones are
	scheme := "https://"
	if rng.Intn(5) == 0 {
		scheme, o.Insecure = "http://", true
		r.Count("configurations_in_insecure_mode", 1)
	}
	issMode := []string{"static", "static_path", "static_slash", "host", "host_path", "forwarded"}[rng.Intn(6)]
	var hosts []string
	hdrFor := func(h string) map[string][]string { return nil }
	issuerFor := func(h string) string { return "" }
	switch issMode {
	case "static":
		o.Issuer = scheme + "idp-" + plainString(rng, 3) + ".example"
		if rng.Intn(3) == 0 {
			o.Issuer = scheme + "xn--bcher-kva.idp--" + plainString(rng, 2) + ".example" // internationalised names contain "--"
		}
		hosts = []string{"whatever.example", "other.example"}
		issuerFor = func(string) string { return o.Issuer }
	case "static_path":
		o.Issuer = scheme + "idp.example/saml/v" + plainString(rng, 2)
		hosts = []string{"whatever.example"}
		issuerFor = func(string) string { return o.Issuer }
	case "static_slash":
		o.Issuer = scheme + "idp.example/saml/"
		hosts = []string{"whatever.example"}
		issuerFor = func(string) string { return o.Issuer }
	case "host":
		hosts = []string{"a.idp.example", "b.idp.example:8443", "C.Example", "xn--mnchen-3ya.example"}
		issuerFor = func(h string) string { return scheme + "" + h }
	case "host_path":
		o.HostPath = []string{"/saml", "saml/v2", "/x/"}[rng.Intn(3)]
		hosts = []string{"a.idp.example", "b.idp.example:8443", "idp--staging.example"}
		issuerFor = func(h string) string {
			p := o.HostPath
			if !strings.HasPrefix(p, "/") {
				p = "/" + p
			}
			return scheme + "" + h + p
		}
	case "forwarded":
		o.UseFwd = true
		o.HostPath = "/saml"
		hosts = []string{"fwd-a.example", "fwd-b.example", "xn--fwd-c.example"}
		hdrFor = func(h string) map[string][]string {
			return map[string][]string{"Forwarded": {"for=192.0.2.1;host=" + h + ";proto=http"}}
		}
		issuerFor = func(h string) string { return scheme + "" + h + "/saml" }
	}
	e, err := env.New(o)
	if err != nil {
		r.Inconclusive(fmt.Sprintf("case %d: provider construction failed: %v", idx, err))
		return
	}
	spd := stdSP(0)
	spd.AuthnRequestsSigned = ""
	mustRegister(e.W, spd, "appA")
	class := fmt.Sprintf("issuer=%s|want=%q|sso=%s|slo=%s|attr=%s|cert=%s|meta=%s", issMode, want, eps["sso"].Mode, eps["slo"].Mode, eps["attr"].Mode, eps["cert"].Mode, eps["meta"].Mode)
	r.Eval(class + fmt.Sprint(o.EncAlg != "", o.Org != nil, o.Contact != nil, o.MetaIDP != nil, o.MetaSigAlg != ""))
	for hi, h := range hosts {
		reqHost := h
		if issMode == "forwarded" {
			reqHost = "internal-lb.local"
		}
		hdr := hdrFor(h)
		issuer := issuerFor(h)
		base := strings.TrimSuffix(issuer, "/")
		desc := map[string]any{"class": class, "host": h, "issuer": issuer, "endpoints": eps}
		viol := func(call *env.Call, clause, reason string) {
			v := core.Violation{Clause: clause, Class: class, Reason: reason, Workload: wl, Index: idx, Case: desc}
			if call != nil {
				v.Observed = call.Describe()
			}
			r.Violate(v)
		}
		mv := fetchMeta(e, eps["meta"].route("metadata"), reqHost, hdr)
		r.Count("metadata_documents", 1)
		if mv.Err != "" {
			viol(mv.Call, "metadata_unavailable", mv.Err)
			continue
		}
		// well-formed for a generic parser and decodable by the library
		if ok, perr, _, oerr := verify.PyWF(mv.Raw, false); oerr != nil {
			r.Inconclusive("python oracle unavailable: " + oerr.Error())
			return
		} else if !ok {
			viol(mv.Call, "metadata_not_wellformed", perr)
		}
		if _, err := samlxml.ParseMetadataXmlIntoStruct(mv.Raw); err != nil {
			viol(mv.Call, "metadata_not_decodable", err.Error())
		}
		wantEntity := base + eps["meta"].route("metadata")
		if eps["meta"].Mode == "url" {
			wantEntity = eps["meta"].URL
		}
		if foldHost(mv.EntityID) != foldHost(wantEntity) {
			viol(mv.Call, "entity_id", fmt.Sprintf("entityID %q, expected %q", mv.EntityID, wantEntity))
		}
		// advertised locations map onto routes
		check := func(kind string, got []endpoint, c epConf, def string, n int) string {
			if len(got) != n {
				viol(mv.Call, "advertised_"+kind, fmt.Sprintf("%d %s entries advertised, expected %d", len(got), kind, n))
				return ""
			}
			for _, g := range got {
				if g.Location != got[0].Location {
					viol(mv.Call, "advertised_"+kind, "bindings advertise different locations")
				}
			}
			if c.Mode == "url" {
				if got[0].Location != c.URL {
					viol(mv.Call, "advertised_"+kind, fmt.Sprintf("Location %q, configured URL %q", got[0].Location, c.URL))
				}
				return got[0].Location
			}
			if !strings.HasPrefix(foldHost(got[0].Location), foldHost(base)) || (got[0].Location[len(base):] != c.route(def) && pathUnescaped(got[0].Location[len(base):]) != c.route(def)) {
				viol(mv.Call, "advertised_"+kind, fmt.Sprintf("Location %q does not map onto the route %q under issuer %q", got[0].Location, c.route(def), issuer))
			}
			return got[0].Location
		}
		ssoLoc := check("sso", mv.SSO, eps["sso"], "SSO", 2)
		sloLoc := check("slo", mv.SLO, eps["slo"], "SLO", 2)
		attrLoc := check("attr", mv.Attr, eps["attr"], "attribute", 1)
		r.Count("locations_checked", 3)
		// key material
		if mv.Cert == nil {
			viol(mv.Call, "signing_key_descriptor", "no usable signing KeyDescriptor")
			continue
		}
		pc, perr := fetchCertPEM(e, eps["cert"].route("certificate"), reqHost, hdr)
		if pc == nil {
			viol(nil, "certificate_endpoint", perr)
		} else if !bytes.Equal(pc.Raw, mv.Cert.Raw) {
			viol(nil, "certificate_endpoint", "certificate endpoint and metadata KeyDescriptor differ")
		}
		if !bytes.Equal(mv.Cert.Raw, keys.Get("idp_resp").CertDER) {
			viol(mv.Call, "signing_key_descriptor", "KeyDescriptor is not the response signing certificate")
		}
		// --- positive probes: a conformant request to each advertised route is handled by the right handler ---
		advTrue := mv.HasWant && (mv.WantSigned == "true" || mv.WantSigned == "1")
		a := validAuthn(rng, spd)
		a.Destination = ssoLoc
		probe := ssoSend{Path: eps["sso"].route("SSO"), Binding: []string{"redirect", "post"}[rng.Intn(2)], XML: a.XML(rng), Host: reqHost, HasRelay: true, Relay: "MKrelay"}
		probe.hdr = hdr
		if probe.Binding == "redirect" {
			probe.SignKey, probe.Alg = keys.Get("sp0"), spsim.AlgRSASHA256
		} else {
			sx, err := spsim.SignEnveloped(probe.XML, keys.Get("sp0"), spsim.XMLSignOpts{Alg: spsim.AlgRSASHA256})
			if err != nil {
				panic(err)
			}
			probe.XML = sx
		}
		call, _ := probe.do(e)
		if !call.Accepted() || call.D.Status != 303 {
			viol(call, "sso_route", fmt.Sprintf("a conformant signed AuthnRequest addressed to the advertised location %q is not accepted at route %q (status %d)", ssoLoc, probe.Path, call.D.Status))
		} else {
			r.Count("sso_probe_accepted", 1)
		}
		// WantAuthnRequestsSigned advertised true <=> unsigned requests are refused (both bindings)
		for _, b := range []string{"redirect", "post"} {
			a2 := validAuthn(rng, spd)
			a2.Destination = ssoLoc
			u := ssoSend{Path: eps["sso"].route("SSO"), Binding: b, XML: a2.XML(rng), Host: reqHost}
			u.hdr = hdr
			c2, _ := u.do(e)
			if c2.Panic != "" {
				viol(c2, "panic", c2.Panic)
				continue
			}
			refused := !c2.Accepted()
			if advTrue && !refused {
				viol(c2, "want_signed_advertised_but_unsigned_accepted", fmt.Sprintf("metadata advertises WantAuthnRequestsSigned=%q but an unsigned %s request was accepted", mv.WantSigned, b))
			}
			if !advTrue && refused {
				viol(c2, "unsigned_refused_but_not_advertised", fmt.Sprintf("metadata advertises WantAuthnRequestsSigned=%q (not true) but an unsigned %s request was refused", mv.WantSigned, b))
			}
			r.Count("want_signed_probes", 1)
			if c2.D.Msg != nil && c2.D.Msg.Issuer != mv.EntityID {
				viol(c2, "issuer_of_sso_error", fmt.Sprintf("Issuer %q, entityID %q", c2.D.Msg.Issuer, mv.EntityID))
			}
			if b == "post" && idx%3 == 0 && e.IDPConf != nil {
				// the integrator changes the requirement on the configuration object it handed in, while the provider runs:
				// whether or not a running provider follows that, what it publishes and what it does stay the same thing
				old := e.IDPConf.WantAuthRequestsSigned
				e.IDPConf.WantAuthRequestsSigned = map[bool]string{true: "false", false: "true"}[advTrue]
				mvF := fetchMeta(e, eps["meta"].route("metadata"), reqHost, hdr)
				a3 := validAuthn(rng, spd)
				a3.Destination = ssoLoc
				u3 := ssoSend{Path: eps["sso"].route("SSO"), Binding: []string{"redirect", "post"}[rng.Intn(2)], XML: a3.XML(rng), Host: reqHost}
				u3.hdr = hdr
				c3, _ := u3.do(e)
				e.IDPConf.WantAuthRequestsSigned = old
				if mvF.Err == "" && c3.Panic == "" {
					advF := mvF.HasWant && (mvF.WantSigned == "true" || mvF.WantSigned == "1")
					if advF != !c3.Accepted() {
						viol(c3, "want_signed_advertisement_and_enforcement_differ_after_a_configuration_change", fmt.Sprintf("after the configuration object was changed from %q to %q at run time the metadata advertises WantAuthnRequestsSigned=%q while an unsigned request was accepted=%v", old, map[bool]string{true: "false", false: "true"}[advTrue], mvF.WantSigned, c3.Accepted()))
					}
					r.Count("want_signed_probes_after_a_configuration_change", 1)
				}
			}
		}
		// ... also while the key storage is failing: what the document advertised a moment ago is still refused
		if advTrue {
			for _, kind := range []string{sim.FaultError, sim.FaultNilRecord, sim.FaultTimeout} {
				kind := kind
				e.W.Plan = func(_, o string, _ int) string {
					if o == "GetResponseSigningKey" || o == "GetMetadataSigningKey" {
						return kind
					}
					return ""
				}
				a3 := validAuthn(rng, spd)
				a3.Destination = ssoLoc
				u3 := ssoSend{Path: eps["sso"].route("SSO"), Binding: []string{"redirect", "post"}[rng.Intn(2)], XML: a3.XML(rng), Host: reqHost}
				u3.hdr = hdr
				c3, _ := u3.do(e)
				e.W.Plan = nil
				if c3.Panic != "" {
					viol(c3, "panic", c3.Panic)
				} else if c3.Accepted() {
					viol(c3, "want_signed_advertised_but_unsigned_accepted", fmt.Sprintf("metadata advertises WantAuthnRequestsSigned=%q but an unsigned request was accepted while the key storage was failing (%s)", mv.WantSigned, kind))
				}
				r.Count("want_signed_probes_during_key_fault", 1)
			}
		}
		// an SSO error reply carries the entity ID as Issuer
		bad := ssoSend{Path: eps["sso"].route("SSO"), Binding: "redirect", XML: "<broken", Host: reqHost}
		bad.hdr = hdr
		cb, _ := bad.do(e)
		if cb.D.Msg == nil || cb.D.Msg.Issuer != mv.EntityID {
			viol(cb, "issuer_of_sso_error", fmt.Sprintf("Issuer of the SSO error reply, entityID %q", mv.EntityID))
		} else {
			r.Count("issuer_checked_sso_error", 1)
		}
		// callback Success: Issuer and verifying certificate
		sc := randScenario(rng, fmt.Sprintf("MK%dh%dx", idx, hi), false)
		sc.Host = ""
		sc.install(e.W)
		cc := e.Do(env.Req{Path: eps["cb"].route("login"), Query: "id=" + url.QueryEscape(sc.S.ID), Host: reqHost, Headers: hdr})
		// failure replies of the callback carry the same Issuer (unknown id, pending request, failing lookup)
		pend := randScenario(rng, fmt.Sprintf("MK%dh%dpx", idx, hi), false)
		pend.Host, pend.Done = "", false
		pend.install(e.W)
		for _, probe := range []struct{ what, id, failing string }{{"unknown id", "MKnobody" + randHex(rng, 4), ""}, {"pending request", pend.S.ID, ""}, {"failing request lookup", pend.S.ID, "AuthRequestByID"}, {"failing user lookup", sc.S.ID, "SetUserinfoWithUserID"}} {
			if probe.failing != "" {
				failing := probe.failing
				e.W.Plan = func(tag, op string, occ int) string {
					if op == failing {
						return sim.FaultError
					}
					return ""
				}
			}
			fc := e.Do(env.Req{Path: eps["cb"].route("login"), Query: "id=" + url.QueryEscape(probe.id), Host: reqHost, Headers: hdr})
			e.W.Plan = nil
			if fc.Panic == "" && fc.D.Msg != nil && !fc.D.Success() {
				r.Count("issuer_checked_failed_callback", 1)
				if fc.D.Msg.Issuer != mv.EntityID {
					viol(fc, "issuer_of_failed_callback", fmt.Sprintf("Issuer %q of the callback's failure response (%s), entityID %q", fc.D.Msg.Issuer, probe.what, mv.EntityID))
				}
			}
		}
		if !cc.D.Success() {
			viol(cc, "callback_route", fmt.Sprintf("callback at route %q did not produce a Success response (status %d kind %s)", eps["cb"].route("login"), cc.D.Status, cc.D.Kind))
		} else {
			if cc.D.Msg.Issuer != mv.EntityID || cc.D.Msg.AssertionIssuer != mv.EntityID {
				viol(cc, "issuer_of_assertion", fmt.Sprintf("Issuer %q / %q, entityID %q", cc.D.Msg.Issuer, cc.D.Msg.AssertionIssuer, mv.EntityID))
			}
			fails, _, oerr := verifyEmitted(cc.D, mv.Cert)
			if oerr != nil {
				r.Inconclusive("python oracle unavailable: " + oerr.Error())
				return
			}
			for _, f := range fails {
				viol(cc, "published_key_does_not_verify/"+f.Clause, f.Reason)
			}
			r.Count("issuer_checked_assertion", 1)
		}
		// logout
		l := conformantLogout(rng, spd)
		l.Destination = sloLoc
		ls := ssoSend{Path: eps["slo"].route("SLO"), Binding: []string{"redirect", "post"}[rng.Intn(2)], XML: l.XML(rng), Host: reqHost}
		ls.hdr = hdr
		lc, _ := ls.do(e)
		if lc.D.Msg == nil || lc.D.Msg.Root != "LogoutResponse" || !lc.D.Success() {
			viol(lc, "slo_route", fmt.Sprintf("a conformant LogoutRequest at route %q is not answered with a Success LogoutResponse", ls.Path))
		} else if lc.D.Msg.Issuer != mv.EntityID {
			viol(lc, "issuer_of_logout_response", fmt.Sprintf("Issuer %q, entityID %q", lc.D.Msg.Issuer, mv.EntityID))
		} else {
			r.Count("issuer_checked_logout", 1)
		}
		// attribute query
		u := randUser(rng, fmt.Sprintf("U_MK%dh%dx", idx, hi), false)
		e.W.AddUser(u)
		q := conformantQuery(rng, spd, u.Username)
		q.Destination = attrLoc
		qc := e.Do(env.Req{Method: "POST", Path: eps["attr"].route("attribute"), Body: q.XML(rng), CT: "text/xml", Host: reqHost, Headers: hdr})
		if qc.D.Kind != "soap" || !qc.D.Success() {
			viol(qc, "attribute_route", fmt.Sprintf("a conformant AttributeQuery addressed to %q at route %q is not answered with a Success SOAP response (status %d)", attrLoc, eps["attr"].route("attribute"), qc.D.Status))
		} else if qc.D.Msg.Issuer != mv.EntityID || qc.D.Msg.AssertionIssuer != mv.EntityID {
			viol(qc, "issuer_of_query_response", fmt.Sprintf("Issuer %q, entityID %q", qc.D.Msg.Issuer, mv.EntityID))
		} else {
			r.Count("issuer_checked_query", 1)
		}
		// queries the provider refuses (unknown subject; the user store failing): when the refusal is a protocol response
		// it is issued by the published entity like every other response
		for _, refuse := range []string{"unknown_subject", "user_store_fails"} {
			q2 := conformantQuery(rng, spd, u.Username)
			q2.Destination = attrLoc
			if refuse == "unknown_subject" {
				q2.Subject = "nobody-" + plainString(rng, 4)
			} else {
				e.W.Plan = func(_, o string, _ int) string {
					if o == "SetUserinfoWithLoginName" {
						return sim.FaultError
					}
					return ""
				}
			}
			rc := e.Do(env.Req{Method: "POST", Path: eps["attr"].route("attribute"), Body: q2.XML(rng), CT: "text/xml", Host: reqHost, Headers: hdr})
			e.W.Plan = nil
			if rc.Panic == "" && rc.D.Msg != nil && rc.D.Msg.Root == "Response" && !rc.D.Success() {
				if rc.D.Msg.Issuer != mv.EntityID {
					viol(rc, "issuer_of_refused_query", fmt.Sprintf("Issuer %q of the response that refuses a query (%s), entityID %q", rc.D.Msg.Issuer, refuse, mv.EntityID))
				} else {
					r.Count("issuer_checked_refused_query", 1)
				}
			}
		}
		// --- transient key-storage failure while the metadata is built: the request may fail, but a document that is
		// served is still the document of this request's issuer ---
		if hi == 0 {
			for _, op := range []string{"GetResponseSigningKey", "GetMetadataSigningKey"} {
				op := op
				var nth atomic.Int64 // the first call after installation fails, whatever context it is made with
				e.W.Plan = func(tag, o string, occ int) string {
					if o == op && nth.Add(1) == 1 {
						return sim.FaultError
					}
					return ""
				}
				mt := fetchMeta(e, eps["meta"].route("metadata"), reqHost, hdr)
				e.W.Plan = nil
				r.Count("metadata_requests_with_transient_key_fault", 1)
				if mt.Call.Panic != "" {
					viol(mt.Call, "panic", mt.Call.Panic)
				} else if mt.Err == "" {
					r.Count("metadata_served_despite_transient_key_fault", 1)
					if foldHost(mt.EntityID) != foldHost(wantEntity) {
						viol(mt.Call, "entity_id", fmt.Sprintf("after a transient key-storage failure: entityID %q, expected %q", mt.EntityID, wantEntity))
					}
					if len(mt.SSO) == 0 || mt.SSO[0].Location != ssoLoc {
						viol(mt.Call, "advertised_sso", fmt.Sprintf("after a transient key-storage failure: SingleSignOnService %v, expected location %q", mt.SSO, ssoLoc))
					}
				}
			}
		}
		// --- key rotation: what is published must follow the key storage hands out NOW ---
		if hi == len(hosts)-1 {
			oldKey := e.W.RespKey
			e.W.RespKey = &key.CertificateAndKey{Certificate: keys.Get("sp3").CertDER, Key: keys.Get("sp3").RSA}
			mv2 := fetchMeta(e, eps["meta"].route("metadata"), reqHost, hdr)
			pc2, _ := fetchCertPEM(e, eps["cert"].route("certificate"), reqHost, hdr)
			sc2 := randScenario(rng, fmt.Sprintf("MK%dr%dx", idx, hi), false)
			sc2.Host = ""
			sc2.S.Binding = spsim.BindPost
			sc2.install(e.W)
			cc2 := e.Do(env.Req{Path: eps["cb"].route("login"), Query: "id=" + url.QueryEscape(sc2.S.ID), Host: reqHost, Headers: hdr})
			r.Count("key_rotations", 1)
			switch {
			case mv2.Err != "" || mv2.Cert == nil || pc2 == nil:
				viol(mv2.Call, "after_key_rotation", "metadata or certificate endpoint unavailable after the response signing key changed: "+mv2.Err)
			case !bytes.Equal(mv2.Cert.Raw, keys.Get("sp3").CertDER):
				viol(mv2.Call, "after_key_rotation", "metadata still publishes the previous signing certificate after the response signing key changed")
			case !bytes.Equal(pc2.Raw, mv2.Cert.Raw):
				viol(mv2.Call, "after_key_rotation", "certificate endpoint and metadata KeyDescriptor differ after the response signing key changed")
			case !cc2.D.Success():
				viol(cc2, "after_key_rotation", "no Success assertion after the response signing key changed")
			default:
				fails, _, _ := verifyEmitted(cc2.D, mv2.Cert)
				for _, f := range fails {
					viol(cc2, "after_key_rotation/"+f.Clause, "assertion issued after the key change does not verify under the published certificate: "+f.Reason)
				}
			}
			e.W.RespKey = oldKey
		}
		if idx < 3 && hi == 0 {
			r.Sample("configuration", map[string]any{"class": class, "host": h, "entityID": mv.EntityID, "sso": ssoLoc, "slo": sloLoc, "attr": attrLoc, "want_advertised": mv.WantSigned})
		}
	}
}

var _ = sim.FaultError

// c11ConcurrentHosts: the metadata of several hosts is requested at the same time from one provider with a host-derived
// issuer (half of the time signed, so that a storage call lies between building and serialising the document): every
// document describes the host it was asked for - entityID and all advertised locations.
func c11ConcurrentHosts(r *core.Run, idx int, rng *rand.Rand) {
	const wl = "concurrent_hosts"
	o := env.Opts{HostPath: "/saml"}
	fwd := rng.Intn(3) == 0
	o.UseFwd = fwd
	if rng.Intn(2) == 0 {
		o.MetaSigAlg = spsim.AlgRSASHA256
	}
	e, err := env.New(o)
	if err != nil {
		panic(err)
	}
	var dctr atomic.Int64
	e.W.Delay = func(op string) {
		switch n := dctr.Add(1); n % 3 {
		case 0:
			runtime.Gosched()
		case 1:
			time.Sleep(time.Duration(30+n%300) * time.Microsecond)
		}
	}
	hosts := []string{"one.idp.example", "two.idp.example:8443", "three.example", "xn--vier-4.example"}
	var wg sync.WaitGroup
	for g := 0; g < 8; g++ {
		wg.Add(1)
		go func(g int) {
			defer wg.Done()
			h := hosts[g%len(hosts)]
			reqHost, hdr := h, map[string][]string(nil)
			if fwd {
				reqHost, hdr = "lb.internal", map[string][]string{"Forwarded": {"host=\"" + h + "\""}}
			}
			for k := 0; k < 8; k++ {
				mv := fetchMeta(e, env.PathMetadata, reqHost, hdr)
				r.Count("concurrent_metadata_documents", 1)
				class := fmt.Sprintf("concurrent_hosts|signed=%v|forwarded=%v", o.MetaSigAlg != "", fwd)
				viol := func(clause, reason string) {
					r.Violate(core.Violation{Clause: clause, Class: class, Reason: reason, Workload: wl, Index: idx, Case: map[string]any{"host": h, "client": g, "step": k}, Observed: mv.Call.Describe()})
				}
				if mv.Err != "" {
					viol("metadata_unavailable", mv.Err)
					return
				}
				base := "https://" + h + "/saml"
				if foldHost(mv.EntityID) != foldHost(base+"/metadata") {
					viol("entity_id", fmt.Sprintf("entityID %q in the document served for host %s", mv.EntityID, h))
					return
				}
				for _, ep := range append(append(append([]endpoint{}, mv.SSO...), mv.SLO...), mv.Attr...) {
					if !strings.HasPrefix(ep.Location, base+"/") {
						viol("advertised_location_of_other_host", fmt.Sprintf("the document served for host %s advertises %q", h, ep.Location))
						return
					}
				}
			}
		}(g)
	}
	wg.Wait()
	r.Eval(fmt.Sprintf("concurrent_hosts|%d", idx))
}

func init() {
	register(&Prop{
		ID: "C11", Level: "exploration", DeathIsViolation: true,
		TimeoutQuick: 5 * time.Minute, TimeoutThorough: 30 * time.Minute,
		Build: func(c *Ctx) []core.Workload {
			r := c.Run
			r.Rule = "random provider configurations (static issuer with / without path / trailing slash, host-, path- and Forwarded-derived issuers with several hosts; each endpoint default / custom path with or without leading slash / external URL; metadata endpoint; WantAuthRequestsSigned in {'',false,0,true,1,TRUE,yes}; encryption algorithm, organisation, contact, validity / caching, metadata signing, time layout). Per configuration and host the metadata is fetched, parsed (expat, library decoder), and compared with behaviour: entityID vs Issuer of SSO error replies, callback assertions, LogoutResponses and attribute-query responses; advertised locations vs routes via positive probes (a conformant request to the route must be handled by the right handler); KeyDescriptor = certificate endpoint = key verifying a fresh assertion; WantAuthnRequestsSigned advertised true <=> unsigned requests refused on both bindings; finally storage switches to another response signing key and metadata, certificate endpoint and a fresh assertion must all follow. Distinct = configuration class."
			r.Assume("route paths are pairwise distinct and free of %, ?, # (some need percent-encoding on the wire: non-ASCII, blanks); external URLs are only compared textually")
			r.Require("metadata_documents", int64(c.Pick(200, 3000)))
			r.Require("sso_probe_accepted", 100)
			r.Require("issuer_checked_assertion", 100)
			r.Require("issuer_checked_logout", 100)
			r.Require("issuer_checked_query", 100)
			r.Require("want_signed_probes", 200)
			r.Require("key_rotations", 100)
			r.Require("metadata_requests_with_transient_key_fault", 100)
			r.Require("concurrent_metadata_documents", 500)
			return []core.Workload{{Name: "configurations", N: c.Pick(200, 2500), Fn: c11Case}, {Name: "concurrent_hosts", N: c.Pick(30, 300), Fn: c11ConcurrentHosts}}
		},
		After: func(c *Ctx) { verify.Py.Close() },
	})
}
