package props

import (
	"context"
	"encoding/base64"
	"fmt"
	"math/rand"
	"net/url"
	"regexp"
	"strings"
	"sync/atomic"
	"time"

	"verif/harness/core"
	"verif/harness/env"
	"verif/harness/reply"
	"verif/harness/sim"
	"verif/harness/spsim"
	"verif/harness/verify"
)

// C06 — accepted AuthnRequests satisfy every validity condition.
//
// Two monitors run on every case:
//  (1) label by construction: a request carrying a labelled deviation must not be accepted;
//  (2) independent evaluation: whenever a request IS accepted, the submitted message is decoded by
//      the harness (own base64/inflate path, expat) and every necessary condition is re-evaluated.

var tsStrict = regexp.MustCompile(`^(\d{4}-\d{2}-\d{2}T\d{2}:\d{2}:\d{2})([.,](\d+))?Z$`)

// parseTS parses the UTC lexical forms the evaluator understands.
func parseTS(s string) (time.Time, bool) {
	m := tsStrict.FindStringSubmatch(s)
	if m == nil {
		return time.Time{}, false
	}
	t, err := time.Parse("2006-01-02T15:04:05", m[1])
	if err != nil {
		return time.Time{}, false
	}
	if m[3] != "" {
		f := m[3]
		if len(f) > 9 {
			f = f[:9]
		}
		for len(f) < 9 {
			f += "0"
		}
		var ns int64
		fmt.Sscanf(f, "%d", &ns)
		t = t.Add(time.Duration(ns))
	}
	return t, true
}

// c06Evaluate re-evaluates the necessary conditions on the message as submitted.
// It returns the list of violated conditions and whether the evaluation was possible.
func c06Evaluate(c *ssoCase, call *env.Call, registered map[string]bool) (bad []string, unjudged string) {
	s := &c.Send
	if s.SentValue == "" {
		return []string{"empty SAMLRequest accepted"}, ""
	}
	raw, err := base64.StdEncoding.DecodeString(s.SentValue)
	if err != nil {
		return []string{"SAMLRequest is not base64: " + err.Error()}, ""
	}
	enc := s.SentEncoding
	if s.Binding != "post" && enc == "" {
		enc = spsim.EncDeflate
	}
	switch enc {
	case "":
	case spsim.EncDeflate:
		raw, err = reply.Inflate(raw)
		if err != nil {
			return []string{"SAMLRequest does not inflate: " + err.Error()}, ""
		}
	default:
		return []string{"unknown SAMLEncoding accepted: " + enc}, ""
	}
	ok, perr, nodes, oerr := verify.PyWF(raw, true)
	if oerr != nil {
		return nil, "python oracle unavailable: " + oerr.Error()
	}
	if !ok {
		// encoding/xml ignores whatever follows the end tag of the root element; that is not judged
		if strings.Contains(perr, "junk after document element") {
			return nil, "bytes after the root element"
		}
		return []string{"message is not well-formed XML (expat: " + perr + ")"}, ""
	}
	root := nodes[0]
	if root.Local != "AuthnRequest" || root.NS != spsim.NSP {
		bad = append(bad, fmt.Sprintf("root element is {%s}%s", root.NS, root.Local))
	}
	if root.Attrs["ID"] == "" {
		bad = append(bad, "ID absent or empty")
	}
	if root.Attrs["Version"] == "" {
		bad = append(bad, "Version absent or empty")
	}
	var issuers []string
	var cond []verify.PyNode
	for _, n := range nodes[1:] {
		if n.Depth != 1 {
			continue
		}
		if n.Local == "Issuer" && n.NS == spsim.NSA {
			issuers = append(issuers, n.Text)
		}
		if n.Local == "Conditions" && n.NS == spsim.NSA {
			cond = append(cond, n)
		}
	}
	switch len(issuers) {
	case 0:
		bad = append(bad, "Issuer absent")
	case 1:
		if issuers[0] == "" {
			bad = append(bad, "Issuer empty")
		} else if !registered[issuers[0]] {
			bad = append(bad, fmt.Sprintf("Issuer %q is not the entity ID of a registered service provider", issuers[0]))
		}
	default:
		return nil, "several Issuer elements"
	}
	if d, has := root.Attrs["Destination"]; has && d != "" && d != c.ssoLocation() {
		bad = append(bad, fmt.Sprintf("Destination %q is not the advertised single-sign-on location %q", d, c.ssoLocation()))
	}
	if len(cond) > 1 {
		return bad, "several Conditions elements"
	}
	if len(cond) == 1 {
		const slack = 2 * time.Second
		if v := cond[0].Attrs["NotBefore"]; v != "" {
			t, ok := parseTS(v)
			if !ok {
				bad = append(bad, fmt.Sprintf("NotBefore %q is not a UTC dateTime", v))
			} else if t.After(call.T1.Add(slack)) {
				bad = append(bad, fmt.Sprintf("NotBefore %s is after the end of the call %s", v, call.T1.UTC().Format(time.RFC3339Nano)))
			}
		}
		if v := cond[0].Attrs["NotOnOrAfter"]; v != "" {
			t, ok := parseTS(v)
			if !ok {
				bad = append(bad, fmt.Sprintf("NotOnOrAfter %q is not a UTC dateTime", v))
			} else if !t.After(call.T0.Add(-slack)) {
				bad = append(bad, fmt.Sprintf("NotOnOrAfter %s is not after the start of the call %s", v, call.T0.UTC().Format(time.RFC3339Nano)))
			}
		}
	}
	return bad, ""
}

func c06Case(r *core.Run, idx int, rng *rand.Rand) {
	const wl = "deviations"
	c := conformantSSO(rng)
	// a sixth of the cases is served while the key storage fails (for good, or for the first call only), and a
	// storage that answers "no record, no error" for unknown entities is in use half of the time
	keyFault := idx%6 == 3
	// keep signing out of the way in most cases: the deviation must be the only reason for rejection
	if rng.Intn(4) > 0 && !(keyFault && c.SPD.Cert != nil && rng.Intn(2) == 0) {
		c.Signed = false
		c.SPD.AuthnRequestsSigned = []string{"", "false", "0"}[rng.Intn(3)]
		c.Want = []string{"", "false"}[rng.Intn(2)]
	}
	c.Others = []*spsim.SPDesc{stdSP(5), stdSP(6)}
	nd := 1
	if idx%10 == 0 {
		nd = 0 // conformant control case
	} else if idx%7 == 0 {
		nd = 2
	}
	for k := 0; k < nd; k++ {
		dv := c06Deviations[(idx+k*5+rng.Intn(len(c06Deviations)))%len(c06Deviations)]
		if containsLabel(c.Labels, dv.Name) {
			continue
		}
		dv.Apply(rng, c)
		c.Labels = append(c.Labels, dv.Name)
	}
	// now and then an attribute in front of the deviating part carries a value its type has no lexical form for
	// (AllowCreate="yes"): whatever a decoder makes of that, what follows it still counts
	if len(c.Labels) > 0 && idx%5 == 2 {
		for _, l := range c.Labels {
			if strings.HasPrefix(l, "conditions_") || l == "not_wellformed" || strings.HasPrefix(l, "destination") {
				c.Req.NameIDPolicy, c.Req.AllowCreate = true, []string{"yes", "on", "TRUE", "2", " true", "y"}[rng.Intn(6)]
				c.Labels = append(c.Labels, "unconvertible_attribute_in_front")
				break
			}
		}
	}
	if len(c.Labels) == 0 {
		c.Labels = []string{"conformant"}
	}
	if keyFault {
		c.Labels = append(c.Labels, "key_storage_fault")
	}
	e, call := c.run(rng, func(e *env.Env) {
		e.W.NilForUnknown = rng.Intn(2) == 0
		if idx%5 == 2 {
			withUnaskedNames(e, r)
		}
		if idx%6 == 1 {
			// the judged request is preceded by refused messages that begin with a complete, perfectly valid request of
			// the same service provider: their DEFLATE stream breaks off behind it, or inflates beyond any limit.
			// Nothing of a refused message may be what the provider looks at afterwards
			for k := 0; k < 1+rng.Intn(3); k++ {
				f := validAuthn(rng, c.SPD)
				f.ID = "leftover-" + randHex(rng, 6)
				doc := f.XML(rng)
				var payload string
				if rng.Intn(2) == 0 {
					payload = spsim.B64(spsim.DeflateUnfinished([]byte(doc + strings.Repeat(" ", rng.Intn(50000)))))
				} else {
					payload = bomb(doc, "", ' ', 12<<20)
				}
				var pc *env.Call
				if rng.Intn(2) == 0 {
					pc = e.Do(env.Req{Path: env.PathSSO, Query: "SAMLRequest=" + url.QueryEscape(payload) + "&RelayState=leftover", Host: c.Host})
				} else {
					pc = e.Do(env.Req{Method: "POST", Path: env.PathSSO, Body: spsim.FormBody("SAMLRequest", payload, "SAMLEncoding", spsim.EncDeflate, "RelayState", "leftover"), Host: c.Host})
				}
				if pc.Panic == "" && !pc.Accepted() {
					r.Count("preceded_by_a_refused_message_that_begins_with_a_valid_request", 1)
				}
			}
		}
		if !keyFault {
			return
		}
		kind := []string{sim.FaultError, sim.FaultTimeout, sim.FaultNilRecord, sim.FaultKeyNoCert, sim.FaultCertNoKey, sim.FaultEmptyCert}[rng.Intn(6)]
		transient := rng.Intn(3) == 0
		var nth atomic.Int64
		e.W.Plan = func(tag, op string, occ int) string {
			if op == "GetResponseSigningKey" && (nth.Add(1) == 1 || !transient) {
				return kind
			}
			return ""
		}
	})
	if keyFault {
		r.Count("deviating_requests_during_key_storage_fault", 1)
	}
	out := judgeSSOOutcome(r, wl, idx, c.label(), e, call, c.describe())
	accepted := call.Accepted() || (call.D.Status == 303 && strings.HasPrefix(call.D.Location, "https://login.idp.example/"))
	r.Eval(fmt.Sprintf("%s|%s|%s|%v|%s", c.label(), out, c.Binding, c.Signed, c.Req.Style.String()))
	r.Count("outcome_"+out, 1)
	// label cross-check by expat for the well-formedness deviation
	if containsLabel(c.Labels, "not_wellformed") {
		ok, _, _, err := verify.PyWF([]byte(c.XML), false)
		if err != nil {
			r.Inconclusive("python oracle unavailable: " + err.Error())
			return
		}
		if ok {
			r.Count("label_not_confirmed_by_expat", 1)
			return
		}
	}
	deviating := c.Labels[0] != "conformant" && c.Labels[0] != "key_storage_fault"
	if deviating {
		r.Count("deviating_cases", 1)
		for _, l := range c.Labels {
			r.Seen("deviation_kinds", l)
		}
	}
	if accepted && deviating {
		r.Violate(core.Violation{Clause: "deviation_accepted", Class: c.label(), Reason: "request with deviation(s) " + c.label() + " was accepted", Workload: wl, Index: idx, Case: c.describe(), Observed: call.Describe()})
	}
	if accepted {
		reg := map[string]bool{c.SPD.EntityID: true}
		for _, o := range c.Others {
			reg[o.EntityID] = true
		}
		bad, unj := c06Evaluate(c, call, reg)
		if unj != "" {
			r.Count("accepted_unjudged", 1)
		} else {
			r.Count("accepted_independently_evaluated", 1)
		}
		for _, b := range bad {
			r.Violate(core.Violation{Clause: "accepted_violates_condition", Class: c.label(), Reason: b, Workload: wl, Index: idx, Case: c.describe(), Observed: call.Describe()})
		}
		// the persisted request must be the one that was evaluated
		if ev := call.First("CreateAuthRequest"); ev != nil && ev.Req != nil && len(bad) == 0 && unj == "" {
			if !reg[ev.Req.Issuer] {
				r.Violate(core.Violation{Clause: "persisted_issuer_unregistered", Class: c.label(), Reason: "persisted Issuer " + ev.Req.Issuer, Workload: wl, Index: idx, Case: c.describe(), Observed: call.Describe()})
			}
		}
	}
	if idx < 12 {
		r.Sample("c06_"+out, map[string]any{"labels": c.Labels, "binding": c.Binding, "status": call.D.Status, "xml": clipS(c.XML, 600)})
	}
}

// c06Repeated: byte for byte the same request is sent a second time to the same provider after it stopped being
// acceptable - its NotOnOrAfter has passed meanwhile, or its issuer's registration was revoked. Every acceptance is
// judged against the present.
func c06Repeated(r *core.Run, idx int, rng *rand.Rand) {
	const wl = "repeated_requests"
	e := env.Static(env.Opts{})
	e.W.NilForUnknown = rng.Intn(2) == 0
	d := stdSP(0)
	d.AuthnRequestsSigned = ""
	mustRegister(e.W, d, "appA")
	a := validAuthn(rng, d)
	mode := []string{"expired_meanwhile", "deregistered_meanwhile"}[idx%2]
	deadline := time.Now().Add(120 * time.Millisecond)
	if mode == "expired_meanwhile" {
		a.Conditions, a.NotOnOrAfter = true, deadline.UTC().Format("2006-01-02T15:04:05.000000Z")
	}
	x := a.XML(rng)
	var rq env.Req
	if idx%4 < 2 {
		rq = env.Req{Method: "POST", Path: env.PathSSO, Body: spsim.FormBody("SAMLRequest", spsim.B64([]byte(x)), "RelayState", "MKrelay")}
	} else {
		rq = env.Req{Path: env.PathSSO, Query: "SAMLRequest=" + url.QueryEscape(spsim.DeflateB64(x)) + "&RelayState=MKrelay"}
	}
	first := e.Do(rq)
	if !first.Accepted() {
		r.Count("repeated_first_not_accepted", 1) // (may happen on a loaded machine for the expiring request)
		return
	}
	if mode == "expired_meanwhile" {
		time.Sleep(time.Until(deadline.Add(30 * time.Millisecond)))
	} else {
		e.W.RemoveSP(d.EntityID)
	}
	second := e.Do(rq)
	class := "repeated|" + mode
	r.Eval(fmt.Sprintf("%s|%d", class, idx))
	r.Count("requests_repeated_after_they_stopped_being_acceptable", 1)
	if second.Panic != "" {
		r.Violate(core.Violation{Clause: "panic", Class: class, Reason: second.Panic, Workload: wl, Index: idx, Observed: second.Describe()})
		return
	}
	if second.Accepted() || (second.D.Status == 303 && strings.HasPrefix(second.D.Location, "https://login.idp.example/")) {
		r.Violate(core.Violation{Clause: "deviation_accepted", Class: class, Reason: "the same request was accepted again (" + mode + "): persisted or sent on to login although it no longer satisfies the conditions", Workload: wl, Index: idx,
			Case: map[string]any{"mode": mode, "not_on_or_after": a.NotOnOrAfter, "xml": clipS(x, 1200)}, Observed: second.Describe()})
	}
}

func init() {
	register(&Prop{
		ID: "C06", Level: "exploration", DeathIsViolation: true,
		TimeoutQuick: 5 * time.Minute, TimeoutThorough: 30 * time.Minute,
		Build: func(c *Ctx) []core.Workload {
			r := c.Run
			r.Rule = "each case is a conformant AuthnRequest plus 0, 1 or 2 labelled deviations (not base64 / not inflatable / not well-formed / wrong root / Issuer absent, empty, unregistered, look-alike under a lenient storage, wrong namespace / ID, Version absent or empty / Destination variants incl. another host with a host-derived issuer / Conditions outside the window or unparseable / unknown SAMLEncoding / SigAlg without Signature / empty SAMLRequest). Monitor 1: a labelled deviation must not be accepted. Monitor 2: every accepted request is decoded independently (expat) and all necessary conditions are re-evaluated against the call's time bracket. A further workload drives ONE provider with a host-derived issuer through request sequences under several hosts in which some requests carry the Destination advertised for another host. Distinct = (labels, outcome, transport, signing, serialisation style)."
			r.Assume("bytes after the root end tag and duplicate attributes are accepted by encoding/xml and are not used as deviations")
			r.Assume("time conditions are judged against the wall-clock bracket [t0,t1] around the call with 2 s slack; expired/future deviations are at least 2 s / 5 s away from now")
			r.Require("deviating_cases", 300)
			r.Require("distinct_deviation_kinds", int64(len(c06Deviations)))
			r.Require("accepted_independently_evaluated", 50)
			r.Require("multi_host_mismatches_refused", 200)
			r.Require("multi_host_concurrent_mismatches_refused", 300)
			r.Require("requests_repeated_after_they_stopped_being_acceptable", 40)
			return []core.Workload{
				{Name: "deviations", N: c.Pick(2000, 24000), Fn: c06Case},
				{Name: "window_closes_while_the_request_is_served", N: 6, Workers: 6, Fn: c06ExpiresMeanwhile},
				{Name: "multi_host_sequences", N: c.Pick(150, 1500), Fn: func(r *core.Run, idx int, rng *rand.Rand) {
					multiHostSequence(r, "multi_host_sequences", idx, rng, true)
				}},
				{Name: "multi_host_concurrent", N: c.Pick(40, 400), Fn: func(r *core.Run, idx int, rng *rand.Rand) {
					multiHostConcurrent(r, "multi_host_concurrent", idx, rng, true)
				}},
				{Name: "repeated_requests", N: c.Pick(48, 240), Fn: c06Repeated},
			}
		},
		After: func(c *Ctx) { verify.Py.Close() },
	})
}

// c06ExpiresMeanwhile: the request is inside its validity window when it arrives and no longer when it would be
// accepted, because a storage call of the handler takes longer than the rest of the window.
func c06ExpiresMeanwhile(r *core.Run, idx int, rng *rand.Rand) {
	const wl = "window_closes_while_the_request_is_served"
	c := conformantSSO(rng)
	c.Signed = false
	c.SPD.AuthnRequestsSigned, c.Want = "", ""
	c.Req.Conditions = true
	c.Req.NotBefore = ""
	heldOp := []string{"GetEntityByID", "GetResponseSigningKey", "GetEntityByID"}[idx%3]
	const window, hold = 1000 * time.Millisecond, 3200 * time.Millisecond
	c.Labels = []string{"window_closes_meanwhile", "held_in=" + heldOp}
	var t0 time.Time
	e, call := c.run(rng, func(e *env.Env) {
		e.W.Before = func(_ context.Context, _, op string, occ int) {
			if op == heldOp && occ == 1 {
				time.Sleep(hold)
			}
		}
		t0 = time.Now()
		c.Req.NotOnOrAfter = tsFrac(t0.Add(window), 3)
	})
	_ = e
	r.Eval(fmt.Sprintf("%s|%d", c.label(), idx))
	r.Count("requests_whose_window_closed_meanwhile", 1)
	if call.Panic != "" {
		r.Violate(core.Violation{Clause: "panic", Class: c.label(), Reason: call.Panic, Workload: wl, Index: idx, Case: c.describe(), Observed: call.Describe()})
		return
	}
	ev := call.First("CreateAuthRequest")
	accepted := ev != nil && !ev.Err
	if !accepted {
		return
	}
	// was the held call really made before the acceptance, and did it take its time?
	if call.T1.Sub(t0) < hold {
		r.Count("window_case_without_the_slow_call", 1)
		return
	}
	noa, err := time.Parse(time.RFC3339Nano, c.Req.NotOnOrAfter)
	if err != nil {
		return
	}
	// Counted, not judged: "bracket the current time" holds for the instant at which the handler looked at the clock,
	// and where in its sequence of storage calls a handler does that is its own business (a handler that reads the
	// signing key after its checks is as right as one that reads it before).
	if late := call.T1.Add(-hold / 8).Sub(noa); late > time.Second {
		r.Count("accepted_although_the_window_closed_during_a_later_storage_call", 1)
	}
}
