package props

import (
	"bytes"
	"compress/flate"
	"fmt"
	"math/rand"
	"strings"
	"time"

	"verif/harness/env"
	"verif/harness/keys"
	"verif/harness/spsim"
)

// ssoCase is one SSO request: configuration, message, transport, deviations.
type ssoCase struct {
	Want    string // IdP WantAuthRequestsSigned
	SPD     *spsim.SPDesc
	Req     *spsim.AuthnReq
	Node    *spsim.Node
	Binding string // redirect | post
	Signed  bool
	Alg     string
	Pct     string
	XS      spsim.XMLSignOpts
	Relay   string
	HasRel  bool
	Labels  []string
	// AlsoRegister: documents offered to the registration besides the service provider's own (a refusal is fine)
	AlsoRegister []string
	Lenient      bool
	Others       []*spsim.SPDesc // further registered SPs
	Host         string          // non-empty: host-derived issuer, request sent with this Host header

	XML      string
	Send     ssoSend
	PostEdit func(xml string) string // applied to the serialised (and signed) document
	WireEdit func(s *ssoSend)
	Msg      *spsim.RedirectMsg
}

// ssoLocation is the single-sign-on location the IdP advertises for this case.
func (c *ssoCase) ssoLocation() string {
	if c.Host != "" {
		return "https://" + c.Host + "/saml/SSO"
	}
	return idpSSO
}

func (c *ssoCase) label() string { return strings.Join(c.Labels, ",") }

func (c *ssoCase) describe() map[string]any {
	return map[string]any{
		"want_signed": c.Want, "sp_entity": c.SPD.EntityID, "sp_authn_requests_signed": c.SPD.AuthnRequestsSigned,
		"sp_has_cert": c.SPD.Cert != nil, "acs": c.SPD.ACS, "binding": c.Binding, "signed": c.Signed, "alg": c.Alg, "pct": c.Pct,
		"keyinfo_dropped": c.XS.DropKey, "cert_wrap": c.XS.WrapCert, "relay": c.Relay, "labels": c.Labels, "style": c.Req.Style.String(),
		"xml": clipS(c.XML, 3000),
	}
}

// answerable lists the positions of the consumer services bound to HTTP-POST or HTTP-Redirect.
func answerable(acs []spsim.ACS) []int {
	var ks []int
	for k, a := range acs {
		if a.Binding == spsim.BindPost || a.Binding == spsim.BindRedirect {
			ks = append(ks, k)
		}
	}
	return ks
}

// conformantSSO draws a request a standards-conformant registered SP can produce.
func conformantSSO(rng *rand.Rand) *ssoCase {
	c := &ssoCase{}
	i := rng.Intn(4)
	d := stdSP(i)
	d.Prefix = []string{"md", "", "m"}[rng.Intn(3)]
	d.Indent = rng.Intn(2) == 0
	d.CertWrap = []int{0, 0, 64, 76}[rng.Intn(4)]
	// consumer services: 1..3 entries over the two supported bindings
	d.ACS = nil
	n := 1 + rng.Intn(3)
	if rng.Intn(15) == 0 {
		n = 8 + rng.Intn(12) // long consumer lists exist (one per language / tenant)
	}
	for k := 0; k < n; k++ {
		b := []string{spsim.BindPost, spsim.BindRedirect}[rng.Intn(2)]
		a := spsim.ACS{Binding: b, Location: fmt.Sprintf("https://sp%d.example/acs/%d", i, k), Index: fmt.Sprint(k)}
		if k == 0 && rng.Intn(2) == 0 {
			a.IsDefault = "true"
		}
		d.ACS = append(d.ACS, a)
	}
	d.Decor = rng.Intn(16) // parts of the document that say nothing about endpoints and keys of the role (errorURL, an IdP role ...)
	d.AuthnRequestsSigned = []string{"", "false", "0", "true", "1"}[rng.Intn(5)]
	c.Want = []string{"", "false", "true", "1"}[rng.Intn(4)]
	if rng.Intn(4) == 0 {
		d.EncCert = keys.Get("sp3") // an encryption key listed in front of the signing key
	} else if rng.Intn(4) == 0 {
		d.CertUse = "none" // the optional use attribute left out: the key serves both purposes
	}
	if rng.Intn(6) == 0 && len(d.ACS) >= 1 {
		// one consumer URL registered for two bindings, the answerable one listed second
		first := d.ACS[0]
		d.ACS = append([]spsim.ACS{{Binding: spsim.BindArtifact, Location: first.Location, Index: "100"}}, d.ACS...)
	}
	if rng.Intn(5) == 0 {
		// entries on bindings this IdP cannot answer, listed behind the others with the next indexes and without a
		// default flag: the documented rule never picks them, they are somebody else's business
		for k := 1 + rng.Intn(2); k > 0; k-- {
			d.ACS = append(d.ACS, spsim.ACS{Binding: []string{spsim.BindArtifact, "urn:oasis:names:tc:SAML:2.0:bindings:PAOS"}[rng.Intn(2)],
				Location: fmt.Sprintf("https://sp%d.example/other/%d", i, k), Index: fmt.Sprint(len(d.ACS))})
		}
	}
	c.SPD = d
	required := d.AuthnRequestsSigned == "true" || d.AuthnRequestsSigned == "1" || c.Want == "true" || c.Want == "1"
	c.Signed = required || rng.Intn(2) == 0
	if rng.Intn(6) == 0 && !required {
		d.Cert = nil // SP without a key never signs
		c.Signed = false
	}
	c.Alg = []string{spsim.AlgRSASHA1, spsim.AlgRSASHA256}[rng.Intn(2)]
	c.Binding = []string{"redirect", "post"}[rng.Intn(2)]
	c.Pct = spsim.PctGo
	c.XS = spsim.XMLSignOpts{Alg: c.Alg}
	a := validAuthn(rng, d)
	switch rng.Intn(4) {
	case 0:
		if b := d.ACS[rng.Intn(len(d.ACS))].Binding; b == spsim.BindPost || b == spsim.BindRedirect {
			a.ProtocolBinding = b
		}
	case 1:
		// the request names one of its registered consumer URLs; a conformant service provider asks for an endpoint
		// the IdP can answer on, and names the binding too when the URL is registered under more than one
		if ks := answerable(d.ACS); len(ks) > 0 {
			k := ks[rng.Intn(len(ks))]
			a.ACSURL = d.ACS[k].Location
			shared := false
			for j := range d.ACS {
				if j != k && d.ACS[j].Location == d.ACS[k].Location {
					shared = true
				}
			}
			if shared || rng.Intn(2) == 0 {
				a.ProtocolBinding = d.ACS[k].Binding // the pair the request names is a registered one
			}
		}
	case 2:
		// AssertionConsumerServiceIndex stands alone (it excludes URL and ProtocolBinding) and names an answerable entry
		if ks := answerable(d.ACS); len(ks) > 0 {
			a.ACSIndex = d.ACS[ks[rng.Intn(len(ks))]].Index
		}
	}
	a.IssueInstant = tsFrac(time.Now(), rng.Intn(10))
	a.NameIDPolicy = rng.Intn(2) == 0
	if a.NameIDPolicy && rng.Intn(2) == 0 {
		a.NameIDFormat = "urn:oasis:names:tc:SAML:1.1:nameid-format:emailAddress"
	}
	a.AuthnContext = rng.Intn(3) == 0
	a.Scoping = rng.Intn(5) == 0
	a.Extensions = rng.Intn(5) == 0
	if rng.Intn(3) == 0 {
		a.ForceAuthn = []string{"true", "false", "1", "0"}[rng.Intn(4)]
	}
	if rng.Intn(4) == 0 {
		a.IsPassive = []string{"false", "0"}[rng.Intn(2)]
	}
	if rng.Intn(4) == 0 {
		a.ProviderName = "Provider " + plainString(rng, 5)
	}
	if rng.Intn(5) == 0 {
		a.IssuerFormat = "urn:oasis:names:tc:SAML:2.0:nameid-format:entity"
	}
	if rng.Intn(5) == 0 {
		// the optional Subject in the shapes its type allows: an identifier, an identifier plus confirmations,
		// confirmations only, an encrypted identifier
		a.Subject = "user-" + plainString(rng, 5) + "@example.com"
		a.SubjectKind = []string{"", "", "confirmation_only", "name_id_and_confirmation", "encrypted_id"}[rng.Intn(5)]
	}
	if rng.Intn(3) == 0 {
		a.Conditions = true
		now := time.Now()
		if rng.Intn(3) > 0 {
			a.NotBefore = tsFrac(now.Add(-time.Duration(60+rng.Intn(3600))*time.Second), rng.Intn(10))
		}
		if rng.Intn(3) > 0 {
			a.NotOnOrAfter = tsFrac(now.Add(time.Duration(60+rng.Intn(3600))*time.Second), rng.Intn(10))
		}
	}
	if rng.Intn(6) == 0 {
		c.Host = []string{"hosta.example", "idp-b.example:8443", "c.idp.example"}[rng.Intn(3)]
		if a.Destination != "" {
			a.Destination = "https://" + c.Host + "/saml/SSO"
		}
	}
	c.Req = a
	if rng.Intn(3) > 0 {
		c.HasRel = true
		c.Relay = relayAlphabet(rng)
	}
	return c
}

// relayAlphabet draws a non-empty RelayState of at most 80 bytes.
func relayAlphabet(rng *rand.Rand) string {
	for {
		var s string
		switch rng.Intn(4) {
		case 0:
			s = plainString(rng, 1+rng.Intn(40))
		case 1:
			s = "https://sp.example/return?a=" + plainString(rng, 4) + "&b=" + plainString(rng, 3) + "#frag"
		case 2:
			s = legalXMLString(rng, 6)
		default:
			s = "state " + plainString(rng, 6) + " +/=%&"
		}
		s = strings.ReplaceAll(s, "\x00", "")
		if s != "" && len(s) <= 80 {
			return s
		}
	}
}

// run builds the world, puts the request on the wire and returns the call.
func (c *ssoCase) run(rng *rand.Rand, mod func(e *env.Env)) (*env.Env, *env.Call) {
	var e *env.Env
	if c.Host != "" {
		var err error
		e, err = env.New(env.Opts{WantSigned: c.Want, HostPath: "/saml"})
		if err != nil {
			panic(err)
		}
	} else {
		e = env.Static(env.Opts{WantSigned: c.Want})
	}
	e.W.Lenient = c.Lenient
	mustRegister(e.W, c.SPD, "app-"+c.SPD.EntityID)
	for k, o := range c.Others {
		mustRegister(e.W, o, fmt.Sprintf("app-other-%d", k))
	}
	for k, doc := range c.AlsoRegister {
		_, _ = e.W.AddSP(fmt.Sprintf("app-also-%d", k), []byte(doc))
	}
	if mod != nil {
		mod(e)
	}
	if c.Node == nil {
		c.Node = c.Req.Node()
	}
	c.XML = c.Req.Style.Finish(c.Node, rng)
	if c.Signed && c.Binding == "post" {
		signed, err := spsim.SignEnveloped(c.XML, c.signer(), c.XS)
		if err != nil {
			panic("harness: cannot sign: " + err.Error())
		}
		c.XML = signed
	}
	if c.PostEdit != nil {
		c.XML = c.PostEdit(c.XML)
	}
	c.Send = ssoSend{Binding: c.Binding, XML: c.XML, Relay: c.Relay, HasRelay: c.HasRel, Pct: c.Pct, Alg: c.Alg, Host: c.Host}
	if c.Signed && c.Binding == "redirect" {
		c.Send.SignKey = c.signer()
	}
	if c.WireEdit != nil {
		c.WireEdit(&c.Send)
	}
	call, msg := c.Send.do(e)
	c.Msg = msg
	return e, call
}

func (c *ssoCase) signer() *keys.Pair {
	if c.SPD.Cert != nil {
		return c.SPD.Cert
	}
	return keys.Get("attacker")
}

// ---------- deviations (each makes the request one that must not be accepted) ----------

type deviation struct {
	Name  string
	Apply func(rng *rand.Rand, c *ssoCase)
}

func setAttr(c *ssoCase, name, val string) {
	if c.Node == nil {
		c.Node = c.Req.Node()
	}
	c.Node.Set(name, val)
}
func delAttr(c *ssoCase, name string) {
	if c.Node == nil {
		c.Node = c.Req.Node()
	}
	c.Node.Del(name)
}
func issuerNode(c *ssoCase) *spsim.Node {
	if c.Node == nil {
		c.Node = c.Req.Node()
	}
	return c.Node.Find("Issuer")
}

// justPast returns offsets from a millisecond to years: an instant that lies in the past when it is
// generated is still in the past when the request is served.
func justPast(rng *rand.Rand) time.Duration {
	if rng.Intn(3) == 0 {
		return -[]time.Duration{time.Millisecond, 20 * time.Millisecond, 200 * time.Millisecond, 600 * time.Millisecond, 999 * time.Millisecond, 1500 * time.Millisecond}[rng.Intn(6)]
	}
	return farPast(rng)
}

func farPast(rng *rand.Rand) time.Duration {
	// up to centuries (time.Duration itself ends at ~292 years)
	return -[]time.Duration{2 * time.Second, 10 * time.Second, time.Minute, time.Hour, 24 * time.Hour, 400 * 24 * time.Hour, 10 * 365 * 24 * time.Hour, 120 * 365 * 24 * time.Hour, 290 * 365 * 24 * time.Hour}[rng.Intn(9)]
}
func farFuture(rng *rand.Rand) time.Duration {
	return []time.Duration{5 * time.Second, 30 * time.Second, time.Minute, time.Hour, 24 * time.Hour, 400 * 24 * time.Hour, 10 * 365 * 24 * time.Hour, 120 * 365 * 24 * time.Hour, 290 * 365 * 24 * time.Hour}[rng.Intn(9)]
}

var badTimestamps = []string{"yesterday", "2024-13-45T99:99:99Z", "1700000000", "2030-01-01", "2030-01-01T00:00:00", "2030-01-01T00:00:00+01:00", "2030-01-01 00:00:00Z", "01/02/2030", " ", "2030-01-01T00:00:00ZZ", "20300101T000000Z"}

// nameRegisteredElsewhere: while the Issuer names nobody (or a stranger), the registered service provider is named in
// other places of the request (ProviderName, qualifiers of the name identifier policy / subject, the Issuer's own
// qualifier attributes) - none of them says who sent the request.
func nameRegisteredElsewhere(rng *rand.Rand, c *ssoCase) {
	if rng.Intn(2) == 0 {
		return
	}
	id := c.SPD.EntityID
	c.Node.Set("ProviderName", id)
	if n := c.Node.Find("NameIDPolicy"); n != nil {
		n.Set("SPNameQualifier", id)
	}
	if n := c.Node.Find("NameID"); n != nil {
		n.Set("SPNameQualifier", id).Set("NameQualifier", id)
	}
	if n := c.Node.Find("Issuer"); n != nil {
		n.Set("SPNameQualifier", id).Set("NameQualifier", id)
	}
}

var c06Deviations = []deviation{
	{"issuer_absent", func(rng *rand.Rand, c *ssoCase) {
		n := issuerNode(c)
		for i, k := range c.Node.Kids {
			if k == n {
				c.Node.Kids = append(c.Node.Kids[:i:i], c.Node.Kids[i+1:]...)
				break
			}
		}
		nameRegisteredElsewhere(rng, c)
	}},
	{"issuer_empty", func(rng *rand.Rand, c *ssoCase) {
		if n := issuerNode(c); n != nil {
			n.Text = ""
		}
		nameRegisteredElsewhere(rng, c)
	}},
	{"issuer_unregistered", func(rng *rand.Rand, c *ssoCase) {
		if n := issuerNode(c); n != nil {
			n.Text = "https://unregistered-" + randHex(rng, 4) + ".example/metadata"
		}
		nameRegisteredElsewhere(rng, c)
	}},
	{"issuer_other_registered_as_lookalike", func(rng *rand.Rand, c *ssoCase) {
		// the storage resolves look-alike identifiers (case, blanks, trailing slash) to the registered SP
		c.Lenient = true
		id := c.SPD.EntityID
		switch rng.Intn(5) {
		case 0:
			id = strings.ToUpper(id)
		case 1:
			id = id + "/"
		case 2:
			id = " " + id
		case 3:
			id = id + " "
		default:
			id = strings.Replace(id, "https://sp", "https://SP", 1)
		}
		if n := issuerNode(c); n != nil {
			n.Text = id
		}
	}},
	{"issuer_wrong_namespace", func(rng *rand.Rand, c *ssoCase) {
		n := issuerNode(c)
		if n == nil {
			return
		}
		n.Name = "x:Issuer"
		n.Attrs = append([]spsim.Attr{{Name: "xmlns:x", Value: spsim.NSP}}, n.Attrs...)
	}},
	{"id_absent", func(rng *rand.Rand, c *ssoCase) { delAttr(c, "ID") }},
	{"id_empty", func(rng *rand.Rand, c *ssoCase) { setAttr(c, "ID", "") }},
	{"version_absent", func(rng *rand.Rand, c *ssoCase) { delAttr(c, "Version") }},
	{"version_empty", func(rng *rand.Rand, c *ssoCase) { setAttr(c, "Version", "") }},
	{"destination_wrong", func(rng *rand.Rand, c *ssoCase) {
		v := []string{
			"http://idp.example/saml/SSO", "https://idp.example/saml/sso", "https://IDP.example/saml/SSO", "https://idp.example/saml/SSO/",
			"https://idp.example/saml/SSO?x=1", "https://idp.example/saml/SLO", "https://idp.example/saml/attribute", "https://idp.example/saml/metadata",
			"https://idp.example/SSO", "https://other.example/saml/SSO", "https://idp.example:443/saml/SSO", "https://idp.example/saml/SSO#f",
			" https://idp.example/saml/SSO", "https://idp.example/saml/SSO ", "https://idp.example/saml", "/SSO", "SSO", "https://evil-" + randHex(rng, 3) + ".example/saml/SSO",
		}
		setAttr(c, "Destination", v[rng.Intn(len(v))])
	}},
	{"destination_other_host", func(rng *rand.Rand, c *ssoCase) {
		c.Host = "hosta.example"
		setAttr(c, "Destination", []string{"https://hostb.example/saml/SSO", "https://idp.example/saml/SSO", "https://hosta.example.evil.example/saml/SSO", "https://hosta.example:444/saml/SSO", "http://hosta.example/saml/SSO"}[rng.Intn(5)])
	}},
	{"conditions_expired", func(rng *rand.Rand, c *ssoCase) {
		if rng.Intn(6) == 0 { // centuries ago
			addConditions(rng, c, "", append([]string{"1600-01-01T00:00:00Z", "1000-06-15T12:00:00.5Z"}, ancientInstants...)[rng.Intn(2+len(ancientInstants))])
			return
		}
		addConditions(rng, c, "", tsFrac(time.Now().Add(justPast(rng)), 3+rng.Intn(7)))
	}},
	{"conditions_not_yet_valid", func(rng *rand.Rand, c *ssoCase) {
		if rng.Intn(6) == 0 { // centuries ahead
			addConditions(rng, c, []string{"2300-01-01T00:00:00Z", "9999-12-31T23:59:59Z", "2262-04-11T23:47:17Z", "5000-01-01T00:00:00.123Z"}[rng.Intn(4)], "")
			return
		}
		addConditions(rng, c, tsFrac(time.Now().Add(farFuture(rng)), rng.Intn(7)), "")
	}},
	{"conditions_notbefore_unparseable", func(rng *rand.Rand, c *ssoCase) {
		addConditions(rng, c, badTimestamps[rng.Intn(len(badTimestamps))], "")
	}},
	{"conditions_notonorafter_unparseable", func(rng *rand.Rand, c *ssoCase) {
		addConditions(rng, c, "", badTimestamps[rng.Intn(len(badTimestamps))])
	}},
	{"issuer_reads_differently_in_the_declared_encoding", func(rng *rand.Rand, c *ssoCase) {
		// the registered entity ID has letters beyond ASCII; the request carries its UTF-8 bytes in a document that
		// declares a single-byte encoding, in which these bytes are other characters: the Issuer the document states is
		// not registered (a decoder that cannot read the declared encoding refuses the document, which is as good)
		id := "https://caf\u00e9-" + randHex(rng, 3) + ".example.com/metadata/z\u00fcrich"
		c.SPD.EntityID = id
		c.SPD.AuthnRequestsSigned, c.Want, c.Signed = "", "", false
		if n := issuerNode(c); n != nil {
			n.Text = id
		}
		enc := []string{"ISO-8859-1", "iso-8859-1", "latin1", "windows-1252", "US-ASCII", "ISO-8859-15"}[rng.Intn(6)]
		c.PostEdit = func(x string) string {
			if strings.HasPrefix(x, "<?xml") {
				x = x[strings.Index(x, "?>")+2:]
			}
			return `<?xml version="1.0" encoding="` + enc + `"?>` + x
		}
	}},
	{"issuer_is_another_entity_of_a_metadata_aggregate", func(rng *rand.Rand, c *ssoCase) {
		// the service provider's metadata was (also) offered for registration inside an aggregate that lists a partner
		// identity provider behind it; whatever the registration made of that, the partner is no service provider
		partner := "https://partner-idp-" + randHex(rng, 3) + ".example/metadata"
		if n := issuerNode(c); n != nil {
			n.Text = partner
		}
		c.SPD.AuthnRequestsSigned, c.Want, c.Signed = "", "", false
		spDoc := strings.TrimSpace(strings.TrimPrefix(strings.TrimSpace(string(c.SPD.XML())), `<?xml version="1.0" encoding="UTF-8"?>`))
		idpDoc := `<md:EntityDescriptor xmlns:md="` + spsim.NSMD + `" entityID="` + partner + `"><md:IDPSSODescriptor protocolSupportEnumeration="` + spsim.NSP + `"><md:SingleSignOnService Binding="` + spsim.BindRedirect + `" Location="https://partner-idp.example/sso"/></md:IDPSSODescriptor></md:EntityDescriptor>`
		c.AlsoRegister = append(c.AlsoRegister, `<md:EntitiesDescriptor xmlns:md="`+spsim.NSMD+`">`+spDoc+idpDoc+`</md:EntitiesDescriptor>`)
	}},
	{"wrong_root", func(rng *rand.Rand, c *ssoCase) {
		if c.Node == nil {
			c.Node = c.Req.Node()
		}
		local := []string{"LogoutRequest", "Response", "AttributeQuery", "authnrequest", "AuthnRequests"}[rng.Intn(5)]
		if i := strings.IndexByte(c.Node.Name, ':'); i >= 0 {
			c.Node.Name = c.Node.Name[:i+1] + local
		} else {
			c.Node.Name = local
		}
	}},
	{"wrong_root_namespace", func(rng *rand.Rand, c *ssoCase) {
		if c.Node == nil {
			c.Node = c.Req.Node()
		}
		for i := range c.Node.Attrs {
			if c.Node.Attrs[i].Value == spsim.NSP {
				c.Node.Attrs[i].Value = []string{spsim.NSA, "urn:oasis:names:tc:SAML:1.0:protocol", "urn:example:other"}[rng.Intn(3)]
			}
		}
	}},
	{"not_wellformed", func(rng *rand.Rand, c *ssoCase) {
		c.Signed = false
		c.PostEdit = func(x string) string {
			// all edits stay inside the root element and are errors for every XML parser
			open := 0
			for open < len(x) && (x[open] != '<' || (open+1 < len(x) && x[open+1] == '?')) {
				open++
			}
			if open >= len(x)-20 {
				return "<broken"
			}
			if !strings.Contains(x, "</") {
				// a root without content (self-closed): open it and never close it
				return strings.Replace(x, "/>", ">", 1)
			}
			switch rng.Intn(6) {
			case 0: // truncate inside the root
				cut := open + 12 + rng.Intn(len(x)-open-13)
				return x[:cut]
			case 1: // unbalanced end tag
				i := strings.LastIndex(x, "</")
				return x[:i] + "</wrong>"
			case 2: // stray '<' in content
				i := strings.Index(x[open:], ">") + open
				return x[:i+1] + "< stray" + x[i+1:]
			case 3: // undefined entity
				i := strings.Index(x[open:], ">") + open
				return x[:i+1] + "&undefined;" + x[i+1:]
			case 4: // attribute without quotes
				return strings.Replace(x, `IssueInstant="`, `IssueInstant=x"`, 1)
			default: // missing end tag of the root
				i := strings.LastIndex(x, "</")
				return x[:i]
			}
		}
	}},
	{"not_base64", func(rng *rand.Rand, c *ssoCase) {
		c.Signed = false
		c.Binding = "post"
		// text that is not base64 at all
		c.WireEdit = func(s *ssoSend) {
			s.rawSAMLRequest = []string{"!!!not*base64!!!", "<AuthnRequest/>", "%%%", "ab=cd=", "a b c d e"}[rng.Intn(5)]
		}
	}},
	{"not_inflatable", func(rng *rand.Rand, c *ssoCase) {
		c.Signed = false
		c.Binding = "redirect"
		c.WireEdit = func(s *ssoSend) {
			// valid base64 of bytes that are not a DEFLATE stream: the plain XML (POST encoding sent by GET)
			if rng.Intn(2) == 0 {
				s.rawSAMLRequest = spsim.B64([]byte(s.XML))
			} else {
				s.rawSAMLRequest = spsim.B64([]byte("\xff\xfe\xfd garbage " + randHex(rng, 20)))
			}
		}
	}},
	{"transport_encoding_damaged_behind_the_document", func(rng *rand.Rand, c *ssoCase) {
		// the parameter holds the complete document, but as a whole it is not base64 / not a DEFLATE stream:
		// characters outside the alphabet or a dangling character at the end, or a stream that never ends
		c.Signed = false
		c.WireEdit = func(s *ssoSend) {
			good := spsim.B64([]byte(s.XML))
			if s.Binding != "post" {
				good = spsim.DeflateB64(s.XML)
			}
			good = strings.TrimRight(good, "=")
			for len(good)%4 != 0 { // keep the intact part a whole number of quanta
				good = good[:len(good)-1]
			}
			switch k := rng.Intn(4); {
			case k == 0 && s.Binding != "post":
				s.rawSAMLRequest = spsim.B64(deflateWithoutEnd([]byte(s.XML)))
			case k == 1:
				s.rawSAMLRequest = good + "!*!*"
			case k == 2:
				s.rawSAMLRequest = good + "A"
			default:
				s.rawSAMLRequest = good + "===="
			}
		}
	}},
	{"unknown_encoding", func(rng *rand.Rand, c *ssoCase) {
		c.WireEdit = func(s *ssoSend) {
			s.Encoding = []string{"urn:oasis:names:tc:SAML:2.0:bindings:URL-Encoding:GZIP", "deflate", "DEFLATE", spsim.EncDeflate + " ", strings.ToLower(spsim.EncDeflate), "x", "urn:oasis:names:tc:SAML:2.0:bindings:URL-Encoding:DEFLATE2", "none", "identity"}[rng.Intn(9)]
		}
	}},
	{"sigalg_without_signature", func(rng *rand.Rand, c *ssoCase) {
		c.Signed = false
		c.WireEdit = func(s *ssoSend) {
			s.Extra = append(s.Extra, "SigAlg", []string{spsim.AlgRSASHA1, spsim.AlgRSASHA256, "x", "http://www.w3.org/2000/09/xmldsig#dsa-sha1"}[rng.Intn(4)])
			if rng.Intn(2) == 0 {
				s.Extra = append(s.Extra, "Signature", "")
			}
		}
	}},
	{"empty_samlrequest", func(rng *rand.Rand, c *ssoCase) {
		c.Signed = false
		c.WireEdit = func(s *ssoSend) { s.rawSAMLRequest = ""; s.forceRaw = true }
	}},
}

// deflateWithoutEnd compresses b into a DEFLATE stream that is flushed but lacks its final block.
func deflateWithoutEnd(b []byte) []byte {
	var buf bytes.Buffer
	w, _ := flate.NewWriter(&buf, 6)
	_, _ = w.Write(b)
	_ = w.Flush()
	return buf.Bytes()
}

func addConditions(rng *rand.Rand, c *ssoCase, nb, noa string) {
	if c.Node == nil {
		c.Node = c.Req.Node()
	}
	// remove an existing Conditions element, then add the deviating one
	for i, k := range c.Node.Kids {
		if k.Local() == "Conditions" {
			c.Node.Kids = append(c.Node.Kids[:i:i], c.Node.Kids[i+1:]...)
			break
		}
	}
	r := *c.Req
	r.Conditions, r.NotBefore, r.NotOnOrAfter = true, nb, noa
	if nb == "" && rng.Intn(2) == 0 {
		r.NotBefore = tsFrac(time.Now().Add(-time.Hour), 0)
	}
	if noa == "" && rng.Intn(2) == 0 {
		r.NotOnOrAfter = tsFrac(time.Now().Add(time.Hour), 0)
	}
	cn := r.Node().Find("Conditions")
	c.Node.Add(cn)
}
