package props

import (
	"bytes"
	"compress/flate"
	"encoding/base64"
	"fmt"
	"io"
	"math/rand"
	"net/url"
	"sort"
	"strings"
	"time"
	"unicode/utf8"

	"verif/harness/env"
	"verif/harness/keys"
	"verif/harness/reply"
	"verif/harness/sim"
	"verif/harness/spsim"
)

// ---------- strings ----------

const hexd = "0123456789abcdef"

func randHex(rng *rand.Rand, n int) string {
	b := make([]byte, n)
	for i := range b {
		b[i] = hexd[rng.Intn(16)]
	}
	return string(b)
}

func newID(rng *rand.Rand) string { return "_" + randHex(rng, 24) }

// xmlSpecial are the characters that matter to XML/HTML/URL escaping.
var xmlSpecial = []string{"&", "<", ">", "\"", "'", "\r", "\n", "\t", " ", "]]>", "&amp;", "&#60;", "%", "+", "=", "?", "#", "/", ":", ";", "\\", "`", "{{", "}}", "ä", "ß", "€", "中", "\U0001F600", "\u00a0", "\u2028", "\ufeff"}

// legalXMLString returns a string of legal XML 1.0 characters, rich in special ones.
func legalXMLString(rng *rand.Rand, maxParts int) string {
	n := rng.Intn(maxParts + 1)
	var b strings.Builder
	for i := 0; i < n; i++ {
		switch rng.Intn(4) {
		case 0:
			if d := repoDictionary(); len(d) > 0 && rng.Intn(6) == 0 {
				// a string constant of the library itself (placeholder, sentinel, URI): legal XML text in practice
				if t := d[rng.Intn(len(d))]; isLegalXML(t) {
					b.WriteString(t)
					break
				}
			}
			b.WriteString(xmlSpecial[rng.Intn(len(xmlSpecial))])
		case 1:
			b.WriteString(randHex(rng, 1+rng.Intn(5)))
		case 2:
			b.WriteString([]string{"a", "Z", "0", "-", "_", ".", "~", "x y"}[rng.Intn(8)])
		default:
			// any legal XML character
			for {
				r := rune(rng.Intn(0x2FFF))
				if rng.Intn(8) == 0 {
					r = rune(0x10000 + rng.Intn(0xFFFF))
				}
				if r == 0x9 || r == 0xA || r == 0xD || (r >= 0x20 && r <= 0xD7FF) || (r >= 0xE000 && r <= 0xFFFD) || (r >= 0x10000 && r <= 0x10FFFF) {
					b.WriteRune(r)
					break
				}
			}
		}
	}
	return b.String()
}

// plainString returns an alphanumeric token.
func plainString(rng *rand.Rand, n int) string {
	const al = "abcdefghijklmnopqrstuvwxyzABCDEFGHIJKLMNOPQRSTUVWXYZ0123456789"
	b := make([]byte, n)
	for i := range b {
		b[i] = al[rng.Intn(len(al))]
	}
	return string(b)
}

// hasC14NSpecial reports whether a text (isAttr=false) or attribute value
// (isAttr=true) contains a character that canonical XML must escape.
func hasC14NSpecial(s string, isAttr bool) bool {
	if isAttr {
		return strings.ContainsAny(s, "&<\"\t\n\r")
	}
	return strings.ContainsAny(s, "&<>\r")
}

// arbitraryBytes returns any byte string (may be invalid UTF-8, may contain NUL).
func arbitraryBytes(rng *rand.Rand, max int) string {
	n := rng.Intn(max + 1)
	b := make([]byte, n)
	for i := range b {
		switch rng.Intn(6) {
		case 0:
			b[i] = byte(rng.Intn(256))
		case 1:
			b[i] = "\"'<>&\x00\r\n\t =/`"[rng.Intn(13)]
		default:
			b[i] = byte(0x20 + rng.Intn(0x5f))
		}
	}
	return string(b)
}

func isValidUTF8(s string) bool { return utf8.ValidString(s) }

// ---------- time ----------

func tsNow(off time.Duration) string { return time.Now().UTC().Add(off).Format(spsim.TimeLayout) }

// tsFrac formats an instant with exactly `digits` fractional digits (0..9).
func tsFrac(t time.Time, digits int) string {
	t = t.UTC()
	s := t.Format("2006-01-02T15:04:05")
	if digits > 0 {
		ns := fmt.Sprintf("%09d", t.Nanosecond())
		s += "." + ns[:digits]
	}
	return s + "Z"
}

// ---------- world ----------

const (
	idpIssuer   = env.DefaultIssuer
	idpEntityID = idpIssuer + "/metadata"
	idpSSO      = idpIssuer + "/SSO"
	idpSLO      = idpIssuer + "/SLO"
	idpAttr     = idpIssuer + "/attribute"
	statusOK    = "urn:oasis:names:tc:SAML:2.0:status:Success"
)

// fxSP is a registered simulated service provider.
type fxSP struct {
	Desc  *spsim.SPDesc
	Key   *keys.Pair
	AppID string
}

// stdSP returns the description of the i-th standard SP (POST ACS, one SLO, signing cert spI).
func stdSP(i int) *spsim.SPDesc {
	host := fmt.Sprintf("sp%d.example", i)
	return &spsim.SPDesc{
		EntityID: "https://" + host + "/saml/metadata",
		ACS:      []spsim.ACS{{Binding: spsim.BindPost, Location: "https://" + host + "/acs", Index: "0", IsDefault: "true"}},
		SLO:      []spsim.SLO{{Binding: spsim.BindPost, Location: "https://" + host + "/slo"}},
		Cert:     keys.Get(fmt.Sprintf("sp%d", i%4)),
		Prefix:   "md",
	}
}

// register adds the SP to the world.
func regSP(w *sim.World, d *spsim.SPDesc, appID string) (*fxSP, error) {
	if d.Decor == 0 && len(d.EntityID)%3 == 0 {
		// a third of all registered documents carries the parts that say nothing about the role's endpoints and keys
		d.Decor = 1 + (len(d.EntityID)+len(d.ACS)+len(d.SLO))%15
	}
	if _, err := w.AddSP(appID, d.XML()); err != nil {
		return nil, err
	}
	return &fxSP{Desc: d, Key: d.Cert, AppID: appID}, nil
}

func mustRegister(w *sim.World, d *spsim.SPDesc, appID string) *fxSP {
	sp, err := regSP(w, d, appID)
	if err != nil {
		panic(fmt.Sprintf("harness: cannot register SP %s: %v", d.EntityID, err))
	}
	return sp
}

// validAuthn builds a conformant AuthnRequest of sp addressed to the default IdP.
func validAuthn(rng *rand.Rand, sp *spsim.SPDesc) *spsim.AuthnReq {
	a := &spsim.AuthnReq{
		ID: newID(rng), Version: "2.0", IssueInstant: tsNow(0), Issuer: sp.EntityID,
		Style: spsim.RandStyle(rng),
	}
	if rng.Intn(3) > 0 {
		a.Destination = idpSSO
	}
	return a
}

// ssoSend describes how an AuthnRequest (or any XML) is put on the wire.
type ssoSend struct {
	Path     string // default /SSO
	Binding  string // "redirect" | "post"
	XML      string
	Relay    string
	HasRelay bool
	SignKey  *keys.Pair // redirect: query signature
	Alg      string
	Pct      string
	Encoding string // explicit SAMLEncoding
	Host     string
	Extra    []string // extra key/value pairs
	Method   string
	RawTail  string // appended verbatim (behind an ampersand) to the query resp. the form body: pairs no encoder would write

	SentValue    string                     // the SAMLRequest parameter value as sent
	SentEncoding string                     // the SAMLEncoding parameter as sent
	AfterSign    func(m *spsim.RedirectMsg) // edits of the signed redirect message before it is sent

	hdr            map[string][]string
	rawSAMLRequest string // when set (or forceRaw): the parameter value sent verbatim instead of the encoded XML
	forceRaw       bool
}

// do puts the message on the wire and returns the call plus the redirect message (when used).
func (s *ssoSend) do(e *env.Env) (*env.Call, *spsim.RedirectMsg) {
	path := s.Path
	if path == "" {
		path = env.PathSSO
	}
	if s.Binding == "post" {
		val := spsim.B64([]byte(s.XML))
		if s.rawSAMLRequest != "" || s.forceRaw {
			val = s.rawSAMLRequest
		}
		s.SentValue, s.SentEncoding = val, s.Encoding
		kv := []string{"SAMLRequest", val}
		if s.HasRelay {
			kv = append(kv, "RelayState", s.Relay)
		}
		if s.Encoding != "" {
			kv = append(kv, "SAMLEncoding", s.Encoding)
		}
		kv = append(kv, s.Extra...)
		body := spsim.FormBody(kv...)
		if s.RawTail != "" {
			body += "&" + s.RawTail
		}
		// a form arrives in one piece or in pieces (decided by its length, so that a case stays reproducible)
		return e.Do(env.Req{Method: "POST", Path: path, Body: body, Host: s.Host, Headers: s.hdr, Chunk: []int{0, 1460, 97}[len(body)%3]}), nil
	}
	m := &spsim.RedirectMsg{Param: "SAMLRequest", Value: spsim.DeflateB64(s.XML), RelayState: s.Relay, HasRelay: s.HasRelay, Pct: s.Pct, Encoding: s.Encoding}
	if s.rawSAMLRequest != "" || s.forceRaw {
		m.Value = s.rawSAMLRequest
	}
	if m.Pct == "" {
		m.Pct = spsim.PctGo
	}
	if s.SignKey != nil {
		m.SigAlg = s.Alg
		if m.SigAlg == "" {
			m.SigAlg = spsim.AlgRSASHA256
		}
		if err := m.Sign(s.SignKey.RSA); err != nil {
			panic(err)
		}
	}
	if s.AfterSign != nil {
		s.AfterSign(m)
	}
	s.SentValue, s.SentEncoding = m.Value, m.Encoding
	q := m.RawQuery()
	for i := 0; i+1 < len(s.Extra); i += 2 {
		q += "&" + url.QueryEscape(s.Extra[i]) + "=" + url.QueryEscape(s.Extra[i+1])
	}
	if s.RawTail != "" {
		q += "&" + s.RawTail
	}
	meth := s.Method
	if meth == "" {
		meth = "GET"
	}
	return e.Do(env.Req{Method: meth, Path: path, Query: q, Host: s.Host, Headers: s.hdr}), m
}

// ---------- users ----------

// randUser builds a user whose every value carries the canary prefix.
func randUser(rng *rand.Rand, canary string, hostileStrings bool) *sim.User {
	val := func(field string) string {
		if rng.Intn(5) == 0 {
			return ""
		}
		s := canary + field
		if hostileStrings {
			s += legalXMLString(rng, 4)
		}
		return s
	}
	u := &sim.User{
		UserID:   canary + "uid" + randHex(rng, 4),
		Username: canary + "login" + randHex(rng, 4),
		Email:    val("mail"), FullName: val("full"), GivenName: val("given"), Surname: val("sur"),
	}
	if hostileStrings && rng.Intn(2) == 0 {
		u.Username += legalXMLString(rng, 3)
	}
	nc := rng.Intn(5)
	if rng.Intn(15) == 0 {
		nc = 20 + rng.Intn(40) // now and then a user with very many attributes
	}
	for i := 0; i < nc; i++ {
		c := sim.Custom{Name: fmt.Sprintf("%scustom%d", canary, i), Friendly: "", Format: "urn:oasis:names:tc:SAML:2.0:attrname-format:basic"}
		if rng.Intn(2) == 0 {
			c.Friendly = "friendly" + randHex(rng, 3)
		}
		if rng.Intn(3) == 0 {
			c.Format = "urn:oasis:names:tc:SAML:2.0:attrname-format:uri"
		}
		if hostileStrings && rng.Intn(3) == 0 {
			c.Name += legalXMLString(rng, 2)
		}
		nv := rng.Intn(4)
		if rng.Intn(25) == 0 {
			nv = 10 + rng.Intn(30)
		}
		for j := 0; j < nv; j++ {
			v := fmt.Sprintf("%scv%d_%d", canary, i, j)
			if hostileStrings {
				v += legalXMLString(rng, 3)
			}
			c.Values = append(c.Values, v)
		}
		u.Custom = append(u.Custom, c)
	}
	// now and then a custom attribute is named like one of the standard ones (with the same or another name format):
	// it is stated beside the standard attribute, it does not replace it
	if rng.Intn(8) == 0 {
		n := []string{"Email", "SurName", "FirstName", "FullName", "UserName", "UserID"}[rng.Intn(6)]
		u.Custom = append(u.Custom, sim.Custom{Name: n, Format: []string{basicFormat, "urn:oasis:names:tc:SAML:2.0:attrname-format:uri", ""}[rng.Intn(3)], Values: []string{canary + "samename" + randHex(rng, 3)}})
	}
	return u
}

// refAttr is the reference form of one attribute.
type refAttr struct {
	Name, Format, Friendly string
	Values                 []string
}

func (a refAttr) key() string {
	return fmt.Sprintf("%q|%q|%q|%q", a.Name, a.Format, a.Friendly, a.Values)
}

const basicFormat = "urn:oasis:names:tc:SAML:2.0:attrname-format:basic"

// refAttributes is the harness-side reference of the attribute statement of a user
// (documented names of the standard attributes; custom attributes by name, last one wins).
func refAttributes(u *sim.User) []refAttr {
	var out []refAttr
	std := func(name, v string) {
		if v != "" {
			out = append(out, refAttr{Name: name, Format: basicFormat, Values: []string{v}})
		}
	}
	std("Email", u.Email)
	std("SurName", u.Surname)
	std("FirstName", u.GivenName)
	std("FullName", u.FullName)
	std("UserName", u.Username)
	std("UserID", u.UserID)
	last := map[string]int{}
	for i, c := range u.Custom {
		last[c.Name] = i
	}
	for i, c := range u.Custom {
		if last[c.Name] != i {
			continue
		}
		out = append(out, refAttr{Name: c.Name, Format: c.Format, Friendly: c.Friendly, Values: c.Values})
	}
	return out
}

// keyNoValues identifies an attribute without its value list.
func (a refAttr) keyNoValues() string { return fmt.Sprintf("%q|%q|%q", a.Name, a.Format, a.Friendly) }

// queryFilterDiff compares the attributes of an attribute-query answer with the reference filter: exactly those of
// the user's attributes whose Name and NameFormat match a requested attribute (all when none was requested), as
// sets. When the query names AttributeValue children the value lists are not compared (a provider may or may not
// restrict the values, the statement speaks about attributes).
func queryFilterDiff(ref []refAttr, asked []spsim.QAttr, got []refAttr) (diff string, excluded bool) {
	withValues := false
	for _, qa := range asked {
		if len(qa.Values) > 0 {
			withValues = true
		}
	}
	k := func(a refAttr) string {
		if withValues {
			return a.keyNoValues()
		}
		return a.key()
	}
	want, have := map[string]bool{}, map[string]bool{}
	for _, a := range ref {
		if len(asked) == 0 {
			want[k(a)] = true
			continue
		}
		for _, qa := range asked {
			if qa.Name == a.Name && qa.NameFormat == a.Format {
				want[k(a)] = true
			}
		}
	}
	for _, a := range got {
		have[k(a)] = true
	}
	return setDiff(want, have), len(want) < len(ref)
}

// askForSomeValues appends a designator for one of the user's multi-valued custom attributes that names only some
// of its values, not a prefix of the stored list.
func askForSomeValues(rng *rand.Rand, q *spsim.AttrQuery, u *sim.User) bool {
	for _, i := range rng.Perm(len(u.Custom)) {
		c := u.Custom[i]
		if len(c.Values) >= 2 && c.Name != "" {
			q.Attrs = append(q.Attrs, spsim.QAttr{Name: c.Name, NameFormat: c.Format, Values: []string{c.Values[len(c.Values)-1]}})
			return true
		}
	}
	return false
}

// refConsumerChoice is the documented selection rule on a registered consumer-service list: the positions that may be
// chosen for a requested binding (first entry with that binding; else first entry flagged default; else any entry of
// minimal index; -1 = nothing, for an empty list).
func refConsumerChoice(acs []spsim.ACS, requested string) []int {
	if len(acs) == 0 {
		return []int{-1}
	}
	for i, a := range acs {
		if requested != "" && a.Binding == requested {
			return []int{i}
		}
	}
	for i, a := range acs {
		if a.IsDefault == "true" || a.IsDefault == "1" {
			return []int{i}
		}
	}
	val := func(a spsim.ACS) int {
		n := 0
		fmt.Sscanf(a.Index, "%d", &n)
		return n
	}
	min := 1 << 30
	for _, a := range acs {
		if v := val(a); v < min {
			min = v
		}
	}
	var out []int
	for i, a := range acs {
		if val(a) == min {
			out = append(out, i)
		}
	}
	return out
}

// setDiffList compares two sorted key lists as multisets.
func setDiffList(want, got []string) string {
	if equalStrings(want, got) {
		return ""
	}
	w, g := map[string]bool{}, map[string]bool{}
	for _, k := range want {
		w[k] = true
	}
	for _, k := range got {
		g[k] = true
	}
	if d := setDiff(w, g); d != "" {
		return d
	}
	return fmt.Sprintf("multiplicities differ: want %d attributes, got %d", len(want), len(got))
}

func attrMultiset(as []refAttr) []string {
	var ks []string
	for _, a := range as {
		ks = append(ks, a.key())
	}
	sort.Strings(ks)
	return ks
}

func msgAttrs(m *reply.Message) []refAttr {
	var out []refAttr
	for _, a := range m.Attributes {
		out = append(out, refAttr{Name: a.Name, Format: a.NameFormat, Friendly: a.FriendlyName, Values: a.Values})
	}
	return out
}

func equalStrings(a, b []string) bool {
	if len(a) != len(b) {
		return false
	}
	for i := range a {
		if a[i] != b[i] {
			return false
		}
	}
	return true
}

// containsAny returns the first of subs that occurs in s ("" when none does).
func containsAny(s string, subs ...string) string {
	for _, x := range subs {
		if x != "" && strings.Contains(s, x) {
			return x
		}
	}
	return ""
}

// isNCName checks the xs:ID / NCName production (ASCII subset is what NewID produces; full check for letters).
func isNCName(s string) bool {
	if s == "" {
		return false
	}
	for i, r := range s {
		switch {
		case r == '_' || (r >= 'a' && r <= 'z') || (r >= 'A' && r <= 'Z') || r >= 0xC0:
		case i > 0 && (r == '-' || r == '.' || (r >= '0' && r <= '9') || r == 0xB7):
		default:
			return false
		}
	}
	return true
}

// onlyEncodes reports whether got is want with some bytes replaced by their own
// %hh escape (hex case-insensitive) and nothing else changed. A literal '%' in
// want may appear verbatim or as %25, which makes the match ambiguous; it is
// resolved by backtracking.
func onlyEncodes(want, got string) bool {
	type pos struct{ i, j int }
	dead := map[pos]bool{}
	var rec func(i, j int) bool
	rec = func(i, j int) bool {
		for {
			if i == len(want) {
				return j == len(got)
			}
			if j >= len(got) {
				return false
			}
			lit := got[j] == want[i]
			esc := false
			if got[j] == '%' && j+2 < len(got)+0 && j+2 <= len(got)-1 {
				h, ok1 := unhexb(got[j+1])
				l, ok2 := unhexb(got[j+2])
				esc = ok1 && ok2 && (h<<4|l) == want[i]
			}
			switch {
			case lit && esc:
				p := pos{i, j}
				if dead[p] {
					return false
				}
				if rec(i+1, j+3) || rec(i+1, j+1) {
					return true
				}
				dead[p] = true
				return false
			case esc:
				i, j = i+1, j+3
			case lit:
				i, j = i+1, j+1
			default:
				return false
			}
		}
	}
	return rec(0, 0)
}

func unhexb(c byte) (byte, bool) {
	switch {
	case c >= '0' && c <= '9':
		return c - '0', true
	case c >= 'a' && c <= 'f':
		return c - 'a' + 10, true
	case c >= 'A' && c <= 'F':
		return c - 'A' + 10, true
	}
	return 0, false
}

// hexEscapeNonASCII mirrors the documented behaviour of http.Redirect on the Location.
func hexEscapeNonASCII(s string) string {
	var b strings.Builder
	for i := 0; i < len(s); i++ {
		if s[i] >= 0x80 {
			fmt.Fprintf(&b, "%%%02x", s[i])
		} else {
			b.WriteByte(s[i])
		}
	}
	return b.String()
}

// normNL is HTML input-stream newline normalisation (CRLF and CR -> LF).
func normNL(s string) string {
	return strings.ReplaceAll(strings.ReplaceAll(s, "\r\n", "\n"), "\r", "\n")
}

func b64Std(s string) ([]byte, error) { return base64.StdEncoding.DecodeString(s) }

func inflateAll(b []byte) ([]byte, error) {
	r := flate.NewReader(bytes.NewReader(b))
	defer r.Close()
	return io.ReadAll(r)
}
