package spsim

import (
	"bytes"
	"compress/flate"
	"crypto"
	"crypto/rand"
	"crypto/rsa"
	"crypto/sha1"
	"crypto/sha256"
	"crypto/tls"
	"encoding/base64"
	"fmt"
	mrand "math/rand"
	"net/url"
	"strings"

	"github.com/beevik/etree"
	dsig "github.com/russellhaering/goxmldsig"

	"verif/harness/keys"
)

const (
	NSP   = "urn:oasis:names:tc:SAML:2.0:protocol"
	NSA   = "urn:oasis:names:tc:SAML:2.0:assertion"
	NSMD  = "urn:oasis:names:tc:SAML:2.0:metadata"
	NSDS  = "http://www.w3.org/2000/09/xmldsig#"
	NSOAP = "http://schemas.xmlsoap.org/soap/envelope/"

	BindPost     = "urn:oasis:names:tc:SAML:2.0:bindings:HTTP-POST"
	BindRedirect = "urn:oasis:names:tc:SAML:2.0:bindings:HTTP-Redirect"
	BindArtifact = "urn:oasis:names:tc:SAML:2.0:bindings:HTTP-Artifact"
	BindPAOS     = "urn:oasis:names:tc:SAML:2.0:bindings:PAOS"
	BindSOAP     = "urn:oasis:names:tc:SAML:2.0:bindings:SOAP"

	AlgRSASHA1   = "http://www.w3.org/2000/09/xmldsig#rsa-sha1"
	AlgRSASHA256 = "http://www.w3.org/2001/04/xmldsig-more#rsa-sha256"
	EncDeflate   = "urn:oasis:names:tc:SAML:2.0:bindings:URL-Encoding:DEFLATE"

	TimeLayout = "2006-01-02T15:04:05.999999Z"
)

// ---------- SP metadata ----------

type ACS struct {
	Binding, Location, Index, IsDefault string
	ResponseLocation                    string // the optional attribute of the endpoint type (not meant for consumer services; met in the wild)
	NoIndex                             bool   // leave the index attribute out altogether (not schema-valid, but met in the wild)
}

// SLO is one SingleLogoutService entry; ResponseLocation is the optional attribute of that name.
type SLO struct{ Binding, Location, ResponseLocation string }

// SPDesc describes the metadata document of a simulated service provider.
type SPDesc struct {
	EntityID             string
	ACS                  []ACS
	SLO                  []SLO
	EncCert              *keys.Pair // an encryption KeyDescriptor (use="encryption") listed in FRONT of the signing one
	Cert                 *keys.Pair // nil = no KeyDescriptor
	CertUse              string     // "signing" (default), "" (no use attribute), "encryption"
	CertWrap             int        // 0 = unwrapped base64, else column width
	CertSep              string     // line separator of a wrapped certificate ("" = "\n"); may indent with blanks or tabs
	AuthnRequestsSigned  string     // "" = attribute absent
	WantAssertionsSigned string     // "" = attribute absent
	WantAssertionSigned  string
	NoSPSSO              bool
	// Decor adds parts of a metadata document that say nothing about the service provider role's endpoints and keys:
	// bit 0 Extensions / Organization / ContactPerson, bit 1 an IDPSSODescriptor of the same entity (with a key and
	// endpoints of its own) in front of the SPSSODescriptor, bit 2 an AttributeConsumingService, bit 3 validUntil /
	// cacheDuration / ID on the document element
	Decor  int
	Prefix string // "md" default; "" = default namespace
	Indent bool
}

func q(prefix, local string) string {
	if prefix == "" {
		return local
	}
	return prefix + ":" + local
}

// Node builds the metadata document.
func (d *SPDesc) Node() *Node {
	p := d.Prefix
	root := El(q(p, "EntityDescriptor"))
	if p == "" {
		root.Set("xmlns", NSMD)
	} else {
		root.Set("xmlns:"+p, NSMD)
	}
	root.Set("entityID", d.EntityID)
	if d.Decor&8 != 0 {
		root.Set("validUntil", "2099-01-01T00:00:00Z").Set("cacheDuration", "PT12H").Set("ID", "_md"+fmt.Sprint(len(d.EntityID)))
	}
	if d.Decor&1 != 0 {
		root.Add(El(q(p, "Extensions")).Add(El("x:Info", Attr{"xmlns:x", "urn:example:md-ext"}).SetText("decor")))
	}
	if d.NoSPSSO {
		return root
	}
	if d.Decor&2 != 0 {
		// the entity is an identity provider as well: that role's key and endpoints are not the service provider's
		idp := El(q(p, "IDPSSODescriptor")).Set("protocolSupportEnumeration", NSP)
		kd := El(q(p, "KeyDescriptor")).Set("use", "signing")
		kd.Add(El("ds:KeyInfo", Attr{Name: "xmlns:ds", Value: NSDS}).Add(El("ds:X509Data").Add(El("ds:X509Certificate").SetText(keys.Get("attacker").B64()))))
		idp.Add(kd)
		idp.Add(El(q(p, "SingleLogoutService"), Attr{"Binding", BindPost}, Attr{"Location", "https://evil-idp-role.example/slo"}))
		idp.Add(El(q(p, "SingleSignOnService"), Attr{"Binding", BindRedirect}, Attr{"Location", "https://evil-idp-role.example/sso"}))
		root.Add(idp)
	}
	sp := El(q(p, "SPSSODescriptor"))
	if d.WantAssertionsSigned != "" {
		sp.Set("WantAssertionsSigned", d.WantAssertionsSigned)
	}
	if d.AuthnRequestsSigned != "" {
		sp.Set("AuthnRequestsSigned", d.AuthnRequestsSigned)
	}
	if d.WantAssertionSigned != "" {
		sp.Set("WantAssertionsSigned", d.WantAssertionSigned)
	}
	sp.Set("protocolSupportEnumeration", NSP)
	if d.Decor&8 != 0 {
		sp.Set("errorURL", "https://evil-error-url.example/sp-error")
	}
	if d.EncCert != nil {
		kd := El(q(p, "KeyDescriptor")).Set("use", "encryption")
		kd.Add(El("ds:KeyInfo", Attr{Name: "xmlns:ds", Value: NSDS}).Add(El("ds:X509Data").Add(El("ds:X509Certificate").SetText(d.EncCert.B64()))))
		sp.Add(kd)
	}
	if d.Cert != nil {
		kd := El(q(p, "KeyDescriptor"))
		switch d.CertUse {
		case "":
			kd.Set("use", "signing")
		case "none":
		default:
			kd.Set("use", d.CertUse)
		}
		text := d.Cert.B64()
		if d.CertWrap > 0 {
			sep := d.CertSep
			if sep == "" {
				sep = "\n"
			}
			text = sep + d.Cert.B64Wrapped(d.CertWrap, sep) + sep
		}
		kd.Add(El("ds:KeyInfo", Attr{"xmlns:ds", NSDS}).Add(El("ds:X509Data").Add(El("ds:X509Certificate").SetText(text))))
		sp.Add(kd)
	}
	for _, s := range d.SLO {
		slo := El(q(p, "SingleLogoutService"), Attr{"Binding", s.Binding}, Attr{"Location", s.Location})
		if s.ResponseLocation != "" {
			slo.Set("ResponseLocation", s.ResponseLocation)
		}
		sp.Add(slo)
	}
	sp.Add(El(q(p, "NameIDFormat")).SetText("urn:oasis:names:tc:SAML:1.1:nameid-format:emailAddress"))
	for _, a := range d.ACS {
		e := El(q(p, "AssertionConsumerService"), Attr{"Binding", a.Binding}, Attr{"Location", a.Location})
		if !a.NoIndex {
			e.Set("index", a.Index)
		}
		if a.IsDefault != "" {
			e.Set("isDefault", a.IsDefault)
		}
		if a.ResponseLocation != "" {
			e.Set("ResponseLocation", a.ResponseLocation)
		}
		sp.Add(e)
	}
	if d.Decor&4 != 0 {
		acs := El(q(p, "AttributeConsumingService")).Set("index", "0").Set("isDefault", "true")
		acs.Add(El(q(p, "ServiceName"), Attr{"xml:lang", "en"}).SetText("Decor service"))
		acs.Add(El(q(p, "RequestedAttribute"), Attr{"Name", "Email"}, Attr{"isRequired", "true"}))
		sp.Add(acs)
	}
	root.Add(sp)
	if d.Decor&1 != 0 {
		org := El(q(p, "Organization"))
		org.Add(El(q(p, "OrganizationName"), Attr{"xml:lang", "en"}).SetText("Decor Ltd"))
		org.Add(El(q(p, "OrganizationDisplayName"), Attr{"xml:lang", "en"}).SetText("Decor"))
		org.Add(El(q(p, "OrganizationURL"), Attr{"xml:lang", "en"}).SetText("https://evil-org-url.example/"))
		root.Add(org)
		root.Add(El(q(p, "ContactPerson"), Attr{"contactType", "technical"}).Add(El(q(p, "EmailAddress")).SetText("mailto:ops@evil-contact.example")))
	}
	return root
}

func (d *SPDesc) XML() []byte {
	ind := ""
	if d.Indent {
		ind = "  "
	}
	return []byte(`<?xml version="1.0" encoding="UTF-8"?>` + "\n" + d.Node().Render(ind))
}

// ---------- serialisation style ----------

// Style selects one of the legal serialisations of a request.
type Style struct {
	PfxP   string // prefix of the protocol namespace; "" = default namespace
	PfxA   string // prefix of the assertion namespace; "" = declared as default on each assertion element
	Indent string
	Decl   int    // 0 none, 1 standard declaration, 2 declaration with standalone
	Shuf   bool   // shuffle attribute order of the root
	NSLate bool   // declare the assertion namespace on the child elements instead of the root
	Head   string // Misc (comment, processing instruction, white space) between the declaration and the document element
	Tail   string // Misc behind the document element (XML 1.0: document ::= prolog element Misc*)
}

func RandStyle(rng *mrand.Rand) Style {
	s := Style{PfxP: "samlp", PfxA: "saml"}
	switch rng.Intn(5) {
	case 0:
		s.PfxP, s.PfxA = "saml2p", "saml2"
	case 1:
		s.PfxP, s.PfxA = "", "saml"
	case 2:
		s.PfxP, s.PfxA = "p", ""
	case 3:
		s.PfxP, s.PfxA = "", ""
	}
	s.Indent = []string{"", "", "  ", "\t", "    "}[rng.Intn(5)]
	s.Decl = rng.Intn(3)
	s.Shuf = rng.Intn(2) == 0
	s.NSLate = rng.Intn(3) == 0 && s.PfxA != ""
	if rng.Intn(4) == 0 {
		// (white space and comments only: a processing instruction is legal XML too, but a provider may well refuse
		// messages that carry one)
		s.Tail = []string{"\n", "\r\n", " \n", "\n\n", "<!-- end of message -->", "\n<!-- generated by sp-toolkit 4.2 -->\n", "\t", "\n  \n"}[rng.Intn(8)]
	}
	if rng.Intn(8) == 0 {
		s.Head = []string{"\n", "<!-- AuthnRequest -->", "\n<!-- generated by sp-toolkit 4.2 -->\n", "\n\n"}[rng.Intn(4)]
	}
	return s
}

func (s Style) String() string {
	return fmt.Sprintf("p=%q a=%q ind=%d decl=%d shuf=%v late=%v misc=%v/%v", s.PfxP, s.PfxA, len(s.Indent), s.Decl, s.Shuf, s.NSLate, s.Head != "", s.Tail != "")
}

func (s Style) rootNS(root *Node) {
	if s.PfxP == "" {
		root.Set("xmlns", NSP)
	} else {
		root.Set("xmlns:"+s.PfxP, NSP)
	}
	if s.PfxA != "" && !s.NSLate {
		root.Set("xmlns:"+s.PfxA, NSA)
	}
}

// a builds an assertion-namespace element.
func (s Style) a(local string) *Node {
	n := El(q(s.PfxA, local))
	if s.PfxA == "" {
		n.Set("xmlns", NSA)
	} else if s.NSLate {
		n.Set("xmlns:"+s.PfxA, NSA)
	}
	return n
}

func (s Style) p(local string) *Node {
	n := El(q(s.PfxP, local))
	return n
}

func (s Style) finish(root *Node, rng *mrand.Rand) string {
	if s.Shuf && rng != nil {
		rng.Shuffle(len(root.Attrs), func(i, j int) { root.Attrs[i], root.Attrs[j] = root.Attrs[j], root.Attrs[i] })
	}
	return s.Wrap(root.Render(s.Indent))
}

// Wrap adds the XML declaration selected by the style.
func (s Style) Wrap(body string) string {
	body = s.Head + body + s.Tail
	switch s.Decl {
	case 1:
		return `<?xml version="1.0" encoding="UTF-8"?>` + "\n" + body
	case 2:
		return `<?xml version="1.0" encoding="UTF-8" standalone="yes"?>` + body
	}
	return body
}

// ---------- AuthnRequest ----------

type AuthnReq struct {
	ID, Version, IssueInstant string
	Destination               string
	Issuer                    string
	IssuerFormat              string
	ACSURL, ACSIndex          string
	ProtocolBinding           string
	ForceAuthn, IsPassive     string
	ProviderName, Consent     string
	NameIDPolicy              bool
	AllowCreate               string // lexical form of NameIDPolicy/@AllowCreate ("" = "true"); may be one no xs:boolean has
	NameIDFormat              string
	Conditions                bool
	NotBefore, NotOnOrAfter   string
	AuthnContext              bool
	Scoping                   bool
	Extensions                bool
	Subject                   string // NameID of an optional Subject
	SubjectKind               string // "" = Subject with that NameID (if any); "confirmation_only" / "name_id_and_confirmation" / "encrypted_id": the other shapes saml:SubjectType allows
	Style                     Style
}

func (a *AuthnReq) Node() *Node {
	s := a.Style
	root := s.p("AuthnRequest")
	s.rootNS(root)
	root.Set("ID", a.ID).Set("Version", a.Version).Set("IssueInstant", a.IssueInstant)
	if a.Destination != "" {
		root.Set("Destination", a.Destination)
	}
	if a.ProtocolBinding != "" {
		root.Set("ProtocolBinding", a.ProtocolBinding)
	}
	if a.ACSURL != "" {
		root.Set("AssertionConsumerServiceURL", a.ACSURL)
	}
	if a.ACSIndex != "" {
		root.Set("AssertionConsumerServiceIndex", a.ACSIndex)
	}
	if a.ForceAuthn != "" {
		root.Set("ForceAuthn", a.ForceAuthn)
	}
	if a.IsPassive != "" {
		root.Set("IsPassive", a.IsPassive)
	}
	if a.ProviderName != "" {
		root.Set("ProviderName", a.ProviderName)
	}
	if a.Consent != "" {
		root.Set("Consent", a.Consent)
	}
	iss := s.a("Issuer").SetText(a.Issuer)
	if a.IssuerFormat != "" {
		iss.Set("Format", a.IssuerFormat)
	}
	root.Add(iss)
	if a.Extensions {
		root.Add(s.p("Extensions").Add(El("x:Hint", Attr{"xmlns:x", "urn:example:ext"}).SetText("h")))
	}
	conf := func() *Node {
		return s.a("SubjectConfirmation").Set("Method", "urn:oasis:names:tc:SAML:2.0:cm:holder-of-key")
	}
	switch {
	case a.SubjectKind == "confirmation_only":
		root.Add(s.a("Subject").Add(conf()))
	case a.SubjectKind == "name_id_and_confirmation":
		root.Add(s.a("Subject").Add(s.a("NameID").SetText(a.Subject)).Add(conf()))
	case a.SubjectKind == "encrypted_id":
		root.Add(s.a("Subject").Add(s.a("EncryptedID").Add(El("xenc:EncryptedData", Attr{"xmlns:xenc", "http://www.w3.org/2001/04/xmlenc#"}).Add(El("xenc:CipherData").Add(El("xenc:CipherValue").SetText("AAAA"))))))
	case a.Subject != "":
		root.Add(s.a("Subject").Add(s.a("NameID").SetText(a.Subject)))
	}
	if a.NameIDPolicy {
		ac := "true"
		if a.AllowCreate != "" {
			ac = a.AllowCreate
		}
		np := s.p("NameIDPolicy").Set("AllowCreate", ac)
		if a.NameIDFormat != "" {
			np.Set("Format", a.NameIDFormat)
		}
		root.Add(np)
	}
	if a.Conditions {
		c := s.a("Conditions")
		if a.NotBefore != "" {
			c.Set("NotBefore", a.NotBefore)
		}
		if a.NotOnOrAfter != "" {
			c.Set("NotOnOrAfter", a.NotOnOrAfter)
		}
		root.Add(c)
	}
	if a.AuthnContext {
		root.Add(s.p("RequestedAuthnContext").Set("Comparison", "exact").Add(
			s.a("AuthnContextClassRef").SetText("urn:oasis:names:tc:SAML:2.0:ac:classes:PasswordProtectedTransport")))
	}
	if a.Scoping {
		root.Add(s.p("Scoping").Set("ProxyCount", "1"))
	}
	return root
}

func (a *AuthnReq) XML(rng *mrand.Rand) string { return a.Style.finish(a.Node(), rng) }

// ---------- LogoutRequest ----------

type LogoutReq struct {
	ID, Version, IssueInstant string
	Destination               string
	NotOnOrAfter              string
	Reason                    string
	Issuer                    string
	NameID                    string
	NameIDFormat              string
	NoNameID                  bool
	NoIssuer                  bool   // leave the Issuer element out altogether
	SPNameQualifier           string // attributes of the NameID (and, with an empty Issuer, of the Issuer element)
	NameQualifier             string
	OtherPrincipal            string // with NoNameID: "EncryptedID" or "BaseID" - the other forms of principal SAML core 3.7.1 allows
	SessionIndex              []string
	Style                     Style
}

func (l *LogoutReq) Node() *Node {
	s := l.Style
	root := s.p("LogoutRequest")
	s.rootNS(root)
	root.Set("ID", l.ID).Set("Version", l.Version).Set("IssueInstant", l.IssueInstant)
	if l.Destination != "" {
		root.Set("Destination", l.Destination)
	}
	if l.NotOnOrAfter != "" {
		root.Set("NotOnOrAfter", l.NotOnOrAfter)
	}
	if l.Reason != "" {
		root.Set("Reason", l.Reason)
	}
	if !l.NoIssuer {
		iss := s.a("Issuer").SetText(l.Issuer)
		if l.Issuer == "" && l.SPNameQualifier != "" {
			iss.Set("SPNameQualifier", l.SPNameQualifier)
		}
		if l.Issuer == "" && l.NameQualifier != "" {
			iss.Set("NameQualifier", l.NameQualifier)
		}
		root.Add(iss)
	}
	if !l.NoNameID {
		n := s.a("NameID").SetText(l.NameID)
		if l.NameIDFormat != "" {
			n.Set("Format", l.NameIDFormat)
		}
		if l.SPNameQualifier != "" {
			n.Set("SPNameQualifier", l.SPNameQualifier)
		}
		if l.NameQualifier != "" {
			n.Set("NameQualifier", l.NameQualifier)
		}
		root.Add(n)
	} else if l.OtherPrincipal == "EncryptedID" {
		root.Add(s.a("EncryptedID").Add(El("xenc:EncryptedData", Attr{"xmlns:xenc", "http://www.w3.org/2001/04/xmlenc#"}, Attr{"Type", "http://www.w3.org/2001/04/xmlenc#Element"}).Add(
			El("xenc:CipherData").Add(El("xenc:CipherValue").SetText("AAAA")))))
	} else if l.OtherPrincipal == "BaseID" {
		root.Add(s.a("BaseID").Set("NameQualifier", "urn:example:q"))
	}
	for _, si := range l.SessionIndex {
		root.Add(s.p("SessionIndex").SetText(si))
	}
	return root
}

func (l *LogoutReq) XML(rng *mrand.Rand) string { return l.Style.finish(l.Node(), rng) }

// ---------- AttributeQuery (SOAP) ----------

type QAttr struct {
	Name, NameFormat, Friendly string
	Values                     []string // AttributeValue children (saml-core 3.3.2.3: only these values are of interest)
}

type AttrQuery struct {
	ID, Version, IssueInstant string
	Destination               string
	Issuer                    string
	Subject                   string
	SubjectFormat             string
	SubjectSPNameQualifier    string // SPNameQualifier / NameQualifier attribute of the subject's NameID (and of an Issuer without text)
	SubjectNameQualifier      string
	Attrs                     []QAttr
	SoapPfx                   string // "" = default namespace on Envelope
	Header                    bool
	Style                     Style
}

func (q_ *AttrQuery) QueryNode() *Node {
	s := q_.Style
	root := s.p("AttributeQuery")
	s.rootNS(root)
	root.Set("ID", q_.ID).Set("Version", q_.Version).Set("IssueInstant", q_.IssueInstant)
	if q_.Destination != "" {
		root.Set("Destination", q_.Destination)
	}
	iss := s.a("Issuer").SetText(q_.Issuer)
	root.Add(iss)
	n := s.a("NameID").SetText(q_.Subject)
	if q_.SubjectFormat != "" {
		n.Set("Format", q_.SubjectFormat)
	}
	if q_.SubjectSPNameQualifier != "" {
		n.Set("SPNameQualifier", q_.SubjectSPNameQualifier)
		if q_.Issuer == "" {
			iss.Set("SPNameQualifier", q_.SubjectSPNameQualifier)
		}
	}
	if q_.SubjectNameQualifier != "" {
		n.Set("NameQualifier", q_.SubjectNameQualifier)
	}
	root.Add(s.a("Subject").Add(n))
	for _, a := range q_.Attrs {
		e := s.a("Attribute").Set("Name", a.Name)
		if a.NameFormat != "" {
			e.Set("NameFormat", a.NameFormat)
		}
		if a.Friendly != "" {
			e.Set("FriendlyName", a.Friendly)
		}
		for _, v := range a.Values {
			e.Add(s.a("AttributeValue").SetText(v))
		}
		root.Add(e)
	}
	return root
}

// Envelope wraps an already serialised query (possibly signed) in a SOAP envelope.
func (q_ *AttrQuery) Envelope(queryXML string) string {
	p := q_.SoapPfx
	env := El(q(p, "Envelope"))
	if p == "" {
		env.Set("xmlns", NSOAP)
	} else {
		env.Set("xmlns:"+p, NSOAP)
	}
	if q_.Header {
		env.Add(El(q(p, "Header")))
	}
	body := El(q(p, "Body"))
	body.Raw = queryXML
	env.Add(body)
	return q_.Style.Wrap(env.Render(""))
}

func (q_ *AttrQuery) XML(rng *mrand.Rand) string {
	root := q_.QueryNode()
	if q_.Style.Shuf && rng != nil {
		rng.Shuffle(len(root.Attrs), func(i, j int) { root.Attrs[i], root.Attrs[j] = root.Attrs[j], root.Attrs[i] })
	}
	return q_.Envelope(root.Render(q_.Style.Indent))
}

// ---------- encoding ----------

func Deflate(b []byte) []byte {
	var buf bytes.Buffer
	w, _ := flate.NewWriter(&buf, 9)
	_, _ = w.Write(b)
	_ = w.Close()
	return buf.Bytes()
}

func B64(b []byte) string { return base64.StdEncoding.EncodeToString(b) }

// DeflateB64 is the HTTP-Redirect message encoding.
func DeflateB64(xml string) string { return B64(Deflate([]byte(xml))) }

// DeflateUnfinished compresses data into a DEFLATE stream that was flushed but never finished: a reader gets all of
// the data and then an unexpected end of the stream (a message cut off in transit, or built by a broken client).
func DeflateUnfinished(data []byte) []byte {
	var b bytes.Buffer
	w, _ := flate.NewWriter(&b, flate.DefaultCompression)
	_, _ = w.Write(data)
	_ = w.Flush()
	return b.Bytes()
}

// Percent-encoding styles a conformant SP may use.
const (
	PctGo    = "go"    // upper-case hex, space as '+'
	PctLower = "lower" // lower-case hex, space as '+'
	Pct20    = "pct20" // upper-case hex, space as %20
	PctAll   = "all"   // upper-case hex, encodes every byte outside [A-Za-z0-9]
)

func PctEncode(s, style string) string {
	var b strings.Builder
	const up, lo = "0123456789ABCDEF", "0123456789abcdef"
	for i := 0; i < len(s); i++ {
		c := s[i]
		unres := c >= 'a' && c <= 'z' || c >= 'A' && c <= 'Z' || c >= '0' && c <= '9'
		if style != PctAll {
			unres = unres || c == '-' || c == '_' || c == '.' || c == '~'
		}
		switch {
		case unres:
			b.WriteByte(c)
		case c == ' ' && (style == PctGo || style == PctLower):
			b.WriteByte('+')
		default:
			h := up
			if style == PctLower {
				h = lo
			}
			b.WriteByte('%')
			b.WriteByte(h[c>>4])
			b.WriteByte(h[c&15])
		}
	}
	return b.String()
}

// ---------- signing ----------

func hashFor(alg string) (crypto.Hash, bool) {
	switch alg {
	case AlgRSASHA1:
		return crypto.SHA1, true
	case AlgRSASHA256:
		return crypto.SHA256, true
	}
	return 0, false
}

// SignOctets produces the PKCS#1 v1.5 signature of the octet string.
func SignOctets(k *rsa.PrivateKey, alg string, octets []byte) ([]byte, error) {
	h, ok := hashFor(alg)
	if !ok {
		return nil, fmt.Errorf("unsupported algorithm %s", alg)
	}
	var sum []byte
	if h == crypto.SHA1 {
		s := sha1.Sum(octets)
		sum = s[:]
	} else {
		s := sha256.Sum256(octets)
		sum = s[:]
	}
	return rsa.SignPKCS1v15(rand.Reader, k, h, sum)
}

// RedirectMsg is a message on the HTTP-Redirect binding.
type RedirectMsg struct {
	Param      string // SAMLRequest
	Value      string // base64(deflate(xml))
	RelayState string
	HasRelay   bool
	SigAlg     string
	Signature  string // base64
	Pct        string
	Encoding   string // explicit SAMLEncoding parameter ("" = omit)
}

// SignedOctets returns the octet string a conformant SP signs.
func (m *RedirectMsg) SignedOctets() string {
	s := m.Param + "=" + PctEncode(m.Value, m.Pct)
	if m.HasRelay {
		s += "&RelayState=" + PctEncode(m.RelayState, m.Pct)
	}
	s += "&SigAlg=" + PctEncode(m.SigAlg, m.Pct)
	return s
}

func (m *RedirectMsg) Sign(k *rsa.PrivateKey) error {
	sig, err := SignOctets(k, m.SigAlg, []byte(m.SignedOctets()))
	if err != nil {
		return err
	}
	m.Signature = B64(sig)
	return nil
}

// RawQuery assembles the query string exactly as the SP would send it.
func (m *RedirectMsg) RawQuery() string {
	var s string
	if m.SigAlg != "" {
		s = m.SignedOctets()
	} else {
		s = m.Param + "=" + PctEncode(m.Value, m.Pct)
		if m.HasRelay {
			s += "&RelayState=" + PctEncode(m.RelayState, m.Pct)
		}
	}
	if m.Signature != "" {
		s += "&Signature=" + PctEncode(m.Signature, m.Pct)
	}
	if m.Encoding != "" {
		s += "&SAMLEncoding=" + PctEncode(m.Encoding, m.Pct)
	}
	return s
}

// FormBody builds an application/x-www-form-urlencoded body.
func FormBody(kv ...string) string {
	v := url.Values{}
	for i := 0; i+1 < len(kv); i += 2 {
		v.Add(kv[i], kv[i+1])
	}
	return v.Encode()
}

// XMLSignOpts selects the layout of an enveloped signature.
type XMLSignOpts struct {
	Alg        string
	DropKey    bool   // remove KeyInfo after signing
	WrapCert   int    // re-wrap certificate text at this column (0 = leave)
	WrapSep    string // separator used when re-wrapping ("" = "\n")
	KeepAtEnd  bool   // leave the Signature as last child instead of moving it after Issuer
	InclusiveP string
}

// SignEnveloped signs the document rooted at xml (ID attribute "ID") with the
// pair's RSA key using goxmldsig and returns the serialised result.
func SignEnveloped(xml string, pair *keys.Pair, o XMLSignOpts) (string, error) {
	doc := etree.NewDocument()
	if err := doc.ReadFromString(xml); err != nil {
		return "", err
	}
	root := doc.Root()
	if root == nil {
		return "", fmt.Errorf("no root")
	}
	signed, err := SignElement(root, pair, o)
	if err != nil {
		return "", err
	}
	doc.SetRoot(signed)
	return doc.WriteToString()
}

// SignElement signs one etree element (enveloped) and returns the signed copy.
func SignElement(el *etree.Element, pair *keys.Pair, o XMLSignOpts) (*etree.Element, error) {
	ks := dsig.TLSCertKeyStore(tls.Certificate{Certificate: [][]byte{pair.CertDER}, PrivateKey: pair.RSA})
	ctx := dsig.NewDefaultSigningContext(ks)
	ctx.Canonicalizer = dsig.MakeC14N10ExclusiveCanonicalizerWithPrefixList(o.InclusiveP)
	alg := o.Alg
	if alg == "" {
		alg = AlgRSASHA256
	}
	if err := ctx.SetSignatureMethod(alg); err != nil {
		return nil, err
	}
	signed, err := ctx.SignEnveloped(el)
	if err != nil {
		return nil, err
	}
	// locate the signature (last child element)
	var sig *etree.Element
	for _, c := range signed.ChildElements() {
		if c.Tag == "Signature" {
			sig = c
		}
	}
	if sig == nil {
		return nil, fmt.Errorf("signature element not found")
	}
	if o.DropKey {
		if ki := sig.FindElement("./KeyInfo"); ki != nil {
			sig.RemoveChild(ki)
		}
	} else if o.WrapCert > 0 {
		if ce := sig.FindElement("./KeyInfo/X509Data/X509Certificate"); ce != nil {
			ce.SetText("\n" + pair.B64Wrapped(o.WrapCert, "\n") + "\n")
		}
	}
	if !o.KeepAtEnd {
		// schema position: directly after Issuer
		for i, tok := range signed.Child {
			if tok == etree.Token(sig) {
				signed.Child = append(signed.Child[:i:i], signed.Child[i+1:]...)
				break
			}
		}
		pos := 0
		for i, tok := range signed.Child {
			if e, ok := tok.(*etree.Element); ok && e.Tag == "Issuer" {
				pos = i + 1
				break
			}
		}
		signed.InsertChildAt(pos, sig)
	}
	return signed, nil
}

// Finish serialises an (edited) root node in this style.
func (s Style) Finish(root *Node, rng *mrand.Rand) string { return s.finish(root, rng) }
