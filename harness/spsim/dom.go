// Package spsim simulates service providers: metadata documents, the three
// request types in many legal serialisations, and signing (done here, never by
// the code under test).
package spsim

import (
	"strings"
)

// Attr is one attribute (Name may carry a prefix, e.g. "xmlns:samlp").
type Attr struct{ Name, Value string }

// Node is a tiny XML element model that gives full control over serialisation
// and makes structural edits (delete / duplicate / empty) trivial.
type Node struct {
	Name  string
	Attrs []Attr
	Kids  []*Node
	Text  string
	Raw   string // raw XML emitted instead of children (already serialised subtrees)
}

func El(name string, attrs ...Attr) *Node { return &Node{Name: name, Attrs: attrs} }

func (n *Node) Add(k ...*Node) *Node {
	for _, c := range k {
		if c != nil {
			n.Kids = append(n.Kids, c)
		}
	}
	return n
}

func (n *Node) SetText(s string) *Node { n.Text = s; return n }

func (n *Node) Set(name, value string) *Node {
	for i := range n.Attrs {
		if n.Attrs[i].Name == name {
			n.Attrs[i].Value = value
			return n
		}
	}
	n.Attrs = append(n.Attrs, Attr{name, value})
	return n
}

func (n *Node) Del(name string) *Node {
	for i := range n.Attrs {
		if n.Attrs[i].Name == name {
			n.Attrs = append(n.Attrs[:i:i], n.Attrs[i+1:]...)
			return n
		}
	}
	return n
}

func (n *Node) Get(name string) (string, bool) {
	for _, a := range n.Attrs {
		if a.Name == name {
			return a.Value, true
		}
	}
	return "", false
}

// Local returns the element name without prefix.
func (n *Node) Local() string {
	if i := strings.IndexByte(n.Name, ':'); i >= 0 {
		return n.Name[i+1:]
	}
	return n.Name
}

// Find returns the first descendant (depth first) whose local name is local.
func (n *Node) Find(local string) *Node {
	for _, k := range n.Kids {
		if k.Local() == local {
			return k
		}
		if f := k.Find(local); f != nil {
			return f
		}
	}
	return nil
}

func (n *Node) Clone() *Node {
	c := &Node{Name: n.Name, Text: n.Text, Raw: n.Raw}
	c.Attrs = append([]Attr(nil), n.Attrs...)
	for _, k := range n.Kids {
		c.Kids = append(c.Kids, k.Clone())
	}
	return c
}

// Walk visits every element with its parent (nil for the root) and child index.
func (n *Node) Walk(f func(parent *Node, idx int, el *Node)) {
	var rec func(p *Node, i int, e *Node)
	rec = func(p *Node, i int, e *Node) {
		f(p, i, e)
		for j, k := range e.Kids {
			rec(e, j, k)
		}
	}
	rec(nil, 0, n)
}

// EscText escapes character data.
func EscText(s string) string {
	var b strings.Builder
	for _, r := range s {
		switch r {
		case '&':
			b.WriteString("&amp;")
		case '<':
			b.WriteString("&lt;")
		case '>':
			b.WriteString("&gt;")
		case '\r':
			b.WriteString("&#xD;")
		default:
			b.WriteRune(r)
		}
	}
	return b.String()
}

// EscAttr escapes an attribute value (double-quoted).
func EscAttr(s string) string {
	var b strings.Builder
	for _, r := range s {
		switch r {
		case '&':
			b.WriteString("&amp;")
		case '<':
			b.WriteString("&lt;")
		case '"':
			b.WriteString("&quot;")
		case '>':
			b.WriteString("&gt;")
		case '\t':
			b.WriteString("&#x9;")
		case '\n':
			b.WriteString("&#xA;")
		case '\r':
			b.WriteString("&#xD;")
		default:
			b.WriteRune(r)
		}
	}
	return b.String()
}

// Render serialises the element; indent "" = compact.
func (n *Node) Render(indent string) string {
	var b strings.Builder
	n.render(&b, indent, 0)
	return b.String()
}

func (n *Node) render(b *strings.Builder, indent string, depth int) {
	pad := func(d int) {
		if indent != "" {
			b.WriteByte('\n')
			for i := 0; i < d; i++ {
				b.WriteString(indent)
			}
		}
	}
	b.WriteByte('<')
	b.WriteString(n.Name)
	for _, a := range n.Attrs {
		b.WriteByte(' ')
		b.WriteString(a.Name)
		b.WriteString(`="`)
		b.WriteString(EscAttr(a.Value))
		b.WriteByte('"')
	}
	if len(n.Kids) == 0 && n.Text == "" && n.Raw == "" {
		b.WriteString("/>")
		return
	}
	b.WriteByte('>')
	if n.Raw != "" {
		b.WriteString(n.Raw)
	}
	b.WriteString(EscText(n.Text))
	for _, k := range n.Kids {
		pad(depth + 1)
		k.render(b, indent, depth+1)
	}
	if len(n.Kids) > 0 {
		pad(depth)
	}
	b.WriteString("</")
	b.WriteString(n.Name)
	b.WriteByte('>')
}
