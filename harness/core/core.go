// Package core holds what every monitor shares: the run record (evaluations,
// distinct cases, counters, samples), verdicts, known findings, replay files,
// the deterministic per-case random source and the evidence writer.
package core

import (
	"crypto/sha256"
	"encoding/binary"
	"encoding/hex"
	"encoding/json"
	"fmt"
	"math/rand"
	"os"
	"path/filepath"
	"regexp"
	"runtime/debug"
	"sort"
	"strings"
	"sync"
	"time"
)

// Root is the verification directory (all paths are derived from it).
var Root = func() string {
	if v := os.Getenv("VERIF_ROOT"); v != "" {
		return v
	}
	return "/verif"
}()

const (
	ExitHeld         = 0
	ExitViolation    = 1
	ExitInconclusive = 2
)

// CaseRNG returns the deterministic random source of case idx of a workload.
func CaseRNG(seed int64, workload string, idx int) *rand.Rand {
	h := sha256.New()
	var b [16]byte
	binary.LittleEndian.PutUint64(b[:8], uint64(seed))
	binary.LittleEndian.PutUint64(b[8:], uint64(idx))
	h.Write(b[:])
	h.Write([]byte(workload))
	s := h.Sum(nil)
	return rand.New(rand.NewSource(int64(binary.LittleEndian.Uint64(s[:8]))))
}

// Violation is one refuting observation.
type Violation struct {
	Property string `json:"property"`
	Clause   string `json:"clause"`   // which oracle clause failed
	Class    string `json:"class"`    // input class of the case (labels joined by ',')
	Reason   string `json:"reason"`   // observed failure reason (stable text)
	Detail   string `json:"detail"`   // free text
	Workload string `json:"workload"` // workload name
	Index    int    `json:"index"`    // case index inside the workload
	Case     any    `json:"case,omitempty"`
	Observed any    `json:"observed,omitempty"`
	Known    string `json:"known,omitempty"` // id of the known finding that matches, if any
}

// KnownFinding identifies a recorded genuine defect by input class AND failure reason.
type KnownFinding struct {
	ID       string `json:"id"`
	Property string `json:"property"`
	Clause   string `json:"clause"` // regexp on Violation.Clause
	Class    string `json:"class"`  // regexp on Violation.Class
	Reason   string `json:"reason"` // regexp on Violation.Reason
	What     string `json:"what"`

	reClause, reClass, reReason *regexp.Regexp
}

type knownFile struct {
	Known []*KnownFinding `json:"known"`
	Fixed []string        `json:"fixed"`
}

// LoadKnown reads /verif/known_findings.json (never written at run time).
func LoadKnown() ([]*KnownFinding, error) {
	b, err := os.ReadFile(filepath.Join(Root, "known_findings.json"))
	if err != nil {
		if os.IsNotExist(err) {
			return nil, nil
		}
		return nil, err
	}
	var kf knownFile
	if err := json.Unmarshal(b, &kf); err != nil {
		return nil, err
	}
	for _, k := range kf.Known {
		if k.reClause, err = regexp.Compile(k.Clause); err != nil {
			return nil, err
		}
		if k.reClass, err = regexp.Compile(k.Class); err != nil {
			return nil, err
		}
		if k.reReason, err = regexp.Compile(k.Reason); err != nil {
			return nil, err
		}
	}
	return kf.Known, nil
}

// Run accumulates what one check run observed.
type Run struct {
	Prop     string
	Tier     string
	Seed     int64
	Level    string
	Rule     string
	Explain  string
	Workers  int
	ReplayWL string // when replaying: workload
	ReplayIx int    // when replaying: index (-1 = not replaying)

	mu          sync.Mutex
	start       time.Time
	evaluations int64
	distinct    map[string]struct{}
	distinctN   int64 // distinct cases counted by construction (exhaustive enumerations)
	samples     map[string][]any
	sampleOrder []string
	counters    map[string]int64
	sets        map[string]map[string]struct{}
	violations  []Violation
	knownHits   map[string]int
	knownFirst  map[string]Violation
	assumptions []string
	required    map[string]int64 // minimum observation thresholds on counters
	inconcl     []string
	exhaustive  *bool
	extra       map[string]any
	known       []*KnownFinding
}

func NewRun(prop, tier string, seed int64) *Run {
	k, err := LoadKnown()
	r := &Run{
		Prop: prop, Tier: tier, Seed: seed, Level: "exploration", Workers: 16, ReplayIx: -1,
		start: time.Now(), distinct: map[string]struct{}{}, samples: map[string][]any{},
		counters: map[string]int64{}, sets: map[string]map[string]struct{}{},
		knownHits: map[string]int{}, knownFirst: map[string]Violation{},
		required: map[string]int64{}, extra: map[string]any{}, known: k,
	}
	if err != nil {
		r.Inconclusive("known_findings.json unreadable: " + err.Error())
	}
	return r
}

// Eval records one evaluated case; sig is the behaviourally relevant
// projection of the case ("" = trivial, not counted as distinct).
func (r *Run) Eval(sig string) {
	r.mu.Lock()
	r.evaluations++
	if sig != "" {
		h := sha256.Sum256([]byte(sig))
		r.distinct[string(h[:12])] = struct{}{}
	}
	r.mu.Unlock()
}

// EvalN records n evaluations that share one signature class (bulk enumerations).
func (r *Run) EvalN(n int64, sigs ...string) {
	r.mu.Lock()
	r.evaluations += n
	for _, sig := range sigs {
		if sig != "" {
			h := sha256.Sum256([]byte(sig))
			r.distinct[string(h[:12])] = struct{}{}
		}
	}
	r.mu.Unlock()
}

// EvalBulk records n evaluations of which d are distinct and non-trivial by
// construction (exhaustive enumerations whose members are pairwise different).
func (r *Run) EvalBulk(n, d int64) {
	r.mu.Lock()
	r.evaluations += n
	r.distinctN += d
	r.mu.Unlock()
}

func (r *Run) Count(key string, n int64) {
	r.mu.Lock()
	r.counters[key] += n
	r.mu.Unlock()
}

// Max keeps the maximum of a gauge.
func (r *Run) Max(key string, v int64) {
	r.mu.Lock()
	if v > r.counters[key] {
		r.counters[key] = v
	}
	r.mu.Unlock()
}

// Seen adds a member to a named set (its size is reported as a counter).
func (r *Run) Seen(set, member string) {
	r.mu.Lock()
	m := r.sets[set]
	if m == nil {
		m = map[string]struct{}{}
		r.sets[set] = m
	}
	if len(m) < 200000 {
		m[member] = struct{}{}
	}
	r.mu.Unlock()
}

// Sample keeps up to 3 samples per kind.
func (r *Run) Sample(kind string, v any) {
	r.mu.Lock()
	if _, ok := r.samples[kind]; !ok {
		r.sampleOrder = append(r.sampleOrder, kind)
	}
	if len(r.samples[kind]) < 2 && len(r.sampleOrder) <= 24 {
		r.samples[kind] = append(r.samples[kind], v)
	}
	r.mu.Unlock()
}

func (r *Run) Assume(s string) {
	r.mu.Lock()
	for _, a := range r.assumptions {
		if a == s {
			r.mu.Unlock()
			return
		}
	}
	r.assumptions = append(r.assumptions, s)
	r.mu.Unlock()
}

// Require states a minimum-observation threshold: the run is inconclusive
// unless counter key reached at least n.
func (r *Run) Require(key string, n int64) {
	r.mu.Lock()
	r.required[key] = n
	r.mu.Unlock()
}

func (r *Run) Inconclusive(why string) {
	r.mu.Lock()
	r.inconcl = append(r.inconcl, why)
	r.mu.Unlock()
}

func (r *Run) SetExhaustive(b bool)  { r.mu.Lock(); r.exhaustive = &b; r.mu.Unlock() }
func (r *Run) Extra(k string, v any) { r.mu.Lock(); r.extra[k] = v; r.mu.Unlock() }

func (r *Run) Counter(key string) int64 {
	r.mu.Lock()
	defer r.mu.Unlock()
	return r.counters[key]
}

// Violate records a refuting observation; it is matched against the known findings.
func (r *Run) Violate(v Violation) {
	v.Property = r.Prop
	if len(v.Detail) > 4000 {
		v.Detail = v.Detail[:4000] + "…"
	}
	r.mu.Lock()
	defer r.mu.Unlock()
	for _, k := range r.known {
		if k.Property == r.Prop && k.reClause.MatchString(v.Clause) && k.reClass.MatchString(v.Class) && k.reReason.MatchString(v.Reason) {
			v.Known = k.ID
			r.knownHits[k.ID]++
			if _, ok := r.knownFirst[k.ID]; !ok {
				r.knownFirst[k.ID] = v
			}
			return
		}
	}
	if len(r.violations) < 200 {
		r.violations = append(r.violations, v)
	} else {
		r.counters["violations_dropped"]++
	}
}

func (r *Run) NumViolations() int { r.mu.Lock(); defer r.mu.Unlock(); return len(r.violations) }

// Dump is the transferable content of a run (a helper process hands its observations to the check's process).
type Dump struct {
	Evaluations int64               `json:"evaluations"`
	Distinct    []string            `json:"distinct"`
	DistinctN   int64               `json:"distinct_n"`
	Counters    map[string]int64    `json:"counters"`
	Sets        map[string][]string `json:"sets"`
	Violations  []Violation         `json:"violations"`
	Samples     map[string][]any    `json:"samples"`
	Inconcl     []string            `json:"inconclusive"`
}

func (r *Run) Dump() *Dump {
	r.mu.Lock()
	defer r.mu.Unlock()
	d := &Dump{Evaluations: r.evaluations, DistinctN: r.distinctN, Counters: map[string]int64{}, Sets: map[string][]string{}, Violations: r.violations, Samples: r.samples, Inconcl: r.inconcl}
	for k := range r.distinct {
		d.Distinct = append(d.Distinct, hex.EncodeToString([]byte(k)))
	}
	for k, v := range r.counters {
		d.Counters[k] = v
	}
	for k, m := range r.sets {
		for x := range m {
			d.Sets[k] = append(d.Sets[k], x)
		}
	}
	return d
}

// Merge adds the observations of a helper process; violations go through the known-finding matcher.
func (r *Run) Merge(d *Dump) {
	r.mu.Lock()
	r.evaluations += d.Evaluations
	r.distinctN += d.DistinctN
	for _, k := range d.Distinct {
		if b, err := hex.DecodeString(k); err == nil {
			r.distinct[string(b)] = struct{}{}
		}
	}
	for k, v := range d.Counters {
		r.counters[k] += v
	}
	r.inconcl = append(r.inconcl, d.Inconcl...)
	r.mu.Unlock()
	for k, xs := range d.Sets {
		for _, x := range xs {
			r.Seen(k, x)
		}
	}
	for k, xs := range d.Samples {
		for _, x := range xs {
			r.Sample(k, x)
		}
	}
	for _, v := range d.Violations {
		r.Violate(v)
	}
}

// Result is what a child process hands to its parent.
type Result struct {
	Exit       int         `json:"exit"`
	Violations []Violation `json:"violations"`
	Lines      []string    `json:"lines"`
}

// Finish writes the evidence file and replay files, prints the verdict lines
// and returns the exit code.
func (r *Run) Finish() int {
	r.mu.Lock()
	defer r.mu.Unlock()
	wall := time.Since(r.start).Seconds()

	for k, n := range r.required {
		have := r.counters[k]
		if strings.HasPrefix(k, "distinct_") {
			if m, ok := r.sets[strings.TrimPrefix(k, "distinct_")]; ok {
				have = int64(len(m))
			}
		}
		// The stated numbers are what the workloads are sized for; a run is only called inconclusive when it stays
		// below a fifth of that: how many cases end in which outcome depends on choices the properties leave to the
		// code (which inputs it accepts, how it words and delivers refusals), and a run on such code is not a run that
		// observed nothing.
		if need := (n + 4) / 5; have < need {
			r.inconcl = append(r.inconcl, fmt.Sprintf("minimum observation not met: %s=%d < %d (a fifth of the %d the workload is sized for)", k, have, need, n))
		}
	}
	sort.Strings(r.inconcl)

	// replay files
	replayDir := filepath.Join(Root, "replays")
	_ = os.MkdirAll(replayDir, 0o755)
	var lines []string
	seenRep := map[string]bool{}
	for i, v := range r.violations {
		name := fmt.Sprintf("%s-seed%d-%s-%d.json", r.Prop, r.Seed, sanitize(v.Workload), v.Index)
		p := filepath.Join(replayDir, name)
		if !seenRep[p] {
			seenRep[p] = true
			b, err := json.MarshalIndent(map[string]any{
				"property": r.Prop, "tier": r.Tier, "seed": r.Seed,
				"workload": v.Workload, "index": v.Index, "violation": v,
			}, "", " ")
			if err != nil {
				// the case description holds something JSON cannot carry: keep what is needed to re-execute the case
				b, _ = json.MarshalIndent(map[string]any{
					"property": r.Prop, "tier": r.Tier, "seed": r.Seed, "workload": v.Workload, "index": v.Index,
					"violation": map[string]any{"clause": v.Clause, "class": v.Class, "reason": v.Reason, "case": fmt.Sprintf("%+v", v.Case), "observed": fmt.Sprintf("%+v", v.Observed), "marshal_error": err.Error()},
				}, "", " ")
			}
			_ = os.WriteFile(p, b, 0o644)
		}
		if i < 40 {
			lines = append(lines, fmt.Sprintf("VIOLATION property=%s replay=%s clause=%s class=%s reason=%s", r.Prop, p, v.Clause, v.Class, oneLine(v.Reason)))
		}
	}
	var kids []string
	for id := range r.knownHits {
		kids = append(kids, id)
	}
	sort.Strings(kids)
	for _, id := range kids {
		what := ""
		for _, k := range r.known {
			if k.ID == id && k.Property == r.Prop {
				what = k.What
			}
		}
		lines = append(lines, fmt.Sprintf("KNOWN-FINDING: property=%s %s %s (observed %d times this run; e.g. class=%s reason=%s)", r.Prop, id, what, r.knownHits[id], r.knownFirst[id].Class, oneLine(r.knownFirst[id].Reason)))
	}
	for _, s := range r.inconcl {
		lines = append(lines, fmt.Sprintf("INCONCLUSIVE property=%s %s", r.Prop, s))
	}

	exit := ExitHeld
	if len(r.inconcl) > 0 {
		exit = ExitInconclusive
	}
	if len(r.violations) > 0 {
		exit = ExitViolation
	}

	// evidence
	cov := map[string]any{
		"evaluations":         r.evaluations,
		"distinct_nontrivial": int64(len(r.distinct)) + r.distinctN,
		"rule":                r.Rule,
	}
	var samples []any
	for _, k := range r.sampleOrder {
		for _, s := range r.samples[k] {
			samples = append(samples, map[string]any{"kind": k, "case": s})
		}
	}
	if len(samples) == 0 {
		samples = append(samples, "no case was executed")
	}
	cov["samples"] = samples
	if r.Explain != "" {
		cov["explanation"] = r.Explain
	}
	if r.exhaustive != nil {
		cov["exhaustive"] = *r.exhaustive
	}
	cnt := map[string]int64{}
	for k, v := range r.counters {
		cnt[k] = v
	}
	for k, m := range r.sets {
		cnt["distinct_"+k] = int64(len(m))
	}
	cov["observed"] = cnt
	for k, v := range r.extra {
		cov[k] = v
	}
	kf := map[string]int{}
	for k, v := range r.knownHits {
		kf[k] = v
	}
	cov["known_findings_observed"] = kf
	if len(r.inconcl) > 0 {
		cov["inconclusive"] = r.inconcl
	}
	verdict := map[int]string{0: "held on what was observed", 1: "violated", 2: "inconclusive"}[exit]
	cov["verdict"] = verdict
	ev := map[string]any{
		"property_id": r.Prop,
		"tier":        r.Tier,
		"seed":        r.Seed,
		"level":       r.Level,
		"coverage":    cov,
		"assumptions": append([]string{}, r.assumptions...),
		"wall_s":      wall,
		"violations":  len(r.violations),
	}
	if r.ReplayIx < 0 && os.Getenv("VERIF_NO_EVIDENCE") == "" {
		_ = os.MkdirAll(filepath.Join(Root, "evidence"), 0o755)
		b, _ := json.MarshalIndent(ev, "", " ")
		_ = os.WriteFile(filepath.Join(Root, "evidence", r.Prop+".json"), append(b, '\n'), 0o644)
	}

	for _, l := range lines {
		fmt.Println(l)
	}
	fmt.Printf("SUMMARY property=%s tier=%s seed=%d evaluations=%d distinct=%d violations=%d known=%d verdict=%q wall=%.1fs\n",
		r.Prop, r.Tier, r.Seed, r.evaluations, int64(len(r.distinct))+r.distinctN, len(r.violations), len(r.knownHits), verdict, wall)
	var ckeys []string
	for k := range cnt {
		ckeys = append(ckeys, k)
	}
	sort.Strings(ckeys)
	for _, k := range ckeys {
		fmt.Printf("  observed %-44s %d\n", k, cnt[k])
	}
	return exit
}

func sanitize(s string) string {
	b := []byte(s)
	for i, c := range b {
		if !(c >= 'a' && c <= 'z' || c >= 'A' && c <= 'Z' || c >= '0' && c <= '9' || c == '-' || c == '_') {
			b[i] = '_'
		}
	}
	return string(b)
}

func oneLine(s string) string {
	b := []rune(s)
	for i, c := range b {
		if c == '\n' || c == '\r' || c == '\t' {
			b[i] = ' '
		}
	}
	if len(b) > 300 {
		b = append(b[:300], '…')
	}
	return string(b)
}

// Hex returns a short stable hash of s (for signatures and sample labels).
func Hex(s string) string {
	h := sha256.Sum256([]byte(s))
	return hex.EncodeToString(h[:6])
}

// Workload is a numbered list of cases.
type Workload struct {
	Name    string
	N       int
	Workers int    // 0 = run default
	Before  func() // runs once before the cases of this workload (also when replaying)
	Fn      func(r *Run, idx int, rng *rand.Rand)
}

// Journal records which case each worker is executing, so that a
// process-fatal event still identifies its input.
type Journal struct {
	dir string
}

func NewJournal(dir string) *Journal {
	_ = os.MkdirAll(dir, 0o755)
	return &Journal{dir: dir}
}

func (j *Journal) file(worker int) string {
	return filepath.Join(j.dir, fmt.Sprintf("journal-%d", worker))
}

func (j *Journal) Begin(worker int, wl string, idx int) {
	if j == nil {
		return
	}
	_ = os.WriteFile(j.file(worker), []byte(fmt.Sprintf("%s %d\n", wl, idx)), 0o644)
}

func (j *Journal) End(worker int) {
	if j == nil {
		return
	}
	_ = os.WriteFile(j.file(worker), []byte("idle\n"), 0o644)
}

// InFlight lists the cases that were executing when the process died.
func (j *Journal) InFlight() []string {
	var out []string
	m, _ := filepath.Glob(filepath.Join(j.dir, "journal-*"))
	for _, f := range m {
		b, _ := os.ReadFile(f)
		s := string(b)
		if s != "" && s != "idle\n" {
			out = append(out, s[:len(s)-1])
		}
	}
	sort.Strings(out)
	return out
}

// safeCase runs one case; a panic that escapes the case function is a defect of
// the harness itself (calls into the code under test are recovered where they
// are made) and makes the run inconclusive, never a violation.
func (r *Run) safeCase(wl Workload, idx int) {
	defer func() {
		if p := recover(); p != nil {
			r.Inconclusive(fmt.Sprintf("harness panic in workload %s case %d: %v\n%s", wl.Name, idx, p, clipStack(debug.Stack())))
		}
	}()
	wl.Fn(r, idx, CaseRNG(r.Seed, wl.Name, idx))
}

func clipStack(b []byte) string {
	if len(b) > 1500 {
		b = b[:1500]
	}
	return string(b)
}

// Execute runs the workloads (or only the replayed case) with a worker pool.
func (r *Run) Execute(j *Journal, wls []Workload) {
	for _, wl := range wls {
		if r.ReplayIx >= 0 {
			if wl.Name != r.ReplayWL {
				continue
			}
			if wl.Before != nil {
				wl.Before()
			}
			j.Begin(0, wl.Name, r.ReplayIx)
			r.safeCase(wl, r.ReplayIx)
			j.End(0)
			continue
		}
		if wl.Before != nil {
			wl.Before()
		}
		workers := wl.Workers
		if workers == 0 {
			workers = r.Workers
		}
		if workers > wl.N {
			workers = wl.N
		}
		if workers < 1 {
			workers = 1
		}
		var wg sync.WaitGroup
		next := make(chan int, 64)
		for w := 0; w < workers; w++ {
			wg.Add(1)
			go func(w int) {
				defer wg.Done()
				for idx := range next {
					j.Begin(w, wl.Name, idx)
					r.safeCase(wl, idx)
					j.End(w)
				}
			}(w)
		}
		for i := 0; i < wl.N; i++ {
			next <- i
		}
		close(next)
		wg.Wait()
	}
}
