// Package keys exposes the static key material of the simulated world.
package keys

import (
	"crypto"
	"crypto/rsa"
	"crypto/x509"
	"embed"
	"encoding/base64"
	"encoding/pem"
	"fmt"
	"strings"
)

//go:embed pem/*
var fs embed.FS

// Pair is a certificate with (optionally) its private key.
type Pair struct {
	Name    string
	CertDER []byte
	Cert    *x509.Certificate
	RSA     *rsa.PrivateKey // nil for non-RSA pairs
	Signer  crypto.Signer   // nil when the private key cannot sign through crypto.Signer (DSA)
}

// B64 returns the certificate as unwrapped base64 text.
func (p *Pair) B64() string { return base64.StdEncoding.EncodeToString(p.CertDER) }

// B64Wrapped returns the certificate base64 text broken every n columns with sep.
func (p *Pair) B64Wrapped(n int, sep string) string {
	s := p.B64()
	var b strings.Builder
	for i := 0; i < len(s); i += n {
		e := i + n
		if e > len(s) {
			e = len(s)
		}
		b.WriteString(s[i:e])
		if e < len(s) {
			b.WriteString(sep)
		}
	}
	return b.String()
}

var cache = map[string]*Pair{}

// Get returns the named pair (idp_resp, idp_meta, sp0..sp3, attacker, ec, ed, dsa).
func Get(name string) *Pair {
	if p, ok := cache[name]; ok {
		return p
	}
	panic("keys: unknown pair " + name)
}

func init() {
	for _, n := range []string{"idp_resp", "idp_meta", "sp0", "sp1", "sp2", "sp3", "attacker", "ec", "ed", "dsa"} {
		p, err := load(n)
		if err != nil {
			panic(fmt.Sprintf("keys: %s: %v", n, err))
		}
		cache[n] = p
	}
}

func load(name string) (*Pair, error) {
	cb, err := fs.ReadFile("pem/" + name + ".crt")
	if err != nil {
		return nil, err
	}
	blk, _ := pem.Decode(cb)
	if blk == nil {
		return nil, fmt.Errorf("no PEM in certificate")
	}
	cert, err := x509.ParseCertificate(blk.Bytes)
	if err != nil {
		return nil, err
	}
	p := &Pair{Name: name, CertDER: blk.Bytes, Cert: cert}
	kb, err := fs.ReadFile("pem/" + name + ".key")
	if err != nil {
		return p, nil
	}
	kblk, _ := pem.Decode(kb)
	if kblk == nil {
		return p, nil
	}
	switch kblk.Type {
	case "RSA PRIVATE KEY":
		k, err := x509.ParsePKCS1PrivateKey(kblk.Bytes)
		if err != nil {
			return nil, err
		}
		p.RSA = k
		p.Signer = k
	case "PRIVATE KEY":
		k, err := x509.ParsePKCS8PrivateKey(kblk.Bytes)
		if err == nil {
			if s, ok := k.(crypto.Signer); ok {
				p.Signer = s
			}
			if r, ok := k.(*rsa.PrivateKey); ok {
				p.RSA = r
			}
		}
	}
	return p, nil
}
