#!/usr/bin/env python3
"""Independent oracles used by the Go harness (no Go code, no third-party modules).

Protocol: one JSON object per line on stdin, one JSON object per line on stdout.

  {"op":"wf",   "xml":<base64>}                         -> {"ok":bool,"err":str,"nodes":[[depth,ns,local,{attr:val},text],...]}
  {"op":"dsig", "xml":<base64>,"tag":"Assertion","n":<hex modulus>,"e":<int>}
                                                        -> {"ok":bool,"err":str,"digest_alg":..,"sig_alg":..}

wf   : expat well-formedness check + a flat, namespace-resolved dump of the document
       (element order, namespace, local name, attributes with namespace-resolved names, direct text).
dsig : enveloped XML signature verification: expat parse -> own exclusive C14N 1.0 ->
       digest comparison -> C14N of SignedInfo -> RSASSA-PKCS1-v1_5 with integer modpow.
"""
import sys, json, base64, hashlib
import xml.parsers.expat as expat

DS = "http://www.w3.org/2000/09/xmldsig#"
XMLNS = "http://www.w3.org/XML/1998/namespace"


class El:
    __slots__ = ("qname", "attrs", "kids", "parent", "nsdecl")

    def __init__(self, qname, attrs, parent):
        self.qname = qname
        self.attrs = []      # (qname, value) excluding xmlns declarations
        self.nsdecl = {}     # prefix ('' = default) -> uri, declared on this element
        self.kids = []       # El or str
        self.parent = parent
        for i in range(0, len(attrs), 2):
            k, v = attrs[i], attrs[i + 1]
            if k == "xmlns":
                self.nsdecl[""] = v
            elif k.startswith("xmlns:"):
                self.nsdecl[k[6:]] = v
            else:
                self.attrs.append((k, v))

    def prefix(self):
        return self.qname.split(":", 1)[0] if ":" in self.qname else ""

    def local(self):
        return self.qname.split(":", 1)[1] if ":" in self.qname else self.qname

    def lookup(self, prefix):
        e = self
        while e is not None:
            if prefix in e.nsdecl:
                return e.nsdecl[prefix]
            e = e.parent
        if prefix == "xml":
            return XMLNS
        return "" if prefix == "" else None

    def ns(self):
        return self.lookup(self.prefix())

    def text(self):
        return "".join(k for k in self.kids if isinstance(k, str))

    def iter(self):
        yield self
        for k in self.kids:
            if isinstance(k, El):
                yield from k.iter()

    def child(self, ns, local):
        for k in self.kids:
            if isinstance(k, El) and k.local() == local and k.ns() == ns:
                return k
        return None

    def children(self, ns, local):
        return [k for k in self.kids if isinstance(k, El) and k.local() == local and k.ns() == ns]


def parse(data):
    p = expat.ParserCreate(namespace_separator=None)
    p.ordered_attributes = True
    p.buffer_text = True
    root = [None]
    cur = [None]
    count = [0]

    def start(name, attrs):
        e = El(name, attrs, cur[0])
        if cur[0] is None:
            root[0] = e
        else:
            cur[0].kids.append(e)
        cur[0] = e
        count[0] += 1

    def end(name):
        cur[0] = cur[0].parent

    def chars(s):
        if cur[0] is not None:
            if cur[0].kids and isinstance(cur[0].kids[-1], str):
                cur[0].kids[-1] += s
            else:
                cur[0].kids.append(s)

    p.StartElementHandler = start
    p.EndElementHandler = end
    p.CharacterDataHandler = chars
    p.Parse(data, True)
    if root[0] is None:
        raise ValueError("no root element")
    # namespace well-formedness: every used prefix must be declared
    for e in root[0].iter():
        if e.ns() is None:
            raise ValueError("undeclared prefix on element " + e.qname)
        for k, _ in e.attrs:
            if ":" in k and e.lookup(k.split(":", 1)[0]) is None:
                raise ValueError("undeclared prefix on attribute " + k)
    return root[0]


def esc_text(s):
    return s.replace("&", "&amp;").replace("<", "&lt;").replace(">", "&gt;").replace("\r", "&#xD;")


def esc_attr(s):
    return (s.replace("&", "&amp;").replace("<", "&lt;").replace('"', "&quot;")
            .replace("\t", "&#x9;").replace("\n", "&#xA;").replace("\r", "&#xD;"))


def exc_c14n(el, skip=None, inclusive=()):
    """Exclusive XML canonicalisation 1.0 (without comments) of the subtree rooted at el,
    omitting the subtree `skip` (enveloped-signature transform)."""
    out = []

    def render(e, rendered):
        if e is skip:
            return
        # visibly utilised prefixes
        used = {e.prefix()}
        for k, _ in e.attrs:
            if ":" in k:
                used.add(k.split(":", 1)[0])
        for p in inclusive:
            if e.lookup("" if p == "#default" else p) is not None:
                used.add("" if p == "#default" else p)
        used.discard("xml")
        nsout = []
        rendered = dict(rendered)
        for p in sorted(used):
            uri = e.lookup(p)
            if uri is None:
                uri = ""
            if p == "":
                if rendered.get("", "") != uri:
                    nsout.append(("", uri))
                    rendered[""] = uri
            else:
                if rendered.get(p) != uri:
                    nsout.append((p, uri))
                    rendered[p] = uri
        out.append("<" + e.qname)
        for p, uri in nsout:
            if p == "":
                out.append(' xmlns="' + esc_attr(uri) + '"')
            else:
                out.append(" xmlns:" + p + '="' + esc_attr(uri) + '"')

        def akey(kv):
            k = kv[0]
            if ":" in k:
                pfx, loc = k.split(":", 1)
                return (e.lookup(pfx) or "", loc)
            return ("", k)

        for k, v in sorted(e.attrs, key=akey):
            out.append(" " + k + '="' + esc_attr(v) + '"')
        out.append(">")
        for k in e.kids:
            if isinstance(k, str):
                out.append(esc_text(k))
            else:
                render(k, rendered)
        out.append("</" + e.qname + ">")

    render(el, {})
    return "".join(out).encode("utf-8")


HASHES = {
    "http://www.w3.org/2000/09/xmldsig#sha1": ("sha1", bytes.fromhex("3021300906052b0e03021a05000414")),
    "http://www.w3.org/2001/04/xmlenc#sha256": ("sha256", bytes.fromhex("3031300d060960864801650304020105000420")),
    "http://www.w3.org/2001/04/xmlenc#sha512": ("sha512", bytes.fromhex("3051300d060960864801650304020305000440")),
}
SIGS = {
    "http://www.w3.org/2000/09/xmldsig#rsa-sha1": "http://www.w3.org/2000/09/xmldsig#sha1",
    "http://www.w3.org/2001/04/xmldsig-more#rsa-sha256": "http://www.w3.org/2001/04/xmlenc#sha256",
    "http://www.w3.org/2001/04/xmldsig-more#rsa-sha512": "http://www.w3.org/2001/04/xmlenc#sha512",
}
C14N_EXC = "http://www.w3.org/2001/10/xml-exc-c14n#"
ENVELOPED = "http://www.w3.org/2000/09/xmldsig#enveloped-signature"


def find_first(root, local):
    for e in root.iter():
        if e.local() == local:
            return e
    return None


def attr(e, name):
    for k, v in e.attrs:
        if k == name:
            return v
    return None


def dsig_verify(data, tag, n, e_pub):
    root = parse(data)
    target = find_first(root, tag)
    if target is None:
        return False, "no %s element" % tag, {}
    sig = target.child(DS, "Signature")
    if sig is None:
        return False, "%s carries no Signature" % tag, {}
    si = sig.child(DS, "SignedInfo")
    sv = sig.child(DS, "SignatureValue")
    if si is None or sv is None:
        return False, "Signature lacks SignedInfo or SignatureValue", {}
    cm = si.child(DS, "CanonicalizationMethod")
    sm = si.child(DS, "SignatureMethod")
    if cm is None or sm is None:
        return False, "SignedInfo lacks CanonicalizationMethod or SignatureMethod", {}
    if attr(cm, "Algorithm") != C14N_EXC:
        return False, "unsupported canonicalisation " + str(attr(cm, "Algorithm")), {}
    sig_alg = attr(sm, "Algorithm")
    if sig_alg not in SIGS:
        return False, "unsupported signature method " + str(sig_alg), {}
    refs = si.children(DS, "Reference")
    if len(refs) != 1:
        return False, "expected exactly one Reference, found %d" % len(refs), {}
    ref = refs[0]
    uri = attr(ref, "URI") or ""
    tid = attr(target, "ID")
    if uri == "":
        if target is not root:
            return False, "empty Reference URI on a nested element", {}
    elif uri != "#" + (tid or ""):
        return False, "Reference URI %r does not point to the %s (ID %r)" % (uri, tag, tid), {}
    ids = [x for x in root.iter() if attr(x, "ID") == tid]
    if len(ids) != 1:
        return False, "ID %r is not unique in the document (%d elements)" % (tid, len(ids)), {}
    trs = ref.child(DS, "Transforms")
    talgs = [attr(t, "Algorithm") for t in (trs.children(DS, "Transform") if trs is not None else [])]
    for t in talgs:
        if t not in (ENVELOPED, C14N_EXC):
            return False, "unsupported transform " + str(t), {}
    if ENVELOPED not in talgs:
        return False, "enveloped-signature transform missing", {}
    dm = ref.child(DS, "DigestMethod")
    dv = ref.child(DS, "DigestValue")
    if dm is None or dv is None:
        return False, "Reference lacks DigestMethod or DigestValue", {}
    dalg = attr(dm, "Algorithm")
    if dalg not in HASHES:
        return False, "unsupported digest method " + str(dalg), {}
    info = {"digest_alg": dalg, "sig_alg": sig_alg}
    canon = exc_c14n(target, skip=sig)
    want = hashlib.new(HASHES[dalg][0], canon).digest()
    try:
        got = base64.b64decode("".join(dv.text().split()), validate=True)
    except Exception as ex:
        return False, "DigestValue is not base64: %s" % ex, info
    if got != want:
        return False, "digest mismatch", info
    si_canon = exc_c14n(si)
    hname, prefix = HASHES[SIGS[sig_alg]]
    h = hashlib.new(hname, si_canon).digest()
    try:
        sigbytes = base64.b64decode("".join(sv.text().split()), validate=True)
    except Exception as ex:
        return False, "SignatureValue is not base64: %s" % ex, info
    k = (n.bit_length() + 7) // 8
    if len(sigbytes) != k:
        return False, "signature length %d != modulus length %d" % (len(sigbytes), k), info
    m = pow(int.from_bytes(sigbytes, "big"), e_pub, n).to_bytes(k, "big")
    t = prefix + h
    em = b"\x00\x01" + b"\xff" * (k - len(t) - 3) + b"\x00" + t
    if m != em:
        return False, "signature value does not verify over SignedInfo", info
    return True, "", info


def dump(root):
    nodes = []

    def rec(e, depth):
        attrs = {}
        for k, v in e.attrs:
            if ":" in k:
                pfx, loc = k.split(":", 1)
                attrs["{" + (e.lookup(pfx) or "") + "}" + loc] = v
            else:
                attrs[k] = v
        nodes.append([depth, e.ns() or "", e.local(), attrs, e.text()])
        for k in e.kids:
            if isinstance(k, El):
                rec(k, depth + 1)

    rec(root, 0)
    return nodes


def handle(req):
    op = req.get("op")
    data = base64.b64decode(req.get("xml", ""))
    if op == "wf":
        try:
            root = parse(data)
        except (expat.ExpatError, ValueError) as ex:
            return {"ok": False, "err": str(ex)}
        r = {"ok": True, "err": ""}
        if not req.get("nodump"):
            r["nodes"] = dump(root)
        return r
    if op == "dsig":
        try:
            ok, err, info = dsig_verify(data, req.get("tag", "Assertion"), int(req["n"], 16), int(req["e"]))
        except (expat.ExpatError, ValueError) as ex:
            return {"ok": False, "err": "parse: " + str(ex)}
        info.update({"ok": ok, "err": err})
        return info
    if op == "c14n":
        root = parse(data)
        t = find_first(root, req.get("tag", "Assertion"))
        return {"ok": True, "c14n": base64.b64encode(exc_c14n(t, skip=t.child(DS, "Signature"))).decode()}
    if op == "ping":
        return {"ok": True}
    return {"ok": False, "err": "unknown op"}


def main():
    out = sys.stdout
    for line in sys.stdin:
        line = line.strip()
        if not line:
            continue
        try:
            resp = handle(json.loads(line))
        except Exception as ex:  # oracle defect: reported as such, never as a verdict
            resp = {"ok": False, "err": "ORACLE-EXCEPTION " + repr(ex), "oracle_error": True}
        out.write(json.dumps(resp) + "\n")
        out.flush()


if __name__ == "__main__":
    main()
