#!/usr/bin/env python3
"""Generates MANIFEST.json from the table below (kept in one place so it stays current)."""
import json

CHECKS = {
 # id: (level, technique, level text, level note, design ref)
 "C03": ("exploration", "reference-record monitor on decoded callback replies (etree + expat double extraction, wall-clock bracket)",
         "Hundreds to thousands of stored-request x user x configuration cases are driven through the real login callback; every field of each decoded Success response is compared with a reference record the harness computes itself, extracted twice with independent parsers; a further workload lets the user lookup fail (at once, late, after part of the record) and no Success may follow; the storage's records are compared with their registered state after every case. Sampling, not proof: the input space (all strings) is unbounded. Histories on one provider (two sessions colliding in AuthnRequest ID / RelayState / user / application, called back repeatedly and alternately, the application re-registered in between) are judged reply by reply.",
         "Trusts etree/expat parsing, html tokenizer of the harness, and the wall-clock bracket (1 s slack). Strings are drawn from legal XML characters only.", "DESIGN.md §5 C03"),
 "C04": ("exploration", "independent verifiers (goxmldsig + python expat/exc-c14n/modpow; own HTTP-Redirect verifier) over artefacts emitted by the real handlers",
         "Every signed artefact the handlers emit in the run (assertions on POST / body / SOAP delivery, redirect query signatures, signed metadata) is verified on its wire bytes by two independent verifiers with the certificate the IdP publishes; users with several kB of incompressible data, key rotations on long-lived providers and configurations in which signing cannot succeed are included. Repeated and alternating callbacks of colliding sessions on one provider and RelayStates beyond 80 bytes are included.",
         "Trusts crypto/rsa, hashlib, expat; V1 and V2 jointly.", "DESIGN.md §5 C04"),
 "C05": ("exploration", "signed-set membership monitor over the storage event log (what was persisted vs. what the simulated SPs really signed)",
         "40 configurations x 20 mutation families of validly signed messages are sent to the real SSO handler; whenever a request is accepted although signing was required or a signature value was present, the persisted content must be exactly something the registered key signed. One family smuggles forged values beside a genuine triple sent in another percent-encoding style; a ninth of the cases runs while the key storage is failing. Rejection is always allowed, so the monitor cannot raise a false alarm on stricter code. A seventh of the cases is preceded by refused messages whose DEFLATE stream breaks off behind a complete, never signed request.",
         "Trusts the harness's own signer (crypto/rsa, goxmldsig SigningContext) and the event log; R2 is not judged when parameter occurrences in query and body differ.", "DESIGN.md §5 C05"),
 "C06": ("exploration", "label-by-construction monitor plus independent (expat) re-evaluation of every accepted request",
         "Conformant requests with 0-2 labelled deviations are sent to the real SSO handler; a labelled deviation must never be accepted, and every accepted request is decoded independently and all necessary conditions are re-evaluated against the call's time bracket; sequential and concurrent multi-host workloads (six clients of three hosts in flight on one provider, delays inside storage calls) send requests that carry another host's location.",
         "Trusts expat, stdlib base64/flate, the time bracket (2 s slack). Leniencies of encoding/xml that still 'decode as an AuthnRequest' (trailing bytes, duplicate attributes) are not judged.", "DESIGN.md §5 C06"),
 "C07": ("exploration", "conformant-message generator with acceptance monitor (storage log + decoded status)",
         "Messages a conformant SP can produce (serialisation styles x bindings x signing x encoding styles x KeyInfo layouts x requirements) must be accepted by the real handlers - also in multi-host sequences, with six clients of three hosts in flight on one provider, after long uptime, and while a neighbouring request of the same service provider is being aborted (cancelled context). Correctly signed requests of several service providers are in flight together; signed and unsigned attribute queries also declare their namespace prefixes on the SOAP Envelope / Body.",
         "The generator defines 'conformant'; it never sends an empty RelayState parameter and uses UTC 'Z' timestamps.", "DESIGN.md §5 C07"),
 "C08": ("exploration", "outcome monitor over recorded ResponseWriter calls and the storage write log",
         "Each SSO request (valid, invalid at each step, unanswerable, failing persistence; any consumer-binding mix) must end in exactly one of the two outcomes; persist count, reply shape, number of documents/forms/WriteHeader calls and left-over records are checked; one request is also submitted twice at the same time, both submissions held inside CreateAuthRequest by a barrier in the storage. Consumer bindings include the other bindings SAML defines (SimpleSign, SOAP, URI, holder-of-key).",
         "Trusts the harness's reply classifier.", "DESIGN.md §5 C08"),
 "C01": ("exploration", "online monitor on the tagged storage event log + leak scan of fully decoded replies + porcupine linearizability check of completion/callback histories",
         "Callbacks in every stored-request state (absent / pending / done / late failures) with every id placement (incl. percent-sequence aliases of another session's id) and method, late failures in several relative timings, are judged online: Success needs an observed 'found and Done()=true' for a supplied id; anything else must carry no NameID, attribute value, signature or user canary. Concurrent histories (sessions created through the real SSO endpoint, racing completions and callbacks, delays injected in storage) are checked with porcupine against a per-session register model. Live records: the login is completed / the account switched after the n-th accessor call of the callback, and a Success must be about the user the record named when it reported completion; the storage may also crash (panic) inside the calls behind the gate.",
         "Trusts the simulated storage (per-lookup wrapper attributes Done() to the calling request) and porcupine; histories are short (<= 60 operations) so the checker never times out.", "DESIGN.md §5 C01"),
 "C02": ("exploration", "delivery-target monitor: registered-endpoint membership, only-encodes relation on form actions, canary hosts",
         "SSO, callback and logout requests that try to steer the reply elsewhere (foreign ACS URL / index / binding / Destination, URL RelayState, override-like parameters) against hostile registered URLs: every form action / Location / Destination / Recipient and every pair handed to CreateAuthRequest must come from the registration (resp. the stored request). Plain-http consumer URLs, explicit ports, callback histories of colliding sessions and two tenants with one entity ID in flight together are included.",
         "Registered URLs are absolute http(s) URLs without fragment; html/template URL normalisation is modelled only by the table-free 'only-encodes' relation.", "DESIGN.md §5 C02"),
 "C09": ("exploration", "recover()-based crash monitor in child processes over exhaustive structural edits, grids and byte mutations",
         "Every single (thorough: every pair of) deletion / duplication / emptying of each element and attribute of valid messages on all transports, every SigAlg URI x registered key type, every endpoint x method x parameter shape, byte mutations, integer boundary values for index attributes, SP metadata edits and sequences with faults that persist over several requests of one provider are executed against the real handlers / NewServiceProvider with panics recovered per call; a dying child process is a violation whose replay is the journalled case. Clients go away before the handler starts, after the body was read and inside the k-th storage call; SP metadata is offered under 50 declared encodings.",
         "Absence of panics is only shown for the inputs executed; the thorough tier adds all pairs of structural edits and four coverage-guided go test -fuzz targets (decoders, NewServiceProvider, SSO handler, logout / attribute query / callback handlers) with execution-count budgets.", "DESIGN.md §5 C09"),
 "C10": ("fault_enumeration", "fault-injection enumeration over recorded storage-call sequences with fail-closed oracle",
         "For 15 endpoint scenarios the storage calls of a fault-free run are recorded; every (operation, occurrence) x fault kind is injected singly - on a fresh provider and right after the same provider served the same request fault-free, each also with the failing call slow, with all other calls slow and (user lookups) after part of the record was delivered - (and, thorough, in pairs where the handler still calls storage after the first fault), plus unusable configured signature algorithms; after a fault the reply must be HTTP 5xx or non-Success SAML with no user data, signature, persistence or login redirect. Exhaustive over the enumerated space. Every operation is also made to fail for everybody while two identical requests are in flight.",
         "Other requests may reach other call sequences; the simulated storage decides which call fails by (operation, k-th occurrence within the request).", "DESIGN.md §5 C10"),
 "C11": ("exploration", "configuration sampling with positive probes: metadata vs observed Issuer / routes / key / refusal behaviour",
         "Random provider configurations x hosts: the served metadata is parsed (expat, library) and compared with what the provider does - Issuer of four reply kinds, advertised locations vs routes (a conformant request to the route must reach the right handler), KeyDescriptor vs certificate endpoint vs key verifying a fresh assertion, WantAuthnRequestsSigned vs actual refusal of unsigned requests on both bindings; key rotation and transient key-storage failures while the metadata is built. Route paths include segments that are percent-encoded on the wire.",
         "Route paths are pairwise distinct and free of %, ?, #; external endpoint URLs are compared textually only.", "DESIGN.md §5 C11"),
 "C12": ("exploration", "disclosure-guard monitor with user canaries + reference attribute filter + independent signature verifiers",
         "Attribute queries with labelled Issuer / Destination / signature / subject / requested attributes: any user canary in a reply implies all guard conditions; answered queries are compared with a reference filter (as sets), the lookup argument, NameID, InResponseTo, Audience, Issuer, and their assertion signature is verified by V1 and V2 (also when storage hands out a certificate and key that do not belong together); designators may name AttributeValues; the storage's records are compared with their registered state after every case.",
         "Signature-wrapping variants (a genuine signed query travelling with an unsigned one in 7 arrangements) must never be answered for the unsigned content.", "DESIGN.md §5 C12"),
 "C13": ("exploration", "label-by-construction monitor on decoded LogoutResponses with wall-clock bracket",
         "Logout requests with labelled validity, hostile RelayState and SP registrations with 0-3 SingleLogoutService entries: Success only for valid requests, InResponseTo echo, Issuer, delivery target = first registered location or body, RelayState unchanged; POST bodies that trickle in while the request expires must not be answered with Success. Some entries carry a ResponseLocation attribute.",
         "Absent / unparseable instants are not judged; RelayState is compared modulo CR/CRLF->LF.", "DESIGN.md §5 C13"),
 "C14": ("exploration", "allocation monitor (runtime.MemStats.TotalAlloc around one ServeHTTP) in a dedicated sequential child process",
         "Decompression bombs of 1 MiB - 256 MiB (thorough 1 GiB) in six placements, four containers (raw, zlib, gzip, many complete DEFLATE streams back to back), on all inflating endpoints, also while the key storage is failing: per-request allocation ceiling, flatness of allocation beyond the cap, and non-acceptance of large payloads.",
         "Measures cumulative allocation, not RSS; thresholds are deliberately loose (512 MiB ceiling, 1.5x flatness).", "DESIGN.md §5 C14"),
 "C15": ("exploration", "Go race detector + canary isolation monitor + global ID-uniqueness monitor under a concurrent mixed workload with injected storage delays",
         "16/32/64 concurrent clients x GOMAXPROCS 2/4/16 against one provider instance built with -race; DATA RACE reports with repo frames, any foreign canary in a reply or persisted record, and any duplicate or malformed ID are violations; replies are compared with the registered user records, which must themselves stay unchanged; the concurrent workloads of C06/C07/C08 run once more in this build. Some rounds give every virtual host a signing key of its own (picked by the issuer in the storage call's context) and leave parts of the organisation data unconfigured; a request that is never answered is reported by a per-request monitor. Evidence reports max in-flight requests and distinct interleaving signatures actually observed.",
         "The race detector only sees executed interleavings; delays are injected at the storage suspension points only.", "DESIGN.md §5 C15"),
 "C16": ("exploration", "reference-model monitor over exhaustive enumeration of the stated list domain (+ end-to-end sample through the SSO handler)",
         "Every consumer-service list up to length 3 (quick) / 4 (thorough) over the stated domain x 6 requested bindings is evaluated by the real selection function and compared with the set of entries the documented rule allows. Exhaustive on the stated bound. End to end: registration histories, first requests of a fresh registration at once, two tenants' requests for one entity ID in flight together.",
         "Trusts the 25-line reference model; ties on the minimal index are free.", "DESIGN.md §5 C16"),
 "C17": ("exploration", "own byte-level HTML tokenizer: skeleton identity against a neutral rendering + value identity of the three substitutions",
         "Auto-submit pages produced through every real path with hostile RelayState (all bytes, NUL, invalid UTF-8, 64 KiB) and consumer URLs (scheme tricks, markup) must have the neutral skeleton; the three values must be the substituted ones (NUL / invalid UTF-8 may become U+FFFD); the action's scheme as a browser reads it must not be a script scheme (javascript, vbscript, livescript, mocha, data); storage faults at the callback must not yield a second page. Repeated callbacks of one session must each be a complete page (never an empty 200); logout pages are rendered while secondary storage calls fail.",
         "Trusts the harness tokenizer (HTML tag / attribute states); the inert placeholder is accepted only for URLs with a non-http(s)/mailto 'scheme'.", "DESIGN.md §5 C17"),
 "C18": ("exploration", "codec identity monitor + expat well-formedness / skeleton identity / value identity on marshalled messages and harvested replies",
         "Round trip of the DEFLATE+base64 codec on 0 B - 4 MiB inputs, error on every near-miss encoding identifier; Response / SOAP / LogoutResponse / EntityDescriptor values with arbitrary (incl. illegal) strings through the exported marshallers must stay one well-formed document with the neutral skeleton and give the values back (legal: exactly; illegal: replaced only); replies echoing attacker-chosen IDs are checked likewise. Metadata documents served around key faults are one well-formed EntityDescriptor with the configured values or an error status.",
         "Trusts expat as the generic XML parser; codec inputs above the decoder's cap are out of scope (C14).", "DESIGN.md §5 C18"),
 "C19": ("exploration", "RFC 3986 reference splitter on accepted issuers + by-construction expectation on Forwarded / Host derived issuers",
         "Issuer strings x insecure flag offered to ValidateIssuer / NewProvider: acceptance implies the reference conditions (only-if; stricter code never alarms). Generated header sets: entityID and endpoint URLs of the served metadata equal scheme + expected host + configured path.",
         "For malformed forwarding headers only the weaker origin clause is judged.", "DESIGN.md §5 C19"),
 "C20": ("exploration", "reference-interpreter monitor over traces recorded by instrumented closures (exhaustive chain enumeration + random chains)",
         "Every step sequence up to length 4 (quick) / 6 (thorough) over all (step kind, outcome) variants is built with the real checker and evaluated twice (random chains four more times after the outcomes of their steps were changed); an online monitor compares the recorded closure trace and result with a reference interpreter. Two evaluations of one checker also overlap (one parked inside a step while the other runs start to end), each judged on its own. Exhaustive on the stated bound, sampled beyond it.",
         "Trusts the reference interpreter (40 lines) and that closures are deterministic; value-read multiplicity is deliberately not judged.", "DESIGN.md §5 C20"),
}

NOT_YET = {}


# additions of the third session (rounds 8 and 9), appended to the level texts above
ADD = {
 "C01": " Completed sessions whose stored binding cannot be delivered through meet the failures of signing on purpose (D21); a share of the cases carries parameters and headers nobody asked for, named after every name the library's source mentions, and callbacks for sessions that have not completed carry all of those names set to each protocol value (status codes, bindings ...) in turn.",
 "C02": " Consumer services with a ResponseLocation attribute and stored requests without consumer URL whose Destination / Issuer are foreign URLs are included.",
 "C03": " A third of the callbacks carries foreign parameters named like the fields of the stored request (RelayState, consumer URL, binding ...).",
 "C04": " Signed metadata is also asked for with every name of the library's source as a parameter and header (switch-like values); stored bindings that cannot be delivered through are included.",
 "C05": " Validly signed redirect messages with RelayStates of NUL / non-UTF-8 / blank-padded bytes, attacker signatures whose KeyInfo holds no certificate, and redirect messages requested with POST are mutation families of their own.",
 "C06": " An Issuer that names nobody while the registered requester is named elsewhere in the request, and an Issuer that reads differently in the single-byte encoding the document declares, are deviations of their own; a window that closes during a later storage call is counted, not judged.",
 "C09": " The quick tier runs a share of the pairwise edits (every single edit on top of a deleted child of the document element), 24 content types incl. real multipart bodies.",
 "C10": " Further fault kinds: the client goes away at the n-th storage call (context cancelled), errors whose text is long and multi-byte / full of format verbs / full of markup; every scenario is repeated with parameters and headers nobody asked for; the exported Readiness handler is driven with probe lists of 1..4 probes with every non-empty failing subset.",
 "C12": " Queries whose requester goes away at the n-th storage call, requesters whose own metadata says WantAssertionsSigned=false, and queries of nobody that name a registered requester in the subject's qualifiers are included.",
 "C13": " Instants at the ends of the representable range (year 1, the Unix epoch, 9999), RelayState pairs no encoder writes (raw ';', dangling '%') and requests without Issuer element that name a registered requester elsewhere are included.",
 "C14": " A neighbouring provider and service provider in the same process are configured with the most generous limits the configuration structs of the tree offer (integer fields named like a limit, found by reflection). Requests that are megabytes long themselves (padding compressing about 20:1, forms only) are included; every request runs under a cancellable context as under net/http.",
 "C15": " After dozens of requests of other sessions have failed at one storage call (four at a time), healthy sessions must still be answered with Success; half of the rounds use a time layout without fractions of a second.",
 "C16": " A third of the end-to-end requests also name the location of an entry registered with the binding they ask for.",
 "C17": " The media type the page is sent with has to be text/html; a page whose first write stalls while another page is produced on the same provider, and 64 KiB runs of characters that are written as several, are included.",
 "C11": " Insecure mode and a run-time change of the configured signing requirement (advertisement and enforcement must still agree) are included.",
 "C18": " Eight logins, metadata requests and attribute queries are built side by side on one provider (each Success decodes to its own user's values); attribute queries failing with unusual error texts must not produce a body announced as XML that is not well-formed; word-like codec inputs.",
 "C20": " A share of the chains is evaluated while the process logs at debug / trace level.",
 "C19": " Concurrent derivation with signed metadata (endpoint locations judged). Field lines ending in an empty forwarded-pair, three-name header lists and malformed headers that name no host at all (precise clause) are included.",
}

def main():
    props = [json.loads(l) for l in open('/verif/properties.jsonl')]
    checks, na = [], []
    for p in props:
        pid = p['id']
        if pid in CHECKS:
            lvl, tech, text, note, ref = CHECKS[pid]
            checks.append({
                "property_id": pid,
                "quick_cmd": f"./check {pid} --tier quick",
                "thorough_cmd": f"./check {pid} --tier thorough",
                "evidence_file": f"/verif/evidence/{pid}.json",
                "replay_cmd_template": f"./check {pid} --replay {{path}}",
                "engine": "verifh",
                "level_claimed": {"category": lvl, "text": text + ADD.get(pid, ""), "design_ref": ref},
                "level_note": note,
                "technique": tech,
            })
        else:
            na.append({"property_id": pid, "reason": NOT_YET.get(pid, "check not implemented yet in this revision of /verif (planned: runtime monitor per DESIGN.md §5); not claimed until it exists")})
    m = {
        "version": 1,
        "setup_cmd": "./setup.sh",
        "hooks": {
            "guard": "verif",
            "enable": "go build -tags verif (all harness builds pass it); no guarded hook exists in /repo: every property is observed at the HTTP and Storage boundaries, which the harness owns",
            "baseline_off_cmd": "cd /repo && GOFLAGS=-mod=mod GOPROXY=off go test -vet=off -count=1 ./...",
            "source_commits": [],
            "add_only": True,
        },
        "engines": [
            {"name": "verifh", "path": "/verif/harness", "serves_properties": sorted(CHECKS), "kind_free_text": "Go harness: simulated Storage with event log / fault plans / delay plans, simulated service providers, reply decoder, independent verifiers; one workload + monitor per property; runs the real handlers built from /repo's working tree in a child process (race-detector build for C15)"},
            {"name": "pyoracle", "path": "/verif/pyoracle", "serves_properties": sorted(set(CHECKS) & {"C03","C04","C06","C11","C12","C18"}), "kind_free_text": "Python stdlib oracles: expat well-formedness / field extraction and an independent XML-DSig verifier (own exclusive C14N + hashlib + integer modpow)"},
        ],
        "checks": checks,
        "not_applicable": na,
        "notes": "Technique family: runtime monitoring and sanitizers. Exit codes: 0 held on what was observed, 1 VIOLATION, 2 INCONCLUSIVE (minimum-observation thresholds not met, child died, harness does not build). Known findings: /verif/known_findings.json.",
    }
    json.dump(m, open('/verif/MANIFEST.json', 'w'), indent=1)
    print("checks:", len(checks), "not_applicable:", len(na))

main()
