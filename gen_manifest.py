#!/usr/bin/env python3
"""Generates MANIFEST.json from the table below (kept in one place so it stays current)."""
import json

CHECKS = {
 # id: (level, technique, level text, level note, design ref)
 "C20": ("exploration", "reference-interpreter monitor over traces recorded by instrumented closures (exhaustive chain enumeration + random chains)",
         "Every step sequence up to length 4 (quick) / 6 (thorough) over all (step kind, outcome) variants is built with the real checker and evaluated twice; an online monitor compares the recorded closure trace and result with a reference interpreter. Exhaustive on the stated bound, sampled beyond it.",
         "Trusts the reference interpreter (40 lines) and that closures are deterministic; value-read multiplicity is deliberately not judged.", "DESIGN.md §5 C20"),
}

NOT_YET = {}

def main():
    props = [json.loads(l) for l in open('/verif/properties.jsonl')]
    checks, na = [], []
    for p in props:
        pid = p['id']
        if pid in CHECKS:
            lvl, tech, text, note, ref = CHECKS[pid]
            checks.append({
                "property_id": pid,
                "quick_cmd": f"./check {pid} --tier quick",
                "thorough_cmd": f"./check {pid} --tier thorough",
                "evidence_file": f"/verif/evidence/{pid}.json",
                "replay_cmd_template": f"./check {pid} --replay {{path}}",
                "engine": "verifh",
                "level_claimed": {"category": lvl, "text": text, "design_ref": ref},
                "level_note": note,
                "technique": tech,
            })
        else:
            na.append({"property_id": pid, "reason": NOT_YET.get(pid, "check not implemented yet in this revision of /verif (planned: runtime monitor per DESIGN.md §5); not claimed until it exists")})
    m = {
        "version": 1,
        "setup_cmd": "./setup.sh",
        "hooks": {
            "guard": "verif",
            "enable": "go build -tags verif (all harness builds pass it); no guarded hook exists in /repo: every property is observed at the HTTP and Storage boundaries, which the harness owns",
            "baseline_off_cmd": "cd /repo && GOFLAGS=-mod=mod GOPROXY=off go test -vet=off -count=1 ./...",
            "source_commits": [],
            "add_only": True,
        },
        "engines": [
            {"name": "verifh", "path": "/verif/harness", "serves_properties": sorted(CHECKS), "kind_free_text": "Go harness: simulated Storage with event log / fault plans / delay plans, simulated service providers, reply decoder, independent verifiers; one workload + monitor per property; runs the real handlers built from /repo's working tree in a child process (race-detector build for C15)"},
            {"name": "pyoracle", "path": "/verif/pyoracle", "serves_properties": [], "kind_free_text": "Python stdlib oracles: expat well-formedness / field extraction and an independent XML-DSig verifier (own exclusive C14N + hashlib + integer modpow)"},
        ],
        "checks": checks,
        "not_applicable": na,
        "notes": "Technique family: runtime monitoring and sanitizers. Exit codes: 0 held on what was observed, 1 VIOLATION, 2 INCONCLUSIVE (minimum-observation thresholds not met, child died, harness does not build). Known findings: /verif/known_findings.json.",
    }
    json.dump(m, open('/verif/MANIFEST.json', 'w'), indent=1)
    print("checks:", len(checks), "not_applicable:", len(na))

main()
