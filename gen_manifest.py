#!/usr/bin/env python3
"""Generates MANIFEST.json from the table below (kept in one place so it stays current)."""
import json

CHECKS = {
 # id: (level, technique, level text, level note, design ref)
 "C03": ("exploration", "reference-record monitor on decoded callback replies (etree + expat double extraction, wall-clock bracket)",
         "Hundreds to thousands of stored-request x user x configuration cases are driven through the real login callback; every field of each decoded Success response is compared with a reference record the harness computes itself, extracted twice with independent parsers. Sampling, not proof: the input space (all strings) is unbounded.",
         "Trusts etree/expat parsing, html tokenizer of the harness, and the wall-clock bracket (1 s slack). Strings are drawn from legal XML characters only.", "DESIGN.md §5 C03"),
 "C04": ("exploration", "independent verifiers (goxmldsig + python expat/exc-c14n/modpow; own HTTP-Redirect verifier) over artefacts emitted by the real handlers",
         "Every signed artefact the handlers emit in the run (assertions on POST / body / SOAP delivery, redirect query signatures, signed metadata) is verified on its wire bytes by two independent verifiers with the certificate the IdP publishes. Known finding D6 (third-party canonicaliser) is reported as KNOWN-FINDING for inputs with characters that canonical XML must escape.",
         "Trusts crypto/rsa, hashlib, expat; V1 and V2 jointly. Cases whose signed strings contain & < > CR (text) or & < \" TAB LF CR (attributes) are covered by known finding D6 and cannot reveal other signature defects.", "DESIGN.md §5 C04"),
 "C05": ("exploration", "signed-set membership monitor over the storage event log (what was persisted vs. what the simulated SPs really signed)",
         "40 configurations x 18 mutation families of validly signed messages are sent to the real SSO handler; whenever a request is accepted although signing was required or a signature value was present, the persisted content must be exactly something the registered key signed. Rejection is always allowed, so the monitor cannot raise a false alarm on stricter code.",
         "Trusts the harness's own signer (crypto/rsa, goxmldsig SigningContext) and the event log; R2 is not judged when parameter occurrences in query and body differ.", "DESIGN.md §5 C05"),
 "C06": ("exploration", "label-by-construction monitor plus independent (expat) re-evaluation of every accepted request",
         "Conformant requests with 0-2 labelled deviations are sent to the real SSO handler; a labelled deviation must never be accepted, and every accepted request is decoded independently and all necessary conditions are re-evaluated against the call's time bracket.",
         "Trusts expat, stdlib base64/flate, the time bracket (2 s slack). Leniencies of encoding/xml that still 'decode as an AuthnRequest' (trailing bytes, duplicate attributes) are not judged.", "DESIGN.md §5 C06"),
 "C07": ("exploration", "conformant-message generator with acceptance monitor (storage log + decoded status)",
         "Messages a conformant SP can produce (serialisation styles x bindings x signing x encoding styles x KeyInfo layouts x requirements) must be accepted by the real handlers. Known findings D11 and D14 are reported as KNOWN-FINDING for their input classes only.",
         "The generator defines 'conformant'; it never sends an empty RelayState parameter and uses UTC 'Z' timestamps.", "DESIGN.md §5 C07"),
 "C08": ("exploration", "outcome monitor over recorded ResponseWriter calls and the storage write log",
         "Each SSO request (valid, invalid at each step, unanswerable, failing persistence; any consumer-binding mix) must end in exactly one of the two outcomes; persist count, reply shape, number of documents/forms/WriteHeader calls and left-over records are checked.",
         "Trusts the harness's reply classifier; one request per fresh provider and world.", "DESIGN.md §5 C08"),
 "C20": ("exploration", "reference-interpreter monitor over traces recorded by instrumented closures (exhaustive chain enumeration + random chains)",
         "Every step sequence up to length 4 (quick) / 6 (thorough) over all (step kind, outcome) variants is built with the real checker and evaluated twice; an online monitor compares the recorded closure trace and result with a reference interpreter. Exhaustive on the stated bound, sampled beyond it.",
         "Trusts the reference interpreter (40 lines) and that closures are deterministic; value-read multiplicity is deliberately not judged.", "DESIGN.md §5 C20"),
}

NOT_YET = {}

def main():
    props = [json.loads(l) for l in open('/verif/properties.jsonl')]
    checks, na = [], []
    for p in props:
        pid = p['id']
        if pid in CHECKS:
            lvl, tech, text, note, ref = CHECKS[pid]
            checks.append({
                "property_id": pid,
                "quick_cmd": f"./check {pid} --tier quick",
                "thorough_cmd": f"./check {pid} --tier thorough",
                "evidence_file": f"/verif/evidence/{pid}.json",
                "replay_cmd_template": f"./check {pid} --replay {{path}}",
                "engine": "verifh",
                "level_claimed": {"category": lvl, "text": text, "design_ref": ref},
                "level_note": note,
                "technique": tech,
            })
        else:
            na.append({"property_id": pid, "reason": NOT_YET.get(pid, "check not implemented yet in this revision of /verif (planned: runtime monitor per DESIGN.md §5); not claimed until it exists")})
    m = {
        "version": 1,
        "setup_cmd": "./setup.sh",
        "hooks": {
            "guard": "verif",
            "enable": "go build -tags verif (all harness builds pass it); no guarded hook exists in /repo: every property is observed at the HTTP and Storage boundaries, which the harness owns",
            "baseline_off_cmd": "cd /repo && GOFLAGS=-mod=mod GOPROXY=off go test -vet=off -count=1 ./...",
            "source_commits": [],
            "add_only": True,
        },
        "engines": [
            {"name": "verifh", "path": "/verif/harness", "serves_properties": sorted(CHECKS), "kind_free_text": "Go harness: simulated Storage with event log / fault plans / delay plans, simulated service providers, reply decoder, independent verifiers; one workload + monitor per property; runs the real handlers built from /repo's working tree in a child process (race-detector build for C15)"},
            {"name": "pyoracle", "path": "/verif/pyoracle", "serves_properties": sorted(set(CHECKS) & {"C03","C04","C06","C11","C12","C18"}), "kind_free_text": "Python stdlib oracles: expat well-formedness / field extraction and an independent XML-DSig verifier (own exclusive C14N + hashlib + integer modpow)"},
        ],
        "checks": checks,
        "not_applicable": na,
        "notes": "Technique family: runtime monitoring and sanitizers. Exit codes: 0 held on what was observed, 1 VIOLATION, 2 INCONCLUSIVE (minimum-observation thresholds not met, child died, harness does not build). Known findings: /verif/known_findings.json.",
    }
    json.dump(m, open('/verif/MANIFEST.json', 'w'), indent=1)
    print("checks:", len(checks), "not_applicable:", len(na))

main()
